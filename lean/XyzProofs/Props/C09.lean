import XyzProofs.Props.C04
import XyzProofs.Props.C03
/-!
# C09 — a partial reap shows finished batches exactly and everything else as missing

`fin i` says whether batch `i` has a result file.  The placeholder for a missing batch has the length of the sown
batch file it stands in for (the Reaper reads that file), so no arithmetic on batch sizes is involved.
-/
namespace Crop
open Core List

variable {β : Type}

/-- the stream a partial reap should see: per batch, `f` on the batch if finished, else the placeholder per item -/
def partialStream (f : List Nat → β) (ph : β) (fin : Nat → Bool) (bsl : List (List (List Nat))) : List β :=
  ((List.range bsl.length).zip bsl |>.map fun (j, b) => b.map fun x => if fin (j + 1) then f x else ph).flatten

theorem range_zip_snoc {γ} (l : List γ) (x : γ) :
    (List.range (l ++ [x]).length).zip (l ++ [x]) = (List.range l.length).zip l ++ [(l.length, x)] := by
  simp only [List.length_append, List.length_cons, List.length_nil, Nat.zero_add, List.range_succ]
  rw [List.zip_append (by simp)]
  simp

/-- **the Reaper's stream on a partly grown crop**: finished batches contribute their exact results, every other batch
contributes one placeholder per setting it contains -/
theorem c09_stream_partial (f : List Nat → β) (ph : β) (fin : Nat → Bool) (o : Obj) (d : Dir β)
    (bsl : List (List (List Nat))) (hne : ∀ b ∈ bsl, b ≠ [])
    (hb : ∀ j (hj : j < bsl.length), lookup d.batches (j + 1) = some bsl[j])
    (hfin : ∀ j (hj : j < bsl.length), fin (j + 1) = true → lookup d.results (j + 1) = some (.good (bsl[j].map f)))
    (hnot : ∀ j (hj : j < bsl.length), fin (j + 1) = false → lookup d.results (j + 1) = none) :
    reapStream o d bsl.length (some ph) = .ok (partialStream f ph fin bsl) := by
  unfold reapStream partialStream
  suffices h : ∀ m (hm : m ≤ bsl.length),
      (List.range m).foldl (reapStep o d (some ph)) (Except.ok []) =
        (Except.ok (((List.range m).zip (bsl.take m) |>.map fun (j, b) => b.map fun x => if fin (j + 1) then f x else ph).flatten)
          : Except Err (List β)) by
    have := h bsl.length (Nat.le_refl _)
    simpa using this
  intro m
  induction m with
  | zero => intro _; simp
  | succ k ih =>
    intro hk
    have hk' : k < bsl.length := by omega
    rw [List.range_succ, List.foldl_append, ih (by omega)]
    simp only [List.foldl_cons, List.foldl_nil, reapStep]
    have htake : bsl.take (k + 1) = bsl.take k ++ [bsl[k]] := List.take_succ_eq_append_getElem hk'
    have hlen : (bsl.take k).length = k := by simp; omega
    have hzip : (List.range k ++ [k]).zip (bsl.take (k + 1)) = (List.range k).zip (bsl.take k) ++ [(k, bsl[k])] := by
      rw [htake, List.zip_append (by simp [hlen])]
      simp
    rw [hzip]
    simp only [List.map_append, List.flatten_append, List.map_cons, List.map_nil, List.flatten_cons, List.flatten_nil,
      List.append_nil]
    cases hf : fin (k + 1) with
    | true =>
      rw [hfin k hk' hf]
      have hnek : bsl[k] ≠ [] := hne _ (List.getElem_mem hk')
      have : (bsl[k].map f).isEmpty = false := by
        cases hbk : bsl[k] with
        | nil => exact absurd hbk hnek
        | cons a t => rfl
      simp [this]
    | false =>
      rw [hnot k hk' hf, hb k hk']
      simp only [Bool.false_eq_true, if_false]
      congr 2
      apply List.ext_getElem <;> simp

/-- **where each value lands**: if the reaper's `k`-th call returns `vals[k]`, then after sorting the (index, result)
pairs back, enumeration index `σ[k]` holds `vals[k]` — for every permutation `σ` -/
theorem c09_unshuffle_positions (P : Perms) (seed n : Nat) (vals : List β) (hlen : vals.length = n)
    (hseed : seed ≠ 0) (hperm : P seed n ~ List.range n) :
    ∃ r, reorder P seed n vals = .ok r ∧ r.length = n ∧
      ∀ k (hk : k < n), r[(P seed n)[k]'(by rw [hperm.length_eq]; simpa using hk)]? = vals[k]? := by
  have hσlen : (P seed n).length = n := by rw [hperm.length_eq]; simp
  have hnodup : (P seed n).Nodup := hperm.nodup_iff.mpr (List.nodup_range)
  -- express vals as a function of the permutation's entries
  let h : Nat → Option β := fun i => vals[(P seed n).idxOf i]?
  have hvals : vals.map some = (P seed n).map h := by
    apply List.ext_getElem
    · simp [hlen, hσlen]
    · intro k h1 h2
      simp only [List.getElem_map, h]
      have hk : k < (P seed n).length := by simpa using h2
      rw [hnodup.idxOf_getElem k hk]
      simp at h1
      simp [h1]
  unfold reorder
  simp only [hlen, Nat.lt_irrefl, if_false, hseed]
  refine ⟨_, rfl, ?_, ?_⟩
  · simp [List.length_zip, hσlen, hlen]
  · intro k hk
    -- go through `Option`-valued lists to reuse `sort_map_range`
    have hsort := sort_map_range h (P seed n) n hperm
    have hzip : ((P seed n).zip vals).map (fun p => (p.1, some p.2)) = (P seed n).map (fun i => (i, h i)) := by
      rw [show ((P seed n).zip vals).map (fun p => (p.1, some p.2)) = (P seed n).zip (vals.map some) by
        rw [List.zip_map_right]; rfl]
      rw [hvals]
      clear hvals hsort
      generalize P seed n = σ
      induction σ with
      | nil => rfl
      | cons a t ih => simp only [List.map_cons, List.zip_cons_cons, ih]
    -- mergeSort commutes with mapping the payload (keys unchanged)
    have hcomm : (((P seed n).zip vals).mergeSort keyLE).map (fun p => (p.1, some p.2)) =
        (((P seed n).zip vals).map (fun p => (p.1, some p.2))).mergeSort keyLE := by
      apply List.map_mergeSort
      intro a _ b _
      simp [keyLE]
    rw [hzip, hsort] at hcomm
    have hk' : (P seed n)[k]'(by rw [hσlen]; exact hk) < n := by
      have := hperm.mem_iff.mp (List.getElem_mem (by rw [hσlen]; exact hk) : (P seed n)[k] ∈ P seed n)
      simpa using this
    have hget := congrArg (fun l => (l.map Prod.snd)[(P seed n)[k]'(by rw [hσlen]; exact hk)]?) hcomm
    simp only [List.map_map, List.getElem?_map] at hget
    have hrange : (List.range n)[(P seed n)[k]'(by rw [hσlen]; exact hk)]? = some ((P seed n)[k]'(by rw [hσlen]; exact hk)) := by
      simp [hk']
    rw [hrange] at hget
    simp only [Option.map_some, Function.comp, h] at hget
    rw [hnodup.idxOf_getElem k (by rw [hσlen]; exact hk)] at hget
    -- unwrap the outer `some`
    cases hr : ((((P seed n).zip vals).mergeSort keyLE).map Prod.snd)[(P seed n)[k]'(by rw [hσlen]; exact hk)]? with
    | none =>
      have : ((((P seed n).zip vals).mergeSort keyLE))[(P seed n)[k]'(by rw [hσlen]; exact hk)]? = none := by
        simpa [List.getElem?_map] using hr
      rw [this] at hget
      simp at hget
    | some v =>
      rw [List.getElem?_map] at hr
      cases hq : (((P seed n).zip vals).mergeSort keyLE)[(P seed n)[k]'(by rw [hσlen]; exact hk)]? with
      | none => rw [hq] at hr; simp at hr
      | some q =>
        rw [hq] at hr hget
        simp at hr hget
        rw [← hget, ← hr]

/-- **partial reap, linear form**: with `allow_incomplete` the reap succeeds on any non-empty set of finished batches and
its linear results are the partial stream (un-shuffled by `reorder`) -/
theorem c09_partial_linear (P : Perms) (f : List Nat → β) (nl : β → β) (fin : Nat → Bool) (s : St β) (d : Dir β)
    (info : Info) (bsl : List (List (List Nat))) (cu : Option Bool) (r0 : β) (rest0 : List β) (k0 : Nat)
    (hd : s.dir = some d) (hinfo : d.info = some info) (hnb : info.nb = bsl.length)
    (hne : ∀ b ∈ bsl, b ≠ [])
    (hb : ∀ j (hj : j < bsl.length), lookup d.batches (j + 1) = some bsl[j])
    (hfin : ∀ j (hj : j < bsl.length), fin (j + 1) = true → lookup d.results (j + 1) = some (.good (bsl[j].map f)))
    (hnot : ∀ j (hj : j < bsl.length), fin (j + 1) = false → lookup d.results (j + 1) = none)
    (hhead : d.results.head? = some (k0, .good (r0 :: rest0)))
    (hgood : ∀ kv ∈ d.results, ∃ rs, kv.2 = .good rs) :
    ∃ res, reapLinear P nl s { allowIncomplete := true, wait := false, cleanUp := cu } =
        (reorder P info.shuffle info.sweep.locs.length (partialStream f (nl r0) fin bsl)).map (fun r => (s, info, r)) ∧
      res = partialStream f (nl r0) fin bsl := by
  refine ⟨_, ?_, rfl⟩
  have hnan : allNanResult nl d = .ok (nl r0) := by
    unfold allNanResult
    cases hres : d.results with
    | nil => rw [hres] at hhead; simp at hhead
    | cons kv rest =>
      rw [hres] at hhead
      simp only [List.head?_cons, Option.some.injEq] at hhead
      subst hhead
      have hany : (((k0, ResFile.good (r0 :: rest0)) :: rest).any fun kv => kv.2.isBad) = false := by
        rw [List.any_eq_false]
        intro x hx
        obtain ⟨rs, hrs⟩ := hgood x (by rw [hres]; exact hx)
        simp [hrs, ResFile.isBad]
      simp only [hany, Bool.false_eq_true, if_false]
  have hstream := c09_stream_partial f (nl r0) fin s.obj d bsl hne hb hfin hnot
  unfold reapLinear
  simp only [readyGate, Bool.true_or, if_true, Bool.not_true, Bool.false_eq_true, if_false, hd, hnan, Except.map,
    hinfo, hnb, hstream]
  cases reorder P info.shuffle info.sweep.locs.length (partialStream f (nl r0) fin bsl) <;> rfl

/-- **refused**: without `allow_incomplete` and without `wait`, a crop that is not ready is refused with the
not-ready error (no state is returned: nothing was touched) -/
theorem c09_refused (P : Perms) (nl : β → β) (s : St β) (cu : Option Bool)
    (h : (isReady s).2 = false) :
    reapRaw P nl s { allowIncomplete := false, wait := false, cleanUp := cu } = .error .notReady := by
  unfold reapRaw reapLinear readyGate
  simp [h]

/-- **nothing is deleted by default** after a partial reap: `clean_up=None` resolves to `not allow_incomplete` -/
theorem c09_no_delete_by_default : cleanUpResolved none true = false ∧ cleanUpResolved none false = true := by
  simp [cleanUpResolved, Gen.cleanUpDefault, Gen.Default.cleanUpDefault]

/-- explicit `clean_up` values are honoured whatever `allow_incomplete` is -/
theorem c09_explicit_clean_up (b a : Bool) : cleanUpResolved (some b) a = b := by
  simp [cleanUpResolved, Gen.cleanUpDefault, Gen.Default.cleanUpDefault]

/-- a successful reap leaves the directory exactly as it was unless clean-up applies -/
theorem reapRaw_dir (P : Perms) (nl : β → β) (s s' : St β) (o : ReapOpts) (out : Nest β)
    (h : reapRaw P nl s o = .ok (s', out)) :
    s'.dir = if cleanUpResolved o.cleanUp o.allowIncomplete then none else s.dir := by
  unfold reapRaw at h
  split at h
  · cases h
  · rename_i s1 info results hlin
    have hs1 : s1.dir = s.dir := by
      unfold reapLinear at hlin
      have hg := readyGate_dir s o.allowIncomplete o.wait
      generalize readyGate s o.allowIncomplete o.wait = g at hlin hg
      obtain ⟨g1, g2⟩ := g
      simp only at hlin hg
      split at hlin
      · cases hlin
      · split at hlin
        · cases hlin
        · split at hlin
          · cases hlin
          · split at hlin
            · cases hlin
            · split at hlin
              · cases hlin
              · split at hlin
                · cases hlin
                · cases hlin; exact hg
    cases h
    split
    · rfl
    · exact hs1

/-- `allow_incomplete` needs at least one finished batch to infer the placeholder from -/
theorem c09_needs_one_finished (nl : β → β) (d : Dir β) (h : d.results = []) :
    allNanResult nl d = .error .noResultForNan := by
  simp [allNanResult, h]

/-! Non-vacuity: 5 settings in batches of 2 (short last batch), batches {1, 3} finished. -/
example : partialStream (fun l => l.sum) 99 (fun i => i == 1 || i == 3) [[[0], [1]], [[2], [3]], [[4]]]
    = [0, 1, 99, 99, 4] := by decide

end Crop

/-! ### the statement at the level of the returned nested tuple -/
namespace Crop
open Core List
variable {β : Type}

/-- every stream position with the (1-based) id of the batch file it belongs to -/
def tagged (bsl : List (List (List Nat))) : List (List Nat × Nat) :=
  ((List.range bsl.length).zip bsl |>.map fun (j, b) => b.map fun x => (x, j + 1)).flatten

theorem tagged_fst (bsl : List (List (List Nat))) : (tagged bsl).map Prod.fst = bsl.flatten := by
  unfold tagged
  rw [List.map_flatten, List.map_map]
  congr 1
  -- each zipped batch maps back to the batch itself
  have : ∀ (l : List (List (List Nat))) (off : Nat),
      ((List.range' off l.length).zip l).map ((List.map Prod.fst) ∘ fun (p : Nat × List (List Nat)) => p.2.map fun x => (x, p.1 + 1)) = l := by
    intro l
    induction l with
    | nil => intro off; simp
    | cons b t ih =>
      intro off
      simp only [List.length_cons, List.range'_succ, List.zip_cons_cons, List.map_cons, Function.comp, List.map_map]
      rw [ih (off + 1)]
      simp [Function.comp_def]
  have h := this bsl 0
  rw [← List.range_eq_range'] at h
  exact h

theorem partialStream_eq_tagged (f : List Nat → β) (ph : β) (fin : Nat → Bool) (bsl : List (List (List Nat))) :
    partialStream f ph fin bsl = (tagged bsl).map fun p => if fin p.2 then f p.1 else ph := by
  unfold partialStream tagged
  rw [List.map_flatten, List.map_map]
  congr 1
  apply List.map_congr_left
  intro p _
  simp [Function.comp_def]

/-- **partial reap, position by position**: under the stored shuffle (any permutation), the linear result at the
enumeration index of the setting sown at stream position `k` is `f` of that setting if its batch is finished, and the
placeholder otherwise -/
theorem c09_partial_positions (P : Perms) (f : List Nat → β) (ph : β) (fin : Nat → Bool) (c : Batch.Cfg)
    (sw : Sweep) (seed : Nat) (hseed : seed ≠ 0) (hperm : P seed sw.locs.length ~ List.range sw.locs.length) :
    ∃ r, reorder P seed sw.locs.length (partialStream f ph fin (sownBatches P c sw seed)) = .ok r ∧
      r.length = sw.locs.length ∧
      ∀ k (hk : k < sw.locs.length), ∃ t, (tagged (sownBatches P c sw seed))[k]? = some t ∧
        t.1 = sw.locs.getD ((P seed sw.locs.length).getD k 0) [] ∧
        r[(P seed sw.locs.length).getD k 0]? = some (if fin t.2 then f t.1 else ph) := by
  have hcover := c04_batches_cover P c sw seed (Or.inr hperm)
  have hσlen : (P seed sw.locs.length).length = sw.locs.length := by rw [hperm.length_eq]; simp
  have hstream : sowStream P sw seed = applyPerm (P seed sw.locs.length) sw.locs [] := by
    simp [sowStream, seedStrategy, hseed, runLinear]
  have htag : (tagged (sownBatches P c sw seed)).map Prod.fst = applyPerm (P seed sw.locs.length) sw.locs [] := by
    rw [tagged_fst, hcover.1, hstream]
  have htlen : (tagged (sownBatches P c sw seed)).length = sw.locs.length := by
    have := congrArg List.length htag
    simpa [applyPerm, hσlen] using this
  have hvlen : (partialStream f ph fin (sownBatches P c sw seed)).length = sw.locs.length := by
    rw [partialStream_eq_tagged]; simpa using htlen
  obtain ⟨r, hr, hrlen, hpos⟩ := c09_unshuffle_positions P seed sw.locs.length _ hvlen hseed hperm
  refine ⟨r, hr, hrlen, ?_⟩
  intro k hk
  have hkt : k < (tagged (sownBatches P c sw seed)).length := by rw [htlen]; exact hk
  refine ⟨(tagged (sownBatches P c sw seed))[k], List.getElem?_eq_getElem hkt, ?_, ?_⟩
  · have := congrArg (fun l => l[k]?) htag
    simp only [List.getElem?_map, List.getElem?_eq_getElem hkt, Option.map_some] at this
    simp only [applyPerm, List.getElem?_map] at this
    have hkσ : k < (P seed sw.locs.length).length := by rw [hσlen]; exact hk
    simp only [List.getElem?_eq_getElem hkσ, Option.map_some, Option.some.injEq] at this
    rw [this]
    simp [List.getD_eq_getElem?_getD, List.getElem?_eq_getElem hkσ]
  · have h1 := hpos k hk
    have hkσ : k < (P seed sw.locs.length).length := by rw [hσlen]; exact hk
    have hgetD : (P seed sw.locs.length).getD k 0 = (P seed sw.locs.length)[k] := by
      simp [List.getD_eq_getElem?_getD, List.getElem?_eq_getElem hkσ]
    rw [hgetD, h1, partialStream_eq_tagged, List.getElem?_map, List.getElem?_eq_getElem hkt]
    rfl

end Crop

namespace Crop
open Core List
variable {β : Type}

/-- linear results read back as a function of the location (locations are pairwise distinct: `parse_combos` rejects
repeated values and the cases are distinct) -/
theorem linear_as_function (locs : List (List Nat)) (r : List β) (hnd : locs.Nodup) (hlen : r.length = locs.length)
    (d : β) : locs.map (fun p => r.getD (locs.idxOf p) d) = r := by
  apply List.ext_getElem
  · simp [hlen]
  · intro i h1 h2
    simp only [List.getElem_map]
    have hi : i < locs.length := by simpa using h1
    rw [hnd.idxOf_getElem i hi]
    simp [List.getD_eq_getElem?_getD, List.getElem?_eq_getElem h2]

/-- the nested tuple built from linear results `r` holds `r[i]` at the index path that picks location `locs[i]` -/
theorem nested_of_linear (sw : Sweep) (r : List β) (ph : β) (hnd : sw.locs.Nodup) (hlen : r.length = sw.locs.length)
    (i : Nat) (hi : i < sw.locs.length) (v : β) (hv : r[i]? = some v) (idx : List Nat)
    (hp : pick sw.coords idx = some sw.locs[i]) :
    (processNested sw r ph).get idx = some (.leaf v) := by
  have hfun := linear_as_function sw.locs r hnd hlen ph
  have hrw : processNested sw r ph = processNested sw (sw.locs.map fun p => r.getD (sw.locs.idxOf p) ph) ph := by
    rw [hfun]
  rw [hrw, processNested_get sw _ ph idx _ hp]
  have hmem : sw.locs[i] ∈ sw.locs := List.getElem_mem hi
  simp only [hmem, if_true]
  rw [hnd.idxOf_getElem i hi]
  simp [List.getD_eq_getElem?_getD, hv]

/-- **partial reap, slot by slot** (the property's own words): in the nested tuple returned by
`reap(allow_incomplete=True)`, the slot of the setting sown at stream position `k` — i.e. of location
`locs[σ[k]]` — holds `f` of that setting if its batch is finished and the placeholder otherwise; for every batching,
every shuffle permutation `σ`, every set `fin` of finished batches -/
theorem c09_partial_exact (P : Perms) (f : List Nat → β) (ph ph' : β) (fin : Nat → Bool) (c : Batch.Cfg)
    (sw : Sweep) (seed : Nat) (hseed : seed ≠ 0) (hperm : P seed sw.locs.length ~ List.range sw.locs.length)
    (hnd : sw.locs.Nodup) (k : Nat) (hk : k < sw.locs.length) (idx : List Nat)
    (hp : pick sw.coords idx = some (sw.locs.getD ((P seed sw.locs.length).getD k 0) [])) :
    ∃ r t, reorder P seed sw.locs.length (partialStream f ph fin (sownBatches P c sw seed)) = .ok r ∧
      (tagged (sownBatches P c sw seed))[k]? = some t ∧
      (processNested sw r ph').get idx = some (.leaf (if fin t.2 then f t.1 else ph)) := by
  obtain ⟨r, hr, hrlen, hpos⟩ := c09_partial_positions P f ph fin c sw seed hseed hperm
  obtain ⟨t, ht, hloc, hval⟩ := hpos k hk
  refine ⟨r, t, hr, ht, ?_⟩
  have hσlen : (P seed sw.locs.length).length = sw.locs.length := by rw [hperm.length_eq]; simp
  have hkσ : k < (P seed sw.locs.length).length := by rw [hσlen]; exact hk
  have hgetD : (P seed sw.locs.length).getD k 0 = (P seed sw.locs.length)[k] := by
    simp [List.getD_eq_getElem?_getD, List.getElem?_eq_getElem hkσ]
  have hi : (P seed sw.locs.length).getD k 0 < sw.locs.length := by
    rw [hgetD]
    have hmem := hperm.mem_iff.mp (List.getElem_mem hkσ)
    simpa using hmem
  have hp' : pick sw.coords idx = some sw.locs[(P seed sw.locs.length).getD k 0] := by
    have key : ∀ j (hj : j < sw.locs.length), sw.locs.getD j [] = sw.locs[j] := by
      intro j hj; simp [List.getD_eq_getElem?_getD, List.getElem?_eq_getElem hj]
    rw [hp, key _ hi]
  exact nested_of_linear sw r ph' hnd hrlen _ hi _ hval idx hp'

/-! Non-vacuity: 5 settings, batches of 2, seed-3 permutation, batches {1, 3} finished -/
example : tagged [[[4], [0]], [[3], [1]], [[2]]] = [([4], 1), ([0], 1), ([3], 2), ([1], 2), ([2], 3)] := by decide

end Crop
