import XyzProofs.Lemmas.Fmt
import XyzProofs.Lemmas.FmtTotal
/-!
# C20 — a number formatted with its error reads back as that number and that error

Exact arithmetic (`ℚ`): every `|x| ≥ 0`, every `err > 0`.  The exponent rule, the hide rule and the digit count
that the theorems unfold (`Gen.fmtExp`, `Gen.fmtHide`, `Gen.fmtDigits`) are regenerated from
`xyzpy/utils.py` on every run.  Floating point is *not* reasoned about here: the two float divisions
`x / 10**k`, `err / 10**k` enter as data (`axs`, `errs`) with the hypothesis `gapOk i k τ` (relative distance at
most `τ` from the exact quotients, `τ ≤ 1`; the harness checks it on every sample with `τ = 2⁻⁵¹`, resp. `2⁻⁴⁰`
where `10**k` is subnormal).

`sign i` is `-1` when the sign bit of `x` is set.  `shownX / shownErr / shownExp` are the value and error that get
formatted and the printed power of ten (`0` when hidden).
-/
namespace Fmt

def sign (i : Inp) : ℚ := if i.neg then -1 else 1

/-- rounding to an integer (what `f"{x:.0f}"` does): within one half -/
theorem c20_round_spec (q : ℚ) : |q - (roundHalfEven q : ℚ)| ≤ 1 / 2 := round_spec q

/-- `sci q p = some (m, e)` is a correct rounding to `p + 1` significant digits:
`10^p ≤ m < 10^(p+1)` and `|q − m·10^(e−p)| ≤ ½·10^(e−p)` -/
theorem c20_sci_spec (q : ℚ) (p : ℕ) (m e : ℤ) (h : sci q p = some (m, e)) :
    (10 : ℚ) ^ p ≤ m ∧ (m : ℚ) < (10 : ℚ) ^ (p + 1) ∧
    |q - m * (10 : ℚ) ^ (e - p)| ≤ (1 / 2) * (10 : ℚ) ^ (e - p) :=
  ⟨(sci_isSci h).lo, (sci_isSci h).hi, (sci_isSci h).err⟩

example : sci (249 / 25) 1 = some (10, 1) := by decide +kernel      -- 9.96 → 1.0e+01
example : sci (1 / 8) 1 = some (12, -1) := by decide +kernel         -- 0.125 → 1.2e-01 (tie to even)
example : sci (999 / 10) 6 = some (9990000, 1) := by decide +kernel  -- 99.9 → 9.990000e+01

/-- `fixed q d` (the digits of `f"{q:.{d}f}"`): `|q − fixed q d / 10^d| ≤ ½ / 10^d` -/
theorem c20_fixed_spec (q : ℚ) (d : ℕ) :
    |q - (fixed q d : ℚ) / (10 : ℚ) ^ d| ≤ (1 / 2) / (10 : ℚ) ^ d := by
  have hpos : (0 : ℚ) < (10 : ℚ) ^ d := by positivity
  have h := round_spec (q * ((10 ^ d : ℕ) : ℚ))
  rw [natPow_cast] at h
  unfold fixed
  rw [natPow_cast]
  have e : q - (roundHalfEven (q * (10 : ℚ) ^ d) : ℚ) / (10 : ℚ) ^ d
      = (q * (10 : ℚ) ^ d - (roundHalfEven (q * (10 : ℚ) ^ d) : ℚ)) / (10 : ℚ) ^ d := by
    field_simp
  rw [e, abs_div, abs_of_pos hpos]
  exact div_le_div_of_nonneg_right h hpos.le

example : fixed (999 / 10) 0 = 100 := by decide +kernel
example : fixed (1 / 8) 2 = 12 := by decide +kernel

/-- in every branch the two-digit error mantissa has exponent `E ≤ 1` -/
theorem c20_E_le_one (i : Inp) (k m E : ℤ) (τ : ℚ) (hτ : τ ≤ 1) (herr : 0 < i.err)
    (hk : kOf i = some k) (hs : sci (shownErr i k) 1 = some (m, E))
    (hgap : hide i k = false → gapOk i k τ = true) : E ≤ 1 := by
  obtain ⟨xe, m6, ee, _, hse, hkeq⟩ := kOf_some hk
  have h6 := sci_isSci hse
  have hlt := lt_of_isSci h6
  have hke : ee + 1 ≤ k := by
    rw [hkeq]; simp only [Gen.fmtExp, Gen.Default.fmtExp]; omega
  have herrk : i.err < (10 : ℚ) ^ k :=
    lt_of_lt_of_le hlt (zpow_le_zpow_right₀ (by norm_num) hke)
  apply E_le_one_of_lt (sci_isSci hs)
  by_cases hh : hide i k = true
  · have hk1 : k ≤ 1 := by
      simp only [hide, Gen.fmtHide, Gen.Default.fmtHide, Bool.or_eq_true, Bool.and_eq_true,
        decide_eq_true_eq] at hh
      omega
    have : (10 : ℚ) ^ k ≤ (10 : ℚ) ^ (1 : ℤ) := zpow_le_zpow_right₀ (by norm_num) hk1
    simp only [shownErr, hh, if_true]
    norm_num at this
    linarith
  · have hh' : hide i k = false := by simpa using hh
    have hg := hgap hh'
    simp only [gapOk, Bool.and_eq_true, decide_eq_true_eq] at hg
    obtain ⟨⟨⟨⟨_, _⟩, _⟩, h4⟩, _⟩ := hg
    rw [pow10_eq] at h4
    have hpos : (0 : ℚ) < (10 : ℚ) ^ k := by positivity
    have hq : i.err / (10 : ℚ) ^ k < 1 := by rw [div_lt_one hpos]; exact herrk
    have hq0 : 0 < i.err / (10 : ℚ) ^ k := div_pos herr hpos
    simp only [shownErr, hh', Bool.false_eq_true, if_false]
    nlinarith

/-- the denoted uncertainty is the shown error rounded to two significant figures (`m · 10^(E−1)`, with `(m, E)`
its `sci` rounding, see `c20_sci_spec`) times the shown power of ten -/
theorem c20_uncertainty (i : Inp) (o : Out) (k m E : ℤ) (τ : ℚ) (hτ : τ ≤ 1) (herr : 0 < i.err)
    (h : format i = some o) (hk : kOf i = some k) (hs : sci (shownErr i k) 1 = some (m, E))
    (hgap : hide i k = false → gapOk i k τ = true) :
    (denote o).2 = (m : ℚ) * (10 : ℚ) ^ (E - 1) * (10 : ℚ) ^ (shownExp i k) := by
  have hE := c20_E_le_one i k m E τ hτ herr hk hs hgap
  obtain ⟨k', m', E', hk', hs', ho⟩ := format_some h
  rw [hk] at hk'
  obtain rfl : k = k' := by simpa using hk'
  rw [hs] at hs'
  obtain ⟨rfl, rfl⟩ : m = m' ∧ E = E' := by simpa using hs'
  have hm : (10 : ℚ) ^ 1 ≤ (m : ℚ) := (sci_isSci hs).lo
  have hm0 : 0 ≤ m := by
    have : (0 : ℚ) ≤ (m : ℚ) := by norm_num at hm; linarith
    exact_mod_cast this
  have hmc : ((m.toNat : ℕ) : ℚ) = (m : ℚ) := by
    have : ((m.toNat : ℕ) : ℤ) = m := Int.toNat_of_nonneg hm0
    exact_mod_cast this
  have hd : -(((Gen.fmtDigits E).toNat : ℕ) : ℤ) = E - 1 := by rw [digits_eq hE]; ring
  subst ho
  simp only [denote, pow10_eq, hmc, hd, shownExp]
  by_cases hh : hide i k = true <;> simp [hh]

/-- the denoted value is the shown value rounded to the same last digit: it differs from `± shownX · 10^K` by at
most half a unit of the second digit of the error, `½ · 10^(E−1) · 10^K` -/
theorem c20_value (i : Inp) (o : Out) (k m E : ℤ) (τ : ℚ) (hτ : τ ≤ 1) (herr : 0 < i.err) (hax : 0 ≤ i.ax)
    (h : format i = some o) (hk : kOf i = some k) (hs : sci (shownErr i k) 1 = some (m, E))
    (hgap : hide i k = false → gapOk i k τ = true) :
    |(denote o).1 - sign i * shownX i k * (10 : ℚ) ^ (shownExp i k)|
      ≤ (1 / 2) * (10 : ℚ) ^ (E - 1) * (10 : ℚ) ^ (shownExp i k) := by
  have hE := c20_E_le_one i k m E τ hτ herr hk hs hgap
  obtain ⟨k', m', E', hk', hs', ho⟩ := format_some h
  rw [hk] at hk'
  obtain rfl : k = k' := by simpa using hk'
  rw [hs] at hs'
  obtain ⟨rfl, rfl⟩ : m = m' ∧ E = E' := by simpa using hs'
  -- the shown value is non-negative
  have hx0 : 0 ≤ shownX i k := by
    unfold shownX
    split
    · exact hax
    · rename_i hh
      have hg := hgap (by simpa using hh)
      simp only [gapOk, Bool.and_eq_true, decide_eq_true_eq] at hg
      exact hg.1.1.1.1
  set d := (Gen.fmtDigits E).toNat with hddef
  have hd : -((d : ℕ) : ℤ) = E - 1 := by rw [hddef, digits_eq hE]; ring
  have hfix0 : 0 ≤ fixed (shownX i k) d := by
    unfold fixed
    apply round_nonneg
    have : (0 : ℚ) ≤ ((10 ^ d : ℕ) : ℚ) := by positivity
    exact mul_nonneg hx0 this
  have hnc : (((fixed (shownX i k) d).toNat : ℕ) : ℚ) = (fixed (shownX i k) d : ℚ) := by
    have : (((fixed (shownX i k) d).toNat : ℕ) : ℤ) = fixed (shownX i k) d := Int.toNat_of_nonneg hfix0
    exact_mod_cast this
  have hfs := c20_fixed_spec (shownX i k) d
  have hu : (10 : ℚ) ^ (E - 1) = 1 / (10 : ℚ) ^ d := by
    rw [← hd, zpow_neg, zpow_natCast, one_div]
  have hKpos : (0 : ℚ) < (10 : ℚ) ^ (shownExp i k) := by positivity
  have hdpos : (0 : ℚ) < (10 : ℚ) ^ d := by positivity
  have hval : (denote o).1 = sign i * ((fixed (shownX i k) d : ℚ) / (10 : ℚ) ^ d) * (10 : ℚ) ^ (shownExp i k) := by
    subst ho
    simp only [denote, pow10_eq, hnc, sign, shownExp]
    rw [hd, hu]
    by_cases hh : hide i k = true <;> simp [hh] <;> ring_nf
  rw [hval, hu]
  have hs1 : |sign i| = 1 := by unfold sign; split <;> simp
  have e : sign i * ((fixed (shownX i k) d : ℚ) / (10 : ℚ) ^ d) * (10 : ℚ) ^ (shownExp i k)
        - sign i * shownX i k * (10 : ℚ) ^ (shownExp i k)
      = sign i * (((fixed (shownX i k) d : ℚ) / (10 : ℚ) ^ d - shownX i k) * (10 : ℚ) ^ (shownExp i k)) := by ring
  rw [e, abs_mul, hs1, one_mul, abs_mul, abs_of_pos hKpos, abs_sub_comm]
  have : (1 / 2 * (1 / (10 : ℚ) ^ d)) = (1 / 2) / (10 : ℚ) ^ d := by ring
  rw [this]
  exact mul_le_mul_of_nonneg_right hfs hKpos.le

/-- **read-back, in terms of the original `x` and `err`** (the float scaling enters through `τ` only): a
successfully formatted output denotes an uncertainty `U = m·10^(E−1)·10^K` with `10 ≤ m ≤ 99` that is the
two-significant-figure rounding of the shown error, within `½·unit + τ·err` of `err`, and a value within
`½·unit + τ·|x|` of `x`, where `unit = 10^(E−1)·10^K` is the weight of the last shown digit of both. -/
theorem c20_reads_back (i : Inp) (o : Out) (τ : ℚ) (hτ0 : 0 ≤ τ) (hτ : τ ≤ 1) (herr : 0 < i.err) (hax : 0 ≤ i.ax)
    (h : format i = some o) (hgap : ∀ k, kOf i = some k → hide i k = false → gapOk i k τ = true) :
    ∃ (m E K : ℤ), (10 : ℚ) ≤ m ∧ (m : ℚ) < 100 ∧ E ≤ 1 ∧
      (denote o).2 = (m : ℚ) * ((10 : ℚ) ^ (E - 1) * (10 : ℚ) ^ K) ∧
      |(denote o).2 - i.err| ≤ (1 / 2) * ((10 : ℚ) ^ (E - 1) * (10 : ℚ) ^ K) + τ * i.err ∧
      |(denote o).1 - sign i * i.ax| ≤ (1 / 2) * ((10 : ℚ) ^ (E - 1) * (10 : ℚ) ^ K) + τ * i.ax := by
  obtain ⟨k, m, E, hk, hs, _⟩ := format_some h
  have hg := hgap k hk
  have hE := c20_E_le_one i k m E τ hτ herr hk hs hg
  have hU := c20_uncertainty i o k m E τ hτ herr h hk hs hg
  have hV := c20_value i o k m E τ hτ herr hax h hk hs hg
  have hsci := sci_isSci hs
  have hlo : (10 : ℚ) ≤ m := by simpa using hsci.lo
  have hhi : (m : ℚ) < 100 := by
    have := hsci.hi
    norm_num at this
    exact this
  have herr1 := hsci.err
  have hcast : (E : ℤ) - ((1 : ℕ) : ℤ) = E - 1 := by simp
  rw [hcast] at herr1
  have hs1 : |sign i| = 1 := by unfold sign; split <;> simp
  refine ⟨m, E, shownExp i k, hlo, hhi, hE, by rw [hU]; ring, ?_, ?_⟩
  · rw [hU]
    by_cases hh : hide i k = true
    · simp only [shownErr, shownExp, hh, if_true, zpow_zero, mul_one] at herr1 ⊢
      rw [abs_sub_comm]
      have : 0 ≤ τ * i.err := mul_nonneg hτ0 herr.le
      linarith
    · have hh' : hide i k = false := by simpa using hh
      have hgk := hg hh'
      simp only [gapOk, Bool.and_eq_true, decide_eq_true_eq] at hgk
      obtain ⟨⟨⟨⟨_, _⟩, _⟩, h4⟩, h5⟩ := hgk
      rw [pow10_eq] at h4 h5
      have hpos : (0 : ℚ) < (10 : ℚ) ^ k := by positivity
      simp only [shownErr, shownExp, hh', Bool.false_eq_true, if_false] at herr1 ⊢
      -- |errs·10^k − err| ≤ τ·err
      have hscale : |i.errs * (10 : ℚ) ^ k - i.err| ≤ τ * i.err := by
        have hd : i.err / (10 : ℚ) ^ k * (10 : ℚ) ^ k = i.err := by field_simp
        have e : i.errs * (10 : ℚ) ^ k - i.err = (i.errs - i.err / (10 : ℚ) ^ k) * (10 : ℚ) ^ k := by
          rw [sub_mul, hd]
        have hb : |i.errs - i.err / (10 : ℚ) ^ k| ≤ τ * (i.err / (10 : ℚ) ^ k) := by
          rw [abs_le]; constructor <;> linarith
        rw [e, abs_mul, abs_of_pos hpos]
        calc |i.errs - i.err / (10 : ℚ) ^ k| * (10 : ℚ) ^ k
            ≤ τ * (i.err / (10 : ℚ) ^ k) * (10 : ℚ) ^ k := mul_le_mul_of_nonneg_right hb hpos.le
          _ = τ * i.err := by rw [mul_assoc, hd]
      have hround : |(m : ℚ) * (10 : ℚ) ^ (E - 1) * (10 : ℚ) ^ k - i.errs * (10 : ℚ) ^ k|
          ≤ (1 / 2) * ((10 : ℚ) ^ (E - 1) * (10 : ℚ) ^ k) := by
        have e : (m : ℚ) * (10 : ℚ) ^ (E - 1) * (10 : ℚ) ^ k - i.errs * (10 : ℚ) ^ k
            = ((m : ℚ) * (10 : ℚ) ^ (E - 1) - i.errs) * (10 : ℚ) ^ k := by ring
        rw [e, abs_mul, abs_of_pos hpos, abs_sub_comm]
        calc |i.errs - (m : ℚ) * (10 : ℚ) ^ (E - 1)| * (10 : ℚ) ^ k
            ≤ (1 / 2 * (10 : ℚ) ^ (E - 1)) * (10 : ℚ) ^ k := mul_le_mul_of_nonneg_right herr1 hpos.le
          _ = (1 / 2) * ((10 : ℚ) ^ (E - 1) * (10 : ℚ) ^ k) := by ring
      have tri := abs_sub_le ((m : ℚ) * (10 : ℚ) ^ (E - 1) * (10 : ℚ) ^ k) (i.errs * (10 : ℚ) ^ k) i.err
      linarith
  · by_cases hh : hide i k = true
    · simp only [shownX, shownExp, hh, if_true, zpow_zero, mul_one] at hV ⊢
      have : 0 ≤ τ * i.ax := mul_nonneg hτ0 hax
      linarith
    · have hh' : hide i k = false := by simpa using hh
      have hgk := hg hh'
      simp only [gapOk, Bool.and_eq_true, decide_eq_true_eq] at hgk
      obtain ⟨⟨⟨⟨_, h2⟩, h3⟩, _⟩, _⟩ := hgk
      rw [pow10_eq] at h2 h3
      have hpos : (0 : ℚ) < (10 : ℚ) ^ k := by positivity
      simp only [shownX, shownExp, hh', Bool.false_eq_true, if_false] at hV ⊢
      have hscale : |sign i * i.axs * (10 : ℚ) ^ k - sign i * i.ax| ≤ τ * i.ax := by
        have hd : i.ax / (10 : ℚ) ^ k * (10 : ℚ) ^ k = i.ax := by field_simp
        have e : sign i * i.axs * (10 : ℚ) ^ k - sign i * i.ax
            = sign i * ((i.axs - i.ax / (10 : ℚ) ^ k) * (10 : ℚ) ^ k) := by
          rw [sub_mul, hd]; ring
        have hb : |i.axs - i.ax / (10 : ℚ) ^ k| ≤ τ * (i.ax / (10 : ℚ) ^ k) := by
          rw [abs_le]; constructor <;> linarith
        rw [e, abs_mul, hs1, one_mul, abs_mul, abs_of_pos hpos]
        calc |i.axs - i.ax / (10 : ℚ) ^ k| * (10 : ℚ) ^ k
            ≤ τ * (i.ax / (10 : ℚ) ^ k) * (10 : ℚ) ^ k := mul_le_mul_of_nonneg_right hb hpos.le
          _ = τ * i.ax := by rw [mul_assoc, hd]
      have tri := abs_sub_le (denote o).1 (sign i * i.axs * (10 : ℚ) ^ k) (sign i * i.ax)
      have hV' : |(denote o).1 - sign i * i.axs * (10 : ℚ) ^ k|
          ≤ (1 / 2) * ((10 : ℚ) ^ (E - 1) * (10 : ℚ) ^ k) := by
        calc _ ≤ (1 / 2) * (10 : ℚ) ^ (E - 1) * (10 : ℚ) ^ k := hV
          _ = _ := by ring
      linarith

/-! ### totality: the theorems above speak about every input with a positive error -/

/-- `f"{q:.{p}e}"` is defined for every positive `q` (the model's self-check never fails): the digit-count estimate
of `⌊log10 q⌋` is exact after one correction -/
theorem c20_sci_total (q : ℚ) (hq : 0 < q) (p : ℕ) : ∃ m e, sci q p = some (m, e) := sci_total hq p

/-- the decimal exponent is the floor of the base-10 logarithm, up to the rounding carry -/
theorem c20_floorLog10 (q : ℚ) (hq : 0 < q) :
    (10 : ℚ) ^ (floorLog10 q) ≤ q ∧ q < (10 : ℚ) ^ (floorLog10 q + 1) := floorLog10_spec hq

/-- **the formatter is total**: for every value, every positive error and positive rescaled error the model produces
an output — so `c20_uncertainty`, `c20_value`, `c20_reads_back` apply to every such input, not just to those on which
the model happened to answer -/
theorem c20_format_total (i : Inp) (herr : 0 < i.err) (hax : 0 ≤ i.ax) (herrs : 0 < i.errs) :
    ∃ o, format i = some o := by
  obtain ⟨me, ee, hse⟩ := sci_total herr 6
  have hk : ∃ k, kOf i = some k := by
    unfold kOf expOf
    by_cases h0 : i.ax = 0
    · simp [h0, hse]
    · have hpos : 0 < i.ax := lt_of_le_of_ne hax (Ne.symm h0)
      obtain ⟨mx, ex, hsx⟩ := sci_total hpos 6
      simp [h0, hsx, hse]
  obtain ⟨k, hk⟩ := hk
  have hshown : 0 < shownErr i k := by unfold shownErr; split_ifs <;> assumption
  obtain ⟨m, E, hs⟩ := sci_total hshown 1
  unfold format
  simp [hk, hs]

/-! ### non-vacuity: the repaired D13 witness and the docstring examples -/

/-- `format_number_with_error(99.9, 9.96)`: hidden exponent, `E = 1`, no decimals: `100(10)` = 100 ± 10 -/
example : (format ⟨false, 999 / 10, 249 / 25, 999 / 100, 249 / 250, true⟩).map render = some "100(10)" := by
  decide +kernel
example : (format ⟨false, 999 / 10, 249 / 25, 999 / 100, 249 / 250, true⟩).map denote = some (100, 10) := by
  decide +kernel
/-- `format_number_with_error(0.1542412, 0.0626653)` = `0.154(63)` -/
example : (format ⟨false, 1542412 / 10000000, 626653 / 10000000, 1542412 / 1000000, 626653 / 1000000, false⟩).map
    render = some "0.154(63)" := by decide +kernel
/-- `format_number_with_error(-128124123097, 6424)` = `-1.281241231(64)e+11` -/
example : (format ⟨true, 128124123097, 6424, 128124123097 / 100000000000, 6424 / 100000000000, true⟩).map
    render = some "-1.281241231(64)e+11" := by decide +kernel

end Fmt
