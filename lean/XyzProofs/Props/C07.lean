import XyzProofs.Lemmas.Batch
/-!
# C07 — batches partition the work exactly and honour the requested size or count

Statements quantify over every list of settings `l` (any element type — the kwargs dicts), every
`batchsize ≥ 1`, every `num_batches ≥ 1`.  The arithmetic they unfold (`Gen.*`) is regenerated from
`xyzpy/gen/cropping.py` on every run.
-/
namespace Batch
open List

variable {α : Type}

/-- every setting is in exactly one batch, order preserved: concatenating the batch files gives back the stream -/
theorem c07_partition (c : Cfg) (l : List α) : (sow c l).flatten = l := by
  unfold sow finish
  have h := foldl_flat c l { cur := [], out := [] }
  simp at h
  split
  · rename_i he
    simp [List.isEmpty_iff] at he
    rw [he] at h; simpa using h
  · simpa using h

/-- no batch file is empty -/
theorem c07_nonempty (c : Cfg) (l : List α) : ∀ b ∈ sow c l, b ≠ [] := by
  unfold sow finish
  have h := foldl_nonempty c l ({ cur := [], out := [] } : St α) (by simp)
  split
  · exact h
  · rename_i hne
    intro b hb
    simp at hb
    rcases hb with hb | hb
    · exact h b hb
    · subst hb; simpa [List.isEmpty_iff] using hne

/-- shape of the Sower's output: `m` full batches of the prescribed sizes plus an optional shorter tail -/
theorem sow_shape (c : Cfg) (hb : 1 ≤ c.batchsize) (l : List α) :
    ∃ (out : List (List α)) (cur : List α),
      sow c l = (if cur.isEmpty then out else out ++ [cur]) ∧
      (∀ j (h : j < out.length), (out[j]).length = sizeOf c j) ∧
      cur.length < sizeOf c out.length ∧
      l.length = sumSizes c out.length + cur.length := by
  have hi : Inv c (l.foldl (step c) ({ cur := [], out := [] } : St α)) :=
    foldl_inv c hb l _ (init_inv c hb)
  have hf := foldl_flat c l ({ cur := [], out := [] } : St α)
  refine ⟨_, _, rfl, hi.1, hi.2, ?_⟩
  have := congrArg List.length hf
  simp only [List.length_append, List.flatten_nil, List.length_nil, Nat.zero_add] at this
  rw [length_flatten_of_sizes c _ hi.1] at this
  omega

/-- closed form of the sum of the first `m` prescribed sizes -/
theorem sumSizes_eq (c : Cfg) (m : Nat) : sumSizes c m = m * c.batchsize + min m c.remainder := by
  unfold sumSizes
  induction m with
  | zero => simp [sumG]
  | succ k ih =>
    rw [sumG, ih, Nat.succ_mul]
    simp only [sizeOf, Gen.sowerGetsExtra, Gen.Default.sowerGetsExtra, decide_eq_true_eq]
    split <;> omega

/-- **batchsize mode**: `B = ⌈n/s⌉` files, every batch has at most `s` settings and all but the last exactly `s`. -/
theorem c07_batchsize (n s : Nat) (c : Cfg) (l : List α)
    (h : chooseBatch n (some s) none none = .ok c) (hl : l.length = n) (hs : 1 ≤ s) :
    c.batchsize = s ∧ c.remainder = 0 ∧
    (sow c l).length = (n + s - 1) / s ∧ (sow c l).length = c.numBatches ∧
    (∀ b ∈ sow c l, b.length ≤ s) ∧
    (∀ j (hj : j + 1 < (sow c l).length), ((sow c l)[j]).length = s) := by
  simp only [chooseBatch, Option.getD_some] at h
  have hs' : ¬ s < 1 := by omega
  simp only [hs', if_false, Except.ok.injEq] at h
  have hnb : (Gen.nbFromBs (n : Int) (s : Int)).toNat = (n + s - 1) / s := by
    simp only [Gen.nbFromBs, Gen.Default.nbFromBs]
    have : ((n : Int) + (s : Int) - 1) = ((n + s - 1 : Nat) : Int) := by omega
    rw [this, ← Int.natCast_ediv, Int.toNat_natCast]
  subst h
  obtain ⟨out, cur, hsow, hsz, hcur, hlen⟩ := sow_shape ⟨s, _, 0⟩ (by simpa using hs) l
  have hsize : ∀ j, sizeOf ⟨s, (Gen.nbFromBs (n : Int) (s : Int)).toNat, 0⟩ j = s := by
    intro j; simp [sizeOf, Gen.sowerGetsExtra, Gen.Default.sowerGetsExtra]
  rw [sumSizes_eq] at hlen
  simp only [Nat.min_zero, Nat.add_zero] at hlen
  rw [hsize] at hcur
  have hcount : (sow ⟨s, (Gen.nbFromBs (n : Int) (s : Int)).toNat, 0⟩ l).length = (n + s - 1) / s := by
    rw [hsow]
    by_cases hc : cur = []
    · subst hc
      simp only [List.isEmpty_nil, if_true]
      simp only [List.length_nil, Nat.add_zero] at hlen
      symm
      apply Nat.div_eq_of_lt_le
      · rw [hl] at hlen; rw [← hlen]; omega
      · rw [hl] at hlen; rw [Nat.succ_mul, ← hlen]; omega
    · have hpos : 0 < cur.length := List.length_pos_iff.mpr hc
      have : cur.isEmpty = false := by simp [hc]
      simp only [this, Bool.false_eq_true, if_false, List.length_append, List.length_cons, List.length_nil]
      symm
      apply Nat.div_eq_of_lt_le
      · rw [hl] at hlen; rw [Nat.succ_mul, hlen]; omega
      · rw [hl] at hlen; rw [Nat.succ_mul, Nat.succ_mul, hlen]; omega
  refine ⟨rfl, rfl, hcount, ?_, ?_, ?_⟩
  · rw [hcount, hnb]
  · intro b hb
    rw [hsow] at hb
    have hout : ∀ b ∈ out, b.length ≤ s := by
      intro b hb
      obtain ⟨j, hj, rfl⟩ := List.getElem_of_mem hb
      rw [hsz j hj, hsize]; exact Nat.le_refl _
    split at hb
    · exact hout b hb
    · simp at hb
      rcases hb with hb | hb
      · exact hout b hb
      · subst hb; omega
  · intro j hj
    have hj' : j < out.length := by
      have : (sow ⟨s, (Gen.nbFromBs (n : Int) (s : Int)).toNat, 0⟩ l).length ≤ out.length + 1 := by
        rw [hsow]; split <;> simp
      omega
    have : (sow ⟨s, (Gen.nbFromBs (n : Int) (s : Int)).toNat, 0⟩ l)[j] = out[j] := by
      simp only [hsow]
      split
      · rfl
      · simp [List.getElem_append_left hj']
    rw [this, hsz j hj', hsize]

/-- **num_batches mode**: `B = min k n` files, file `j` (0-based) has `n / B` settings plus one if `j < n mod B`
(so sizes differ by at most one and the first `n mod B` batches are the larger ones). -/
theorem c07_num_batches (n k : Nat) (c : Cfg) (l : List α)
    (h : chooseBatch n none (some k) none = .ok c) (hl : l.length = n) (hn : 1 ≤ n) (hk : 1 ≤ k) :
    c.numBatches = min k n ∧ c.batchsize = n / min k n ∧ c.remainder = n % min k n ∧
    (sow c l).length = min k n ∧
    (∀ j (hj : j < (sow c l).length),
        ((sow c l)[j]).length = n / min k n + (if j < n % min k n then 1 else 0)) := by
  simp only [chooseBatch] at h
  have hcap : (Gen.capNb (n : Int) (k : Int)).toNat = min k n := by
    simp only [Gen.capNb, Gen.Default.capNb]; omega
  rw [hcap] at h
  have hB : ¬ min k n < 1 := by omega
  simp only [hB, if_false, Except.ok.injEq] at h
  have hbs : (Gen.bsOfNb (n : Int) ((min k n : Nat) : Int)).toNat = n / min k n := by
    simp only [Gen.bsOfNb, Gen.Default.bsOfNb]
    rw [← Int.natCast_ediv, Int.toNat_natCast]
  have hrem : (Gen.remOfNb (n : Int) ((min k n : Nat) : Int)).toNat = n % min k n := by
    simp only [Gen.remOfNb, Gen.Default.remOfNb]
    rw [← Int.natCast_emod, Int.toNat_natCast]
  rw [hbs, hrem] at h
  subst h
  generalize hBdef : min k n = B at *
  have hB1 : 1 ≤ B := by omega
  have hBn : B ≤ n := by omega
  have hdm := Nat.div_add_mod n B
  have hrlt : n % B < B := Nat.mod_lt _ (by omega)
  have hq1 : 1 ≤ n / B := (Nat.one_le_div_iff (by omega)).mpr hBn
  obtain ⟨out, cur, hsow, hsz, hcur, hlen⟩ := sow_shape ⟨n / B, B, n % B⟩ hq1 l
  rw [sumSizes_eq] at hlen
  simp only [sizeOf, Gen.sowerGetsExtra, Gen.Default.sowerGetsExtra, decide_eq_true_eq] at hcur hsz
  simp only at hlen hcur
  rw [hl] at hlen
  -- the number of complete batches is exactly B and nothing is left over
  have hm : out.length = B := by
    rcases Nat.lt_trichotomy out.length B with hlt | heq | hgt
    · exfalso
      have h1 : (out.length + 1) * (n / B) ≤ B * (n / B) := Nat.mul_le_mul_right _ hlt
      rw [Nat.succ_mul] at h1
      split at hcur <;> omega
    · exact heq
    · exfalso
      have h1 : (B + 1) * (n / B) ≤ out.length * (n / B) := Nat.mul_le_mul_right _ hgt
      rw [Nat.succ_mul] at h1
      omega
  have hcur0 : cur = [] := by
    apply List.eq_nil_of_length_eq_zero
    rw [hm] at hlen
    omega
  subst hcur0
  simp only [List.isEmpty_nil, if_true] at hsow
  refine ⟨rfl, rfl, rfl, by rw [hsow, hm], ?_⟩
  intro j hj
  have hj' : j < out.length := by simpa [hsow] using hj
  have : (sow ⟨n / B, B, n % B⟩ l)[j] = out[j] := by simp only [hsow]
  rw [this, hsz j hj']
  simp only [Int.ofNat_lt]

/-- the batch count the crop reports (and stores in its info file) is the number of batch files written,
    in both modes -/
theorem c07_reported_count (n : Nat) (bs? nb? : Option Nat) (c : Cfg) (l : List α)
    (hboth : bs? = none ∨ nb? = none)
    (h : chooseBatch n bs? nb? none = .ok c) (hl : l.length = n) (hn : 1 ≤ n)
    (hnb : ∀ k, nb? = some k → 1 ≤ k) :
    (sow c l).length = c.numBatches := by
  cases nb? with
  | none =>
    cases bs? with
    | none =>
      have h' : chooseBatch n (some 1) none none = .ok c := by simpa [chooseBatch] using h
      exact (c07_batchsize n 1 c l h' hl (Nat.le_refl _)).2.2.2.1
    | some s =>
      by_cases hs : 1 ≤ s
      · exact (c07_batchsize n s c l h hl hs).2.2.2.1
      · have hs1 : s < 1 := by omega
        simp [chooseBatch, hs1] at h
  | some k =>
    cases bs? with
    | none =>
      have := c07_num_batches n k c l h hl hn (hnb k rfl)
      rw [this.2.2.2.1, this.1]
    | some s => simp at hboth

/-- **re-sow** (batch size, batch count and remainder remembered from an earlier sow): whenever
`choose_batch_settings` accepts the new number of settings, the Sower again writes exactly `num_batches` files — every
batch file of the earlier sow is overwritten, none is left over, and the reported count stays true. -/
theorem c07_resow_count (n bs nb rem : Nat) (c : Cfg) (l : List α)
    (h : chooseBatch n (some bs) (some nb) (some rem) = .ok c) (hl : l.length = n) (hbs : 1 ≤ bs)
    (hrem : rem ≤ nb) :
    c = ⟨bs, nb, rem⟩ ∧ (sow c l).length = nb := by
  simp only [chooseBatch, Option.getD_some] at h
  cases hok : Gen.bothOk (n : Int) (bs : Int) ((bs : Int) * (nb : Int) + ((rem : Nat) : Int)) with
  | false => simp [hok] at h
  | true =>
    simp only [hok, if_true, Except.ok.injEq] at h
    simp only [Gen.bothOk, Gen.Default.bothOk, Bool.and_eq_true, decide_eq_true_eq] at hok
    subst h
    refine ⟨rfl, ?_⟩
    obtain ⟨hle, hlt⟩ := hok
    have hle' : n ≤ bs * nb + rem := by exact_mod_cast hle
    have hlt' : bs * nb + rem < n + bs := by exact_mod_cast hlt
    obtain ⟨out, cur, hsow, hsz, hcur, hlen⟩ := sow_shape ⟨bs, nb, rem⟩ hbs l
    rw [sumSizes_eq] at hlen
    simp only [sizeOf, Gen.sowerGetsExtra, Gen.Default.sowerGetsExtra, decide_eq_true_eq, Int.ofNat_lt] at hcur
    simp only at hlen hcur
    rw [hl] at hlen
    rw [hsow]
    clear hsz hsow
    generalize hm : out.length = m at *
    by_cases hc : cur = []
    · subst hc
      simp only [List.isEmpty_nil, if_true, List.length_nil, Nat.add_zero] at hlen ⊢
      rw [hm]
      rcases Nat.lt_trichotomy m nb with hlt2 | heq | hgt
      · exfalso
        have h1 : (m + 1) * bs ≤ nb * bs := Nat.mul_le_mul_right _ hlt2
        rw [Nat.succ_mul] at h1
        rw [Nat.mul_comm bs nb] at hle' hlt'
        omega
      · exact heq
      · exfalso
        have h1 : (nb + 1) * bs ≤ m * bs := Nat.mul_le_mul_right _ hgt
        rw [Nat.succ_mul] at h1
        rw [Nat.mul_comm bs nb] at hle' hlt'
        omega
    · have hpos : 0 < cur.length := List.length_pos_iff.mpr hc
      have : cur.isEmpty = false := by simp [hc]
      simp only [this, Bool.false_eq_true, if_false, List.length_append, List.length_cons, List.length_nil, hm]
      rcases Nat.lt_trichotomy (m + 1) nb with hlt2 | heq | hgt
      · exfalso
        have h1 : (m + 2) * bs ≤ nb * bs := Nat.mul_le_mul_right _ hlt2
        rw [Nat.succ_mul, Nat.succ_mul] at h1
        rw [Nat.mul_comm bs nb] at hle' hlt'
        split at hcur <;> omega
      · omega
      · exfalso
        have h1 : nb * bs ≤ m * bs := Nat.mul_le_mul_right _ (by omega)
        rw [Nat.mul_comm bs nb] at hle' hlt'
        omega

/-! Non-vacuity: concrete instances meeting the hypotheses. -/
example : chooseBatch 7 none (some 3) none = .ok ⟨2, 3, 1⟩ := by decide
example : sow ⟨2, 3, 1⟩ [0, 1, 2, 3, 4, 5, 6] = [[0, 1, 2], [3, 4], [5, 6]] := by decide
example : chooseBatch 7 (some 3) none none = .ok ⟨3, 3, 0⟩ := by decide
example : sow ⟨3, 3, 0⟩ [0, 1, 2, 3, 4, 5, 6] = [[0, 1, 2], [3, 4, 5], [6]] := by decide
example : chooseBatch 6 (some 2) (some 3) (some 1) = .ok ⟨2, 3, 1⟩ := by decide
example : sow ⟨2, 3, 1⟩ [0, 1, 2, 3, 4, 5] = [[0, 1, 2], [3, 4], [5]] := by decide

end Batch
