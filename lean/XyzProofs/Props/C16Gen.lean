import XyzProofs.Props.C16
import XyzProofs.Refine.Script
/-!
# C16 — statements directly on the translated body of `gen_cluster_script`

`genOpts` = `Gen.gcsOpts` (option handling up to `opts = {…}`), `genTail` = `Gen.gcsTail` (from there to the `format`
call), both regenerated from the source on every run.
-/
namespace Scr
open Gen

theorem bind_eq_ok {α β : Type} {X : Except PyErr α} {f : α → Except PyErr β} {b : β} (h : Py.bind X f = .ok b) :
    ∃ a, X = .ok a ∧ f a = .ok b := by
  cases X with
  | error e => simp [Py.bind] at h
  | ok a => exact ⟨a, rfl, h⟩

theorem lookup_of_key {o : Opts} {n : Str} (h : n ∈ o.map (·.1)) : ∃ v, lookup o n = some v := by
  induction o with
  | nil => simp at h
  | cons p r ih =>
    obtain ⟨a, b⟩ := p
    simp only [lookup]
    split
    · exact ⟨b, rfl⟩
    · rename_i hne
      simp only [List.map_cons, List.mem_cons] at h
      rcases h with h | h
      · exact absurd h.symm hne
      · exact ih h

/-- **the field assignment of the translated option handling**: whenever it returns, the mapping binds exactly the
nineteen base fields, in the order of the source's dict literal -/
theorem c16_gen_fields (sched : Sched) (mode : Mode) (r : Raw) (base : Opts)
    (h : genOpts sched.name mode.name r = .ok base) : base.map (·.1) = baseFields := by
  rw [gcsOpts_refines] at h
  simp only [resolve] at h
  obtain ⟨_, _, h⟩ := bind_eq_ok h
  obtain ⟨_, _, h⟩ := bind_eq_ok h
  obtain ⟨_, _, h⟩ := bind_eq_ok h
  obtain ⟨_, _, h⟩ := bind_eq_ok h
  obtain ⟨_, _, h⟩ := bind_eq_ok h
  cases h
  rfl

/-- **closed**: the template the translated assembly returns is the one of the configuration, and the option mapping
it returns — the argument of `format` — binds every field of that mode, in particular every `{field}` of the template;
so `format` cannot raise a KeyError. -/
theorem c16_gen_closed (sched : Sched) (mode : Mode) (explicit : Option (List Nat)) (B : Nat) (done : List Nat) (r : Raw)
    (base : Opts) (tpl : Str) (o : Opts)
    (h1 : genOpts sched.name mode.name r = .ok base)
    (h2 : genTail sched.name mode.name explicit B done base = .ok (tpl, o)) :
    tpl = assemble sched mode (chooseIds explicit B done).amode ∧
    (∀ n ∈ supplied mode, ∃ v, lookup o n = some v) ∧
    (∀ n sp, Seg.fld n sp ∈ parseTpl tpl → ∃ v, lookup o n = some v) := by
  obtain ⟨o', he, hl⟩ := gcsTail_refines sched mode explicit B done base
  rw [h2] at he
  injection he with he
  injection he with ht ho
  subst ho
  have hkeys := c16_gen_fields sched mode r base h1
  have hsup : ∀ n ∈ supplied mode, ∃ v, lookup o n = some v := by
    intro n hn
    rw [hl n]
    apply lookup_of_key
    cases mode <;> simpa [mkScript, supplied, hkeys] using hn
  have htpl : tpl = assemble sched mode (chooseIds explicit B done).amode := by rw [ht]; rfl
  refine ⟨htpl, hsup, ?_⟩
  intro n sp hm
  rw [htpl] at hm
  exact hsup n ((c16_fields_closed sched mode _).2 n sp hm).1

example : ∃ base tpl o, genOpts (chars! "sge") (chars! "array") { condaEnv := .bool false } = .ok base ∧
    genTail (chars! "sge") (chars! "array") (some [2]) 3 [] base = .ok (tpl, o) ∧
    lookup o (chars! "run_stop") = some (.int 1) := ⟨_, _, _, rfl, rfl, by decide +kernel⟩

end Scr
