import XyzProofs.Lemmas.GrowSk
import XyzProofs.Props.C08
/-!
# C08 on the translated control flow of `grow`
-/
set_option linter.unusedSimpArgs false
namespace GrowSk
open Gen

/-- the MPI rank `grow` works out from its environment -/
def rankOf (checkMpi ompiSet : Bool) (ompiRank : Int) (pmiSet : Bool) (pmiRank : Int) : Int :=
  if checkMpi && ompiSet then ompiRank else if checkMpi && pmiSet then pmiRank else 0

def plan1 (fnIsNone : Bool) : List GEff := (if fnIsNone then [GEff.readFn] else []) ++ [GEff.readBatch]

/-- the same two reads in the other order -/
def plan1' (fnIsNone : Bool) : List GEff := [GEff.readBatch] ++ (if fnIsNone then [GEff.readFn] else [])

/-- the reads a grow starts with: the function file (when needed) and the batch file, in either order -/
def Plan1 (fnIsNone : Bool) (p : List GEff) : Prop := p = plan1 fnIsNone ∨ p = plan1' fnIsNone

def evals (n : Nat) : Option Int → List GEff
  | none => (List.range n).map GEff.eval
  | some _ => GEff.executor :: ((List.range n).map GEff.submit ++ (List.range n).map GEff.collect)

def plan2 (n : Nat) (nw : Option Int) (rank : Int) : List GEff :=
  evals n nw ++ (if rank = 0 then [GEff.writeResult] else [])

def growSpec (fails : GEff → Bool) (cropIsNone cwdNotCrop : Bool) (p1 : List GEff) (n : Nat) (nw : Option Int) (rank : Int)
    (t0 : List GEff) : Out GEff :=
  if cropIsNone && cwdNotCrop then (t0, some .xyzError) else
  skBindG (runPlan fails p1 t0) fun t =>
  if n = 0 then (t, some .valueError) else runPlan fails (plan2 n nw rank) t

theorem runPlan_ite_fun {ε : Type} (fails : ε → Bool) (c : Prop) [Decidable c] (p q : List ε) :
    runPlan fails (if c then p else q) = fun t => if c then runPlan fails p t else runPlan fails q t := by
  split <;> rfl

theorem skBindG_ite {ε : Type} (c : Prop) [Decidable c] (a b : Out ε) (k : List ε → Out ε) :
    skBindG (if c then a else b) k = if c then skBindG a k else skBindG b k := by
  split <;> rfl

theorem runPlan_append_fun {ε : Type} (fails : ε → Bool) (p q : List ε) :
    runPlan fails (p ++ q) = fun t => skBindG (runPlan fails p t) (runPlan fails q) := by
  funext t; exact runPlan_append fails p q t

theorem runPlan_single_fun {ε : Type} (fails : ε → Bool) (e : ε) :
    runPlan fails [e] = fun t => if fails e then (t ++ [e], some .other) else (t ++ [e], none) := by
  funext t; exact runPlan_single fails e t

theorem runPlan_nil_fun {ε : Type} (fails : ε → Bool) : runPlan fails [] = fun t => (t, none) := by
  funext t; rfl

/-- **the translated `grow` is this plan**: after the folder check, the two reads (in either order), the empty-batch
check, then every evaluation (or: the pool, every submission, every collection) and — on rank 0 — the write -/
theorem growSk_eq_spec (fails : GEff → Bool) (cropIsNone cwdNotCrop fnIsNone : Bool) (n : Nat) (nw : Option Int)
    (checkMpi ompiSet : Bool) (ompiRank : Int) (pmiSet : Bool) (pmiRank : Int) (t0 : List GEff) :
    ∃ p1, Plan1 fnIsNone p1 ∧
    Gen.growSk fails cropIsNone cwdNotCrop fnIsNone n nw checkMpi ompiSet ompiRank pmiSet pmiRank t0
      = growSpec fails cropIsNone cwdNotCrop p1 n nw (rankOf checkMpi ompiSet ompiRank pmiSet pmiRank) t0 := by
  first
  | (refine ⟨plan1 fnIsNone, Or.inl rfl, ?_⟩
     simp only [Gen.growSk, Gen.Default.growSk, growSpec, rankOf, plan1, plan1', plan2, evals, skLoop_eq]
     cases cropIsNone <;> cases cwdNotCrop <;> cases fnIsNone <;> cases nw <;>
       cases checkMpi <;> cases ompiSet <;> cases pmiSet <;>
       simp [runPlan, runPlan_append, runPlan_single, runPlan_ite_fun, skBindG_ite, runPlan_append_fun,
         runPlan_single_fun, runPlan_nil_fun]
     done)
  | (refine ⟨plan1' fnIsNone, Or.inr rfl, ?_⟩
     simp only [Gen.growSk, Gen.Default.growSk, growSpec, rankOf, plan1, plan1', plan2, evals, skLoop_eq]
     cases cropIsNone <;> cases cwdNotCrop <;> cases fnIsNone <;> cases nw <;>
       cases checkMpi <;> cases ompiSet <;> cases pmiSet <;>
       simp [runPlan, runPlan_append, runPlan_single, runPlan_ite_fun, skBindG_ite, runPlan_append_fun,
         runPlan_single_fun, runPlan_nil_fun]
     done)

theorem w_not_plan1 (fN : Bool) (p1 : List GEff) (h : Plan1 fN p1) : GEff.writeResult ∉ p1 := by
  rcases h with rfl | rfl <;> cases fN <;> simp [plan1, plan1']
theorem plan1_mem (fN : Bool) (p1 : List GEff) (h : Plan1 fN p1) (e : GEff) : e ∈ p1 ↔ e ∈ plan1 fN := by
  rcases h with rfl | rfl <;> cases fN <;> simp [plan1, plan1', or_comm]
theorem plan1_all (fails : GEff → Bool) (fN : Bool) (p1 : List GEff) (h : Plan1 fN p1) :
    (∀ e ∈ p1, fails e = false) ↔ (∀ e ∈ plan1 fN, fails e = false) :=
  ⟨fun hh e he => hh e ((plan1_mem fN p1 h e).mpr he), fun hh e he => hh e ((plan1_mem fN p1 h e).mp he)⟩
theorem w_not_evals (n : Nat) (nw : Option Int) : GEff.writeResult ∉ evals n nw := by cases nw <;> simp [evals]
theorem wo_not_plan1 (fN : Bool) (p1 : List GEff) (h : Plan1 fN p1) : GEff.writeOther ∉ p1 := by
  rcases h with rfl | rfl <;> cases fN <;> simp [plan1, plan1']
theorem wo_not_plan2 (n : Nat) (nw : Option Int) (rank : Int) : GEff.writeOther ∉ plan2 n nw rank := by
  cases nw <;> by_cases h : rank = 0 <;> simp [plan2, evals, h]

/-- the four ways a grow can go: not in a crop folder; a file could not be read; the batch is empty; the evaluations
(and the write) are attempted on top of the reads -/
theorem growSpec_shape (fails : GEff → Bool) (cN cw : Bool) (p1 : List GEff) (n : Nat) (nw : Option Int) (rank : Int) :
    ((cN && cw) = true ∧ growSpec fails cN cw p1 n nw rank [] = ([], some .xyzError)) ∨
    ((cN && cw) = false ∧ ¬ (∀ e ∈ p1, fails e = false) ∧
      growSpec fails cN cw p1 n nw rank [] = runPlan fails p1 [] ∧ (runPlan fails p1 []).2 ≠ none) ∨
    ((cN && cw) = false ∧ (∀ e ∈ p1, fails e = false) ∧ n = 0 ∧
      growSpec fails cN cw p1 n nw rank [] = (p1, some .valueError)) ∨
    ((cN && cw) = false ∧ (∀ e ∈ p1, fails e = false) ∧ n ≠ 0 ∧
      growSpec fails cN cw p1 n nw rank [] = runPlan fails (plan2 n nw rank) p1) := by
  unfold growSpec
  by_cases hc : (cN && cw) = true
  · left; exact ⟨hc, by simp [hc]⟩
  · right
    have hc' : (cN && cw) = false := by simpa using hc
    rw [if_neg hc]
    rcases runPlan_cases fails p1 [] with ⟨h1, h2⟩ | ⟨pre, e, suf, h1, h2, h3, h4⟩
    · right
      rw [h2, skBindG_ok]
      by_cases hn : n = 0
      · left; exact ⟨hc', h1, hn, by simp [hn]⟩
      · right; exact ⟨hc', h1, hn, by simp [hn]⟩
    · left
      refine ⟨hc', ?_, by rw [h4, skBindG_err], by rw [h4]; simp⟩
      intro hall
      have := hall e (by simp [h1])
      simp [h3] at this

section theorems
variable (fails : GEff → Bool) (cN cw fN : Bool) (n : Nat) (nw : Option Int)
  (cm os : Bool) (orank : Int) (ps : Bool) (prank : Int)

/-- **the result is written last**: if the write is attempted at all it is the last effect of the grow, it happens once,
and every effect before it (reads, every evaluation) went through -/
theorem c08_grow_write_last
    (h : GEff.writeResult ∈ (Gen.growSk fails cN cw fN n nw cm os orank ps prank []).1) :
    ∃ pre, (Gen.growSk fails cN cw fN n nw cm os orank ps prank []).1 = pre ++ [GEff.writeResult] ∧
      GEff.writeResult ∉ pre ∧ (∀ e ∈ pre, fails e = false) ∧ ∃ p1, Plan1 fN p1 ∧ pre = p1 ++ evals n nw := by
  obtain ⟨p1, hp1, heq⟩ := growSk_eq_spec fails cN cw fN n nw cm os orank ps prank []
  rw [heq] at h ⊢
  rcases growSpec_shape fails cN cw p1 n nw (rankOf cm os orank ps prank) with
    ⟨_, hG⟩ | ⟨_, _, hG, _⟩ | ⟨_, _, _, hG⟩ | ⟨_, h1, _, hG⟩
  · rw [hG] at h; simp at h
  · rw [hG] at h
    rcases runPlan_mem fails _ _ _ h with h | h
    · simp at h
    · exact absurd h (w_not_plan1 fN p1 hp1)
  · rw [hG] at h; exact absurd h (w_not_plan1 fN p1 hp1)
  · rw [hG] at h ⊢
    unfold plan2 at h ⊢
    by_cases hr : rankOf cm os orank ps prank = 0
    · simp only [hr, if_true] at h ⊢
      obtain ⟨l1, l2, _, _⟩ := runPlan_last fails (evals n nw) p1 GEff.writeResult (w_not_evals n nw) (w_not_plan1 fN p1 hp1)
      refine ⟨p1 ++ evals n nw, l2 h, ?_, ?_, p1, hp1, rfl⟩
      · simp only [List.mem_append, not_or]; exact ⟨w_not_plan1 fN p1 hp1, w_not_evals n nw⟩
      · intro e he
        rcases List.mem_append.mp he with he | he
        · exact h1 e he
        · exact (l1.mp h) e he
    · simp only [hr, if_false, List.append_nil] at h
      rcases runPlan_mem fails _ _ _ h with h | h
      · exact absurd h (w_not_plan1 fN p1 hp1)
      · exact absurd h (w_not_evals n nw)

/-- **when the write is attempted**: exactly when `grow` was started in / given a crop, the function file (if needed)
and the batch file were read, the batch is not empty, the pool (if any) was there, every case was submitted /
evaluated / collected without raising, and this process is rank 0 -/
theorem c08_grow_writes_iff :
    GEff.writeResult ∈ (Gen.growSk fails cN cw fN n nw cm os orank ps prank []).1 ↔
      ((cN && cw) = false ∧ (∀ e ∈ plan1 fN, fails e = false) ∧ n ≠ 0 ∧ (∀ e ∈ evals n nw, fails e = false) ∧
        rankOf cm os orank ps prank = 0) := by
  obtain ⟨p1, hp1, heq⟩ := growSk_eq_spec fails cN cw fN n nw cm os orank ps prank []
  rw [heq, ← plan1_all fails fN p1 hp1]
  rcases growSpec_shape fails cN cw p1 n nw (rankOf cm os orank ps prank) with
    ⟨hc, hG⟩ | ⟨_, hn, hG, _⟩ | ⟨_, _, hn, hG⟩ | ⟨hc, h1, hn, hG⟩
  · rw [hG]; simp [hc]
  · rw [hG]
    constructor
    · intro h
      rcases runPlan_mem fails _ _ _ h with h | h
      · simp at h
      · exact absurd h (w_not_plan1 fN p1 hp1)
    · intro h; exact absurd h.2.1 hn
  · rw [hG]
    constructor
    · intro h; exact absurd h (w_not_plan1 fN p1 hp1)
    · intro h; exact absurd hn h.2.2.1
  · rw [hG]
    unfold plan2
    by_cases hr : rankOf cm os orank ps prank = 0
    · simp only [hr, if_true]
      obtain ⟨l1, _, _, _⟩ := runPlan_last fails (evals n nw) p1 GEff.writeResult (w_not_evals n nw) (w_not_plan1 fN p1 hp1)
      rw [l1]
      exact ⟨fun h => ⟨hc, h1, hn, h, trivial⟩, fun h => h.2.2.2.1⟩
    · simp only [hr, if_false, List.append_nil]
      constructor
      · intro h
        rcases runPlan_mem fails _ _ _ h with h | h
        · exact absurd h (w_not_plan1 fN p1 hp1)
        · exact absurd h (w_not_evals n nw)
      · intro h; exact absurd h.2.2.2.2 (by simpa using hr)

/-- **a grow that raised wrote nothing** — unless the write itself is what raised (and `write_to_disk` publishes by
rename, C10: a failed write leaves no result file) -/
theorem c08_grow_error_no_write
    (h : (Gen.growSk fails cN cw fN n nw cm os orank ps prank []).2 ≠ none) :
    GEff.writeResult ∉ (Gen.growSk fails cN cw fN n nw cm os orank ps prank []).1 ∨ fails GEff.writeResult = true := by
  by_cases hw : GEff.writeResult ∈ (Gen.growSk fails cN cw fN n nw cm os orank ps prank []).1
  · right
    have hiff := (c08_grow_writes_iff fails cN cw fN n nw cm os orank ps prank).mp hw
    obtain ⟨p1, hp1, heq⟩ := growSk_eq_spec fails cN cw fN n nw cm os orank ps prank []
    rw [← plan1_all fails fN p1 hp1] at hiff
    rw [heq] at h hw
    rcases growSpec_shape fails cN cw p1 n nw (rankOf cm os orank ps prank) with
      ⟨hc, _⟩ | ⟨_, hn, _, _⟩ | ⟨_, _, hn, _⟩ | ⟨_, _, _, hG⟩
    · simp [hiff.1] at hc
    · exact absurd hiff.2.1 hn
    · exact absurd hn hiff.2.2.1
    · rw [hG] at h hw
      unfold plan2 at h hw
      simp only [hiff.2.2.2.2, if_true] at h hw
      exact (runPlan_last fails (evals n nw) p1 GEff.writeResult (w_not_evals n nw) (w_not_plan1 fN p1 hp1)).2.2.2 h hw
  · exact Or.inl hw

/-- **C08 on the translated `grow`: a batch counts as finished iff a grow of it completed successfully.**  For the
rank-0 process, `grow` returns normally exactly when the result file was written (attempted and not failed); so the
result file of batch `i` appears iff some `grow(i)` ran to completion -/
theorem c08_finished_iff_grow_completed (hr : rankOf cm os orank ps prank = 0) :
    (Gen.growSk fails cN cw fN n nw cm os orank ps prank []).2 = none ↔
      (GEff.writeResult ∈ (Gen.growSk fails cN cw fN n nw cm os orank ps prank []).1 ∧ fails GEff.writeResult = false) := by
  rw [c08_grow_writes_iff]
  obtain ⟨p1, hp1, heq⟩ := growSk_eq_spec fails cN cw fN n nw cm os orank ps prank []
  rw [heq, ← plan1_all fails fN p1 hp1]
  rcases growSpec_shape fails cN cw p1 n nw (rankOf cm os orank ps prank) with
    ⟨hc, hG⟩ | ⟨_, hn, hG, he⟩ | ⟨_, _, hn, hG⟩ | ⟨hc, h1, hn, hG⟩
  · rw [hG]; simp [hc]
  · rw [hG]
    exact ⟨fun h => absurd h he, fun h => absurd h.1.2.1 hn⟩
  · rw [hG]
    exact ⟨fun h => by simp at h, fun h => absurd hn h.1.2.2.1⟩
  · rw [hG]
    unfold plan2
    simp only [hr, if_true]
    rw [(runPlan_last fails (evals n nw) p1 GEff.writeResult (w_not_evals n nw) (w_not_plan1 fN p1 hp1)).2.2.1]
    exact ⟨fun h => ⟨⟨hc, h1, hn, h.1, trivial⟩, h.2⟩, fun h => ⟨h.1.2.2.2.1, h.2⟩⟩

/-- **exactly one write per successful grow**, never more than one, never to another file; a process that is not
rank 0 writes nothing -/
theorem c08_grow_one_write :
    (Gen.growSk fails cN cw fN n nw cm os orank ps prank []).1.count GEff.writeResult ≤ 1 ∧
    GEff.writeOther ∉ (Gen.growSk fails cN cw fN n nw cm os orank ps prank []).1 ∧
    ((Gen.growSk fails cN cw fN n nw cm os orank ps prank []).2 = none → rankOf cm os orank ps prank = 0 →
      (Gen.growSk fails cN cw fN n nw cm os orank ps prank []).1.count GEff.writeResult = 1) ∧
    (rankOf cm os orank ps prank ≠ 0 → GEff.writeResult ∉ (Gen.growSk fails cN cw fN n nw cm os orank ps prank []).1) := by
  have hcount : GEff.writeResult ∈ (Gen.growSk fails cN cw fN n nw cm os orank ps prank []).1 →
      (Gen.growSk fails cN cw fN n nw cm os orank ps prank []).1.count GEff.writeResult = 1 := by
    intro hw
    obtain ⟨pre, h1, h2, _, _⟩ := c08_grow_write_last fails cN cw fN n nw cm os orank ps prank hw
    rw [h1, List.count_append, List.count_eq_zero_of_not_mem h2]
    simp
  refine ⟨?_, ?_, ?_, ?_⟩
  · by_cases hw : GEff.writeResult ∈ (Gen.growSk fails cN cw fN n nw cm os orank ps prank []).1
    · rw [hcount hw]; exact Nat.le_refl 1
    · rw [List.count_eq_zero_of_not_mem hw]; exact Nat.zero_le 1
  · obtain ⟨p1, hp1, heq⟩ := growSk_eq_spec fails cN cw fN n nw cm os orank ps prank []
    rw [heq]
    rcases growSpec_shape fails cN cw p1 n nw (rankOf cm os orank ps prank) with
      ⟨_, hG⟩ | ⟨_, _, hG, _⟩ | ⟨_, _, _, hG⟩ | ⟨_, _, _, hG⟩
    · rw [hG]; simp
    · rw [hG]
      intro h
      rcases runPlan_mem fails _ _ _ h with h | h
      · simp at h
      · exact absurd h (wo_not_plan1 fN p1 hp1)
    · rw [hG]; exact wo_not_plan1 fN p1 hp1
    · rw [hG]
      intro h
      rcases runPlan_mem fails _ _ _ h with h | h
      · exact absurd h (wo_not_plan1 fN p1 hp1)
      · exact absurd h (wo_not_plan2 n nw _)
  · intro hok hr
    exact hcount ((c08_finished_iff_grow_completed fails cN cw fN n nw cm os orank ps prank hr).mp hok).1
  · intro hr hw
    exact hr ((c08_grow_writes_iff fails cN cw fN n nw cm os orank ps prank).mp hw).2.2.2.2

end theorems

/-! ### the hand-written `Crop.growOne` is this skeleton -/

/-- which effects of a sequential in-process grow of batch `i` raise, on the model's directory `d` when the swept
function raises on the settings `fl`: the batch file cannot be read iff it is not there; evaluation `k` raises iff
the function raises on the batch's `k`-th setting; reading a handed-in function and the write itself do not raise -/
def growFails {β : Type} (d : Crop.Dir β) (i : Nat) (fl : List Nat → Bool) : GEff → Bool
  | .readBatch => (Crop.lookup d.batches i).isNone
  | .eval k => match Crop.lookup d.batches i with
    | some b => (b[k]?.map fl).getD false
    | none => false
  | _ => false

theorem any_false_iff_getElem {α : Type} (b : List α) (fl : α → Bool) :
    b.any fl = false ↔ ∀ k, k < b.length → (b[k]?.map fl).getD false = false := by
  rw [List.any_eq_false]
  constructor
  · intro h k hk
    simp only [List.getElem?_eq_getElem hk, Option.map_some, Option.getD_some]
    simpa using h b[k] (List.getElem_mem hk)
  · intro h x hx
    obtain ⟨k, hk, rfl⟩ := List.mem_iff_getElem.mp hx
    have := h k hk
    simpa [List.getElem?_eq_getElem hk] using this

/-- **refinement**: the model's `growOne` succeeds (and then inserts the result of batch `i`, `c08_grow_inv`) exactly
when the translated `grow` — in-process, sequential, rank 0, with or without a handed-in function — returns normally,
which is exactly when it attempts the write of the result file -/
theorem growOne_refines {β : Type} (f : List Nat → β) (fl : List Nat → Bool) (d : Crop.Dir β) (i : Nat) (fN : Bool)
    (cm : Bool) :
    ((∃ d', Crop.growOne f fl d i = .ok d') ↔
      (Gen.growSk (growFails d i fl) false false fN ((Crop.lookup d.batches i).getD []).length none cm false 0 false 0 []).2 = none) ∧
    ((∃ d', Crop.growOne f fl d i = .ok d') ↔
      GEff.writeResult ∈ (Gen.growSk (growFails d i fl) false false fN ((Crop.lookup d.batches i).getD []).length none cm false 0 false 0 []).1) := by
  have hr : rankOf cm false 0 false 0 = 0 := by simp [rankOf]
  have hW : growFails d i fl GEff.writeResult = false := rfl
  rw [c08_finished_iff_grow_completed _ _ _ _ _ _ _ _ _ _ _ hr, c08_grow_writes_iff]
  simp only [hW, and_true, and_self, hr]
  cases hb : Crop.lookup d.batches i with
  | none =>
    have h1 : ¬ (∀ e ∈ plan1 fN, growFails d i fl e = false) := by
      intro h
      have := h GEff.readBatch (by simp [plan1])
      simp [growFails, hb] at this
    constructor
    · rintro ⟨d', h⟩; simp [Crop.growOne, hb] at h
    · intro h; exact absurd h.2.1 h1
  | some b =>
    have h1 : ∀ e ∈ plan1 fN, growFails d i fl e = false := by
      intro e he
      cases fN <;> simp [plan1] at he
      · subst he; simp [growFails, hb]
      · rcases he with rfl | rfl <;> simp [growFails, hb]
    have h2 : (∀ e ∈ evals b.length none, growFails d i fl e = false) ↔ b.any fl = false := by
      rw [any_false_iff_getElem]
      simp only [evals, List.mem_map, List.mem_range]
      constructor
      · intro h k hk
        simpa [growFails, hb] using h (GEff.eval k) ⟨k, hk, rfl⟩
      · rintro h e ⟨k, hk, rfl⟩
        simpa [growFails, hb] using h k hk
    simp only [Option.getD_some, h1, h2, Bool.and_false, true_and]
    unfold Crop.growOne
    simp only [hb]
    cases b with
    | nil => simp
    | cons a t =>
      cases hany : (a :: t).any fl <;> simp [hany]
      exact h1

/-! Non-vacuity: a sequential grow of three cases in which everything goes through; one in which case 1 raises; a
pool grow; a rank-1 MPI process -/
example : Gen.growSk (fun _ => false) false false false 3 none true false 0 false 0 [] =
    ([.readBatch, .eval 0, .eval 1, .eval 2, .writeResult], none) := by
  simp [Gen.growSk, Gen.Default.growSk, skLoop, skLoopB]
example : GEff.readFn ∈ (Gen.growSk (fun _ => false) false false true 1 none true false 0 false 0 []).1 ∧
    (Gen.growSk (fun e => e == .readFn) false false true 1 none true false 0 false 0 []).2 = some .other := by
  simp [Gen.growSk, Gen.Default.growSk, skLoop, skLoopB]
example : Gen.growSk (fun e => e == .eval 1) false false false 3 none true false 0 false 0 [] =
    ([.readBatch, .eval 0, .eval 1], some .other) := by
  simp [Gen.growSk, Gen.Default.growSk, skLoop, skLoopB]
example : Gen.growSk (fun _ => false) false false false 2 (some 4) true false 0 false 0 [] =
    ([.readBatch, .executor, .submit 0, .submit 1, .collect 0, .collect 1, .writeResult], none) := by
  simp [Gen.growSk, Gen.Default.growSk, skLoop, skLoopB]
example : Gen.growSk (fun _ => false) false false false 1 none true true 1 false 0 [] =
    ([.readBatch, .eval 0], none) := by
  simp [Gen.growSk, Gen.Default.growSk, skLoop, skLoopB]
example : Gen.growSk (fun _ => false) false false false 0 none true false 0 false 0 [] =
    ([.readBatch], some .valueError) := by
  simp [Gen.growSk, Gen.Default.growSk, skLoop, skLoopB]

end GrowSk
