import XyzProofs.Props.C04
import Batteries.Data.List.Perm
/-!
# C08 — reported progress always matches the batches that really finished

`fin` (the set of finished batches) is the key set of the result files.  The theorems say: a grow adds exactly its own
batch to that set and only on success, deleting removes it, the counts the crop reports are the sizes of the key sets,
`missing_results` lists exactly the ids without a result, and `is_ready_to_reap` holds exactly when nothing is missing.
-/
namespace Crop
open Core List

variable {γ β : Type}

def keys (l : List (Nat × γ)) : List Nat := l.map (·.1)

theorem mem_keys_iff (l : List (Nat × γ)) (k : Nat) : k ∈ keys l ↔ (lookup l k).isSome := by
  unfold keys lookup
  induction l with
  | nil => simp
  | cons x xs ih =>
    by_cases hx : x.1 = k
    · simp [hx]
    · have : (x.1 == k) = false := by simpa using hx
      simp only [List.map_cons, List.mem_cons, List.find?_cons, this]
      rw [← ih]
      constructor
      · rintro (h | h)
        · exact absurd h.symm hx
        · exact h
      · exact Or.inr

theorem keys_filter_ne (l : List (Nat × γ)) (k : Nat) : keys (l.filter (·.1 != k)) = (keys l).filter (· != k) := by
  unfold keys
  induction l with
  | nil => rfl
  | cons x xs ih =>
    by_cases hx : x.1 = k
    · simp [List.filter_cons, hx, ih]
    · have : (x.1 != k) = true := by simpa using hx
      simp [List.filter_cons, this, ih]

theorem keys_insert (l : List (Nat × γ)) (k : Nat) (v : γ) : keys (insert l k v) = (keys l).filter (· != k) ++ [k] := by
  unfold insert
  rw [show keys (l.filter (·.1 != k) ++ [(k, v)]) = keys (l.filter (·.1 != k)) ++ [k] by simp [keys]]
  rw [keys_filter_ne]

theorem keys_erase (l : List (Nat × γ)) (k : Nat) : keys (erase l k) = (keys l).filter (· != k) := keys_filter_ne l k

theorem nodup_keys_insert (l : List (Nat × γ)) (k : Nat) (v : γ) (h : (keys l).Nodup) : (keys (insert l k v)).Nodup := by
  rw [keys_insert]
  apply List.nodup_append.mpr
  refine ⟨h.filter _, by simp, ?_⟩
  intro a ha b hb
  simp at hb; subst hb
  have := (List.mem_filter.mp ha).2
  simpa using this

theorem nodup_keys_erase (l : List (Nat × γ)) (k : Nat) (h : (keys l).Nodup) : (keys (erase l k)).Nodup := by
  rw [keys_erase]; exact h.filter _

theorem mem_keys_insert (l : List (Nat × γ)) (k i : Nat) (v : γ) : i ∈ keys (insert l k v) ↔ i = k ∨ i ∈ keys l := by
  rw [keys_insert]
  simp only [List.mem_append, List.mem_filter, List.mem_singleton, bne_iff_ne]
  constructor
  · rintro (⟨h, _⟩ | h)
    · exact Or.inr h
    · exact Or.inl h
  · rintro (h | h)
    · exact Or.inr h
    · by_cases hik : i = k
      · exact Or.inr hik
      · exact Or.inl ⟨h, hik⟩

theorem mem_keys_erase (l : List (Nat × γ)) (k i : Nat) : i ∈ keys (erase l k) ↔ i ≠ k ∧ i ∈ keys l := by
  rw [keys_erase]; simp [List.mem_filter, and_comm]

theorem length_keys (l : List (Nat × γ)) : (keys l).length = l.length := by simp [keys]

/-- counting: a duplicate-free list of ids within `1..B` has length `B` exactly when it contains every id -/
theorem length_eq_iff_all (ks : List Nat) (B : Nat) (hnd : ks.Nodup) (hsub : ∀ i ∈ ks, 1 ≤ i ∧ i ≤ B) :
    ks.length = B ↔ ∀ i, 1 ≤ i → i ≤ B → i ∈ ks := by
  have hsub' : ks ⊆ List.range' 1 B := by
    intro i hi
    have := hsub i hi
    rw [List.mem_range'_1]; omega
  have hsp : ks <+~ List.range' 1 B := List.subperm_of_subset hnd hsub'
  constructor
  · intro hlen i h1 h2
    have hperm : ks ~ List.range' 1 B := hsp.perm_of_length_le (by simp [hlen])
    apply hperm.mem_iff.mpr
    rw [List.mem_range'_1]; omega
  · intro hall
    have h1 : ks.length ≤ B := by simpa using hsp.length_le
    have hsub2 : List.range' 1 B ⊆ ks := by
      intro i hi
      rw [List.mem_range'_1] at hi
      exact hall i (by omega) (by omega)
    have h2 : B ≤ ks.length := by
      simpa using (List.subperm_of_subset (List.nodup_range' (s := 1) (n := B)) hsub2).length_le
    omega

/-- well-formed crop directory with `B` batches: batch files are exactly `1..B`, result files are a duplicate-free
subset of them -/
structure WF (d : Dir β) (B : Nat) : Prop where
  bnodup : (keys d.batches).Nodup
  bmem : ∀ i, i ∈ keys d.batches ↔ 1 ≤ i ∧ i ≤ B
  rnodup : (keys d.results).Nodup
  rsub : ∀ i ∈ keys d.results, 1 ≤ i ∧ i ≤ B

theorem WF.batches_length {d : Dir β} {B : Nat} (h : WF d B) : d.batches.length = B := by
  rw [← length_keys]
  exact (length_eq_iff_all _ B h.bnodup (fun i hi => (h.bmem i).mp hi)).mpr (fun i h1 h2 => (h.bmem i).mpr ⟨h1, h2⟩)

/-- **invariant**: a successful grow keeps the directory well formed and adds exactly its own batch -/
theorem c08_grow_inv (f : List Nat → β) (fails : List Nat → Bool) (d d' : Dir β) (B i : Nat)
    (hwf : WF d B) (h : growOne f fails d i = .ok d') :
    WF d' B ∧ (∀ k, k ∈ keys d'.results ↔ k = i ∨ k ∈ keys d.results) := by
  obtain ⟨b, hb, _, _, _, _, hbat, _⟩ := c04_grow_correct f fails d d' i h
  have hres : d'.results = insert d.results i (.good (b.map f)) := by
    unfold growOne at h
    rw [hb] at h
    simp only at h
    split at h
    · cases h
    · split at h
      · cases h
      · cases h; rfl
  have hi : 1 ≤ i ∧ i ≤ B := (hwf.bmem i).mp ((mem_keys_iff _ _).mpr (by rw [hb]; rfl))
  refine ⟨⟨by rw [hbat]; exact hwf.bnodup, by rw [hbat]; exact hwf.bmem, ?_, ?_⟩, ?_⟩
  · rw [hres]; exact nodup_keys_insert _ _ _ hwf.rnodup
  · intro k hk
    rw [hres, mem_keys_insert] at hk
    rcases hk with rfl | hk
    · exact hi
    · exact hwf.rsub k hk
  · intro k; rw [hres, mem_keys_insert]

/-- **a failed grow records nothing**: if the function raises on some setting of the batch (or the batch cannot be
loaded) the directory is left exactly as it was, and growing stops there -/
theorem c08_failed_grow_unchanged (f : List Nat → β) (fails : List Nat → Bool) (d : Dir β) (i : Nat) (is : List Nat)
    (e : Err) (h : growOne f fails d i = .error e) :
    growMany f fails d (i :: is) = (d, some e) := by
  simp [growMany, h]

theorem c08_fn_raises (f : List Nat → β) (fails : List Nat → Bool) (d : Dir β) (i : Nat) (b : List (List Nat))
    (hb : lookup d.batches i = some b) (hne : b ≠ []) (hf : b.any fails = true) :
    growOne f fails d i = .error .fnRaised := by
  unfold growOne
  rw [hb]
  have : b.isEmpty = false := by cases b with
    | nil => exact absurd rfl hne
    | cons a t => rfl
  simp [this, hf]

/-- deleting a result file keeps the directory well formed and removes exactly that batch from the finished set -/
theorem c08_delete_inv (d : Dir β) (B i : Nat) (hwf : WF d B) :
    WF { d with results := erase d.results i } B ∧
    (∀ k, k ∈ keys (erase d.results i) ↔ k ≠ i ∧ k ∈ keys d.results) :=
  ⟨⟨hwf.bnodup, hwf.bmem, nodup_keys_erase _ _ hwf.rnodup,
    fun k hk => hwf.rsub k ((mem_keys_erase _ _ _).mp hk).2⟩, fun k => mem_keys_erase _ _ _⟩

/-- **reported counts**: `num_sown_batches` = number of batch files = `B`; `num_results` = size of the finished set -/
theorem c08_counts (s : St β) (d : Dir β) (B : Nat) (hd : s.dir = some d) (hinfo : d.info.isSome = true) (hwf : WF d B) :
    (calcProgress s).2.sown = B ∧ (calcProgress s).2.results = (keys d.results).length := by
  unfold calcProgress
  simp only [hd, hinfo, if_true]
  exact ⟨by rw [hwf.batches_length], by rw [length_keys]⟩

/-- **ready ⇔ nothing missing** -/
theorem c08_ready_iff (s : St β) (d : Dir β) (B : Nat) (hd : s.dir = some d) (hinfo : d.info.isSome = true)
    (hwf : WF d B) (hB : 1 ≤ B) :
    (isReady s).2 = true ↔ ∀ i, 1 ≤ i → i ≤ B → (lookup d.results i).isSome = true := by
  have hc := c08_counts s d B hd hinfo hwf
  unfold isReady
  simp only [Gen.isReady, Gen.Default.isReady, hc.1, hc.2, Bool.and_eq_true, decide_eq_true_eq]
  rw [show (∀ i, 1 ≤ i → i ≤ B → (lookup d.results i).isSome = true) ↔ (∀ i, 1 ≤ i → i ≤ B → i ∈ keys d.results) from
    ⟨fun h i h1 h2 => (mem_keys_iff _ _).mpr (h i h1 h2), fun h i h1 h2 => (mem_keys_iff _ _).mp (h i h1 h2)⟩]
  rw [← length_eq_iff_all _ B hwf.rnodup hwf.rsub]
  omega

/-- **missing list**: exactly the ids in `1..num_batches` that have no result file, in increasing order -/
theorem c08_missing_spec (s : St β) (nb : Nat) (ms : List Nat)
    (hnb : (calcProgress s).1.obj.nb = some nb) (h : (missingResults s).2 = .ok ms) :
    (∀ i, i ∈ ms ↔ 1 ≤ i ∧ i ≤ nb ∧ hasResult (calcProgress s).1 i = false) ∧ ms.Pairwise (· < ·) := by
  unfold missingResults at h
  generalize hcp : calcProgress s = cp at h hnb
  obtain ⟨s', p⟩ := cp
  simp only at h hnb
  simp only [hnb] at h
  cases h
  constructor
  · intro i
    simp only [List.mem_filter, List.mem_map, List.mem_range, Bool.not_eq_true']
    constructor
    · rintro ⟨⟨a, ha, rfl⟩, hr⟩; exact ⟨by omega, by omega, hr⟩
    · rintro ⟨h1, h2, hr⟩; exact ⟨⟨i - 1, by omega, by omega⟩, hr⟩
  · apply List.Pairwise.filter
    rw [List.pairwise_map]
    exact (List.pairwise_lt_range (n := nb)).imp (by intro a b h; omega)

/-- **growing what is missing makes the crop ready**: after a successful grow of every id in `1..B` that had no
result, every id has one -/
theorem c08_grow_missing (f : List Nat → β) (info : Info) (bsl : List (List (List Nat))) (d : Dir β)
    (hne : ∀ b ∈ bsl, b ≠ []) (hg : Good f d info bsl) (ms : List Nat)
    (hms : ∀ i, i ∈ ms ↔ 1 ≤ i ∧ i ≤ bsl.length ∧ (lookup d.results i).isSome = false) :
    ∀ i, 1 ≤ i → i ≤ bsl.length → (lookup (growMany f (fun _ => false) d ms).1.results i).isSome = true := by
  obtain ⟨_, g2, g3⟩ := growMany_good f info bsl hne ms d hg (fun i hi => ⟨((hms i).mp hi).1, ((hms i).mp hi).2.1⟩)
  intro i h1 h2
  by_cases hi : i ∈ ms
  · rw [g2 i hi (by omega)]; rfl
  · cases hr : lookup d.results i with
    | none => exact absurd ((hms i).mpr ⟨h1, h2, by simp [hr]⟩) hi
    | some r =>
      have := g3 i r hr (fun j hj hij => by subst hij; exact hg.hr j hj r hr)
      rw [this]; rfl

/-- **re-sowing keeps results**: sowing again never touches the result files -/
theorem c08_resow_keeps_results (P : Perms) (s s' : St β) (d : Dir β) (sw : Sweep) (combos : Bool) (sh : Option Nat)
    (bs nb : Option Nat) (hd : s.dir = some d) (h : opSow P s sw combos sh bs nb = .ok s') :
    ∃ d', s'.dir = some d' ∧ d'.results = d.results := by
  unfold opSow at h
  cases combos <;> simp only [Bool.false_eq_true, if_false, if_true] at h <;>
  · split at h
    · cases h
    · cases h
      exact ⟨_, rfl, by simp [hd]⟩

/-! ### `check_bad` -/

/-- a stored result is bad w.r.t. the batch file of the same id: unreadable, or of the wrong length -/
def badEntry (batches : List (Nat × List (List Nat))) (kv : Nat × ResFile β) : Bool :=
  match kv.2 with
  | .bad => true
  | .good rs =>
    match lookup batches kv.1 with
    | some b => rs.length != b.length
    | none => false

/-- the loop body of `checkBad`, spelled out so the fold lemma can name it -/
def checkBadStep (d : Dir β) (acc : Except Err (Dir β × List Nat)) (kv : Nat × ResFile β) :
    Except Err (Dir β × List Nat) :=
  match acc with
  | .error e => .error e
  | .ok (d', bad) =>
    match lookup d.batches kv.1 with
    | none => .error .missingFile
    | some b =>
      let isBad := match kv.2 with
        | .bad => true
        | .good rs => rs.length != b.length
      if isBad then .ok ({ d' with results := erase d'.results kv.1 }, bad ++ [kv.1]) else .ok (d', bad)

theorem checkBad_eq_fold (d : Dir β) : checkBad d = d.results.foldl (checkBadStep d) (.ok (d, [])) := rfl

theorem checkBad_fold (d : Dir β) (l R : List (Nat × ResFile β)) (bad0 : List Nat)
    (hl : ∀ kv ∈ l, (lookup d.batches kv.1).isSome = true) :
    l.foldl (checkBadStep d) (.ok ({ d with results := R }, bad0)) =
      .ok ({ d with results := R.filter (fun kv => !(keys (l.filter (badEntry d.batches))).contains kv.1) },
           bad0 ++ keys (l.filter (badEntry d.batches))) := by
  induction l generalizing R bad0 with
  | nil =>
    have : R.filter (fun _ => true) = R := List.filter_eq_self.mpr (fun _ _ => rfl)
    simp [keys, this]
  | cons kv l ih =>
    have hkv := hl kv (by simp)
    have hl' : ∀ kv ∈ l, (lookup d.batches kv.1).isSome = true := fun x hx => hl x (by simp [hx])
    obtain ⟨b, hb⟩ := Option.isSome_iff_exists.mp hkv
    rw [List.foldl_cons]
    by_cases hbad : badEntry d.batches kv = true
    · have hstep : checkBadStep d (.ok ({ d with results := R }, bad0)) kv =
          .ok ({ d with results := erase R kv.1 }, bad0 ++ [kv.1]) := by
        unfold badEntry at hbad
        unfold checkBadStep
        simp only [hb]
        cases hk : kv.2 with
        | bad => simp
        | good rs => simp only [hk, hb] at hbad; simp [hbad]
      have e1 : (erase R kv.1).filter (fun x => !(keys (l.filter (badEntry d.batches))).contains x.1) =
          R.filter (fun x => !(keys (kv :: l.filter (badEntry d.batches))).contains x.1) := by
        unfold erase
        rw [List.filter_filter]
        apply List.filter_congr
        intro x _
        simp only [keys, List.map_cons, List.contains_cons, Bool.not_or, bne]
        rw [Bool.and_comm]
      have e2 : bad0 ++ [kv.1] ++ keys (l.filter (badEntry d.batches)) =
          bad0 ++ keys (kv :: l.filter (badEntry d.batches)) := by simp [keys]
      rw [hstep, ih _ _ hl', List.filter_cons_of_pos hbad, e1, e2]
    · have hbad' : badEntry d.batches kv = false := by simpa using hbad
      have hstep : checkBadStep d (.ok ({ d with results := R }, bad0)) kv =
          .ok ({ d with results := R }, bad0) := by
        unfold badEntry at hbad'
        unfold checkBadStep
        simp only [hb]
        cases hk : kv.2 with
        | bad => simp [hk] at hbad'
        | good rs => simp only [hk, hb] at hbad'; simp [hbad']
      rw [hstep, ih _ _ hl', List.filter_cons_of_neg (by simpa using hbad')]

theorem eq_of_key_eq (R : List (Nat × γ)) (hnd : (keys R).Nodup) (a b : Nat × γ) (ha : a ∈ R) (hb : b ∈ R)
    (h : a.1 = b.1) : a = b := by
  induction R with
  | nil => cases ha
  | cons x xs ih =>
    simp only [keys, List.map_cons, List.nodup_cons, List.mem_map, not_exists, not_and] at hnd
    rcases List.mem_cons.mp ha with rfl | ha' <;> rcases List.mem_cons.mp hb with rfl | hb'
    · rfl
    · exact absurd h.symm (hnd.1 b hb')
    · exact absurd h (hnd.1 a ha')
    · exact ih hnd.2 ha' hb'

/-- **`check_bad(delete_bad=True)`**: on a well-formed directory it never fails, reports exactly the ids whose stored
result is unreadable or of the wrong length (in listing order), removes exactly those result files, leaves every batch
file and the crop information alone, and keeps the directory well formed — so afterwards every reported count again
matches the result files that are really there (`c08_counts`, `c08_missing_spec`, `c08_ready_iff` apply to `d'`) -/
theorem c08_check_bad (d : Dir β) (B : Nat) (hwf : WF d B) :
    ∃ d' bad, checkBad d = .ok (d', bad) ∧
      bad = keys (d.results.filter (badEntry d.batches)) ∧
      d'.results = d.results.filter (fun kv => !badEntry d.batches kv) ∧
      d'.batches = d.batches ∧ d'.info = d.info ∧ WF d' B := by
  have hl : ∀ kv ∈ d.results, (lookup d.batches kv.1).isSome = true := by
    intro kv hkv
    have hk : kv.1 ∈ keys d.results := List.mem_map.mpr ⟨kv, hkv, rfl⟩
    exact (mem_keys_iff _ _).mp ((hwf.bmem _).mpr (hwf.rsub _ hk))
  have hfold := checkBad_fold d d.results d.results [] hl
  have hres : d.results.filter (fun kv => !(keys (d.results.filter (badEntry d.batches))).contains kv.1) =
      d.results.filter (fun kv => !badEntry d.batches kv) := by
    apply List.filter_congr
    intro x hx
    congr 1
    by_cases hb : badEntry d.batches x = true
    · rw [hb]
      simp only [List.contains_iff_mem]
      exact List.mem_map.mpr ⟨x, List.mem_filter.mpr ⟨hx, hb⟩, rfl⟩
    · have hb' : badEntry d.batches x = false := by simpa using hb
      rw [hb']
      apply Bool.eq_false_iff.mpr
      intro hc
      rw [List.contains_iff_mem] at hc
      obtain ⟨y, hy, hyx⟩ := List.mem_map.mp hc
      have hy' := List.mem_filter.mp hy
      have := eq_of_key_eq d.results hwf.rnodup y x hy'.1 hx hyx
      subst this
      rw [hy'.2] at hb'
      cases hb'
  rw [hres] at hfold
  refine ⟨{ d with results := d.results.filter (fun kv => !badEntry d.batches kv) },
    keys (d.results.filter (badEntry d.batches)), ?_, rfl, rfl, rfl, rfl, ?_⟩
  · rw [checkBad_eq_fold]
    simpa using hfold
  refine ⟨hwf.bnodup, hwf.bmem, ?_, ?_⟩
  · show (keys (d.results.filter _)).Nodup
    exact hwf.rnodup.sublist ((List.filter_sublist).map _)
  · intro i hi
    obtain ⟨y, hy, rfl⟩ := List.mem_map.mp hi
    exact hwf.rsub _ (List.mem_map.mpr ⟨y, (List.mem_filter.mp hy).1, rfl⟩)

/-- nothing bad is left: after `check_bad` every stored result is readable and has its batch's length -/
theorem c08_check_bad_clean (d d' : Dir β) (bad : List Nat) (B : Nat) (hwf : WF d B) (h : checkBad d = .ok (d', bad)) :
    ∀ kv ∈ d'.results, badEntry d'.batches kv = false := by
  obtain ⟨d'', bad', h', _, hres, hb, _, _⟩ := c08_check_bad d B hwf
  rw [h] at h'
  cases h'
  intro kv hkv
  rw [hres] at hkv
  rw [hb]
  simpa using (List.mem_filter.mp hkv).2

/-! Non-vacuity: batch 1's result is short, batch 3's unreadable, batch 2's fine -/
example : checkBad ({ batches := [(1, [[0], [1]]), (2, [[2], [3]]), (3, [[4]])],
                      results := [(1, .good [7]), (3, .bad), (2, .good [8, 9])] } : Dir Nat)
    = .ok ({ batches := [(1, [[0], [1]]), (2, [[2], [3]]), (3, [[4]])], results := [(2, .good [8, 9])] }, [1, 3]) := by
  rfl

/-! ### before the first sow, after a complete reap, and through another handle -/

/-- **nothing sown ⇒ nothing ready**: with no crop directory (never sown, or removed by a complete reap) or no
information file, the counts are the "unknown" value and the crop is not ready to reap -/
theorem c08_unsown_not_ready (s : St β) (h : s.dir = none ∨ ∃ d, s.dir = some d ∧ d.info = none) :
    (isReady s).2 = false ∧ (calcProgress s).2.sown = -1 ∧ (calcProgress s).2.results = -1 := by
  have hg : Gen.isReady (-1) (-1) = false := by decide
  rcases h with h | ⟨d, hd, hi⟩
  · simp [isReady, calcProgress, h, hg]
  · simp [isReady, calcProgress, hd, hi, hg]

/-- **the handle does not matter**: once the crop is sown, every progress query answers from the directory, whatever
the asking `Crop` object had loaded before (a handle made before the sow, in another process, …) -/
theorem c08_handle_irrelevant (s : St β) (o : Obj) (d : Dir β) (hd : s.dir = some d) (hinfo : d.info.isSome = true) :
    (calcProgress { s with obj := o }).2 = (calcProgress s).2 ∧
    (isReady { s with obj := o }).2 = (isReady s).2 ∧
    (missingResults { s with obj := o }).2 = (missingResults s).2 := by
  obtain ⟨i, hi⟩ := Option.isSome_iff_exists.mp hinfo
  cases d with
  | mk info batches results =>
    simp only at hi
    subst hi
    refine ⟨?_, ?_, ?_⟩
    · simp [calcProgress, hd]
    · simp [isReady, calcProgress, hd]
    · simp [missingResults, calcProgress, hd, syncFromDisk, hasResult]

/-! Non-vacuity -/
example : WF ({ batches := [(1, [[0]]), (2, [[1]])], results := [(2, .good [7])] } : Dir Nat) 2 := by
  refine ⟨by decide, ?_, by decide, ?_⟩
  · intro i; simp [keys]; omega
  · intro i hi; simp [keys] at hi; omega

end Crop
