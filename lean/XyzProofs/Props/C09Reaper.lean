import XyzProofs.Props.C09
import XyzProofs.Refine.Reaper
/-!
# C09 / C04 / C11 — the stream theorems as theorems about the translated Reaper

`c09_stream_partial` and `c04_stream_full` are statements about the hand-written `Crop.reapStream`;
`Reaper.reapStream_refines` (Refine/Reaper.lean) says that stream is the chain of the translated `Reaper.__init__`
loader over the translated file order.  Here the two are put together: the same statements about
`Gen.reaperFiles` / `Gen.reaperLoadFn` / `Gen.reaperCall` / `Gen.reaperExit`, i.e. about the source as it is on this run.
The directory operations are answered by the model's directory (`Reaper.loadOf`); the directory is static during the
reap and a waiting loop gets at least one poll.
-/
set_option linter.unusedVariables false
namespace Crop
open Core List Reaper

variable {β : Type}

/-- **C09 on the source, the stream**: on a partly grown crop the translated Reaper (not waiting, with the stand-in
`ph`) loads, in the translated file order, the exact results of every finished batch and one stand-in per setting of
every other batch — for every number of batches and every subset `fin` of finished ones -/
theorem c09_stream_partial_src (f : List Nat → β) (ph junk : β) (bs : Int) (fuel : Nat) (existsAt : Nat → Int → Bool)
    (fin : Nat → Bool) (d : Dir β) (bsl : List (List (List Nat))) (hne : ∀ b ∈ bsl, b ≠ [])
    (hb : ∀ j (hj : j < bsl.length), lookup d.batches (j + 1) = some bsl[j])
    (hfin : ∀ j (hj : j < bsl.length), fin (j + 1) = true → lookup d.results (j + 1) = some (.good (bsl[j].map f)))
    (hnot : ∀ j (hj : j < bsl.length), fin (j + 1) = false → lookup d.results (j + 1) = none)
    (hfuel : 0 < fuel) (hstatic : ∀ t x, existsAt t x = isFileOf d x)
    (hbne : ∀ i b, lookup d.batches i = some b → b ≠ []) :
    Gen.chainRest (loadOf d false (some ph) junk bs fuel existsAt) (Gen.reaperFiles (bsl.length : Int)) =
      .ok (partialStream f ph fin bsl) := by
  have h := c09_stream_partial f ph fin {} d bsl hne hb hfin hnot
  exact (reapStream_ok_iff {} d false (some ph) junk bs fuel existsAt hfuel hstatic hbne bsl.length _).mp h

/-- **C09 on the source, the session**: a runner that calls the translated Reaper once per setting and then leaves the
`with` block gets exactly the partial stream: no call raises, the exit check passes -/
theorem c09_session_partial_src (f : List Nat → β) (ph junk : β) (bs : Int) (fuel : Nat) (existsAt : Nat → Int → Bool)
    (fin : Nat → Bool) (d : Dir β) (bsl : List (List (List Nat))) (hne : ∀ b ∈ bsl, b ≠ [])
    (hb : ∀ j (hj : j < bsl.length), lookup d.batches (j + 1) = some bsl[j])
    (hfin : ∀ j (hj : j < bsl.length), fin (j + 1) = true → lookup d.results (j + 1) = some (.good (bsl[j].map f)))
    (hnot : ∀ j (hj : j < bsl.length), fin (j + 1) = false → lookup d.results (j + 1) = none)
    (hfuel : 0 < fuel) (hstatic : ∀ t x, existsAt t x = isFileOf d x)
    (hbne : ∀ i b, lookup d.batches i = some b → b ≠ []) :
    session (loadOf d false (some ph) junk bs fuel existsAt) (Gen.reaperFiles (bsl.length : Int))
      (partialStream f ph fin bsl).length = .ok (partialStream f ph fin bsl) := by
  rw [session_eq, c09_stream_partial_src f ph junk bs fuel existsAt fin d bsl hne hb hfin hnot hfuel hstatic hbne]
  simp [Except.bind, lengthGate]

/-- **C09 on the source, call by call**: the `k`-th call of the translated `__call__` returns element `k` of the partial
stream -/
theorem c09_call_partial_src (f : List Nat → β) (ph junk : β) (bs : Int) (fuel : Nat) (existsAt : Nat → Int → Bool)
    (fin : Nat → Bool) (d : Dir β) (bsl : List (List (List Nat))) (hne : ∀ b ∈ bsl, b ≠ [])
    (hb : ∀ j (hj : j < bsl.length), lookup d.batches (j + 1) = some bsl[j])
    (hfin : ∀ j (hj : j < bsl.length), fin (j + 1) = true → lookup d.results (j + 1) = some (.good (bsl[j].map f)))
    (hnot : ∀ j (hj : j < bsl.length), fin (j + 1) = false → lookup d.results (j + 1) = none)
    (hfuel : 0 < fuel) (hstatic : ∀ t x, existsAt t x = isFileOf d x)
    (hbne : ∀ i b, lookup d.batches i = some b → b ≠ []) (k : Nat) (hk : k < (partialStream f ph fin bsl).length) :
    ∃ buf fl, (calls (loadOf d false (some ph) junk bs fuel existsAt) k [] (Gen.reaperFiles (bsl.length : Int))).2 = (buf, fl) ∧
      (Gen.reaperCall (loadOf d false (some ph) junk bs fuel existsAt) buf fl).1 = .ok (partialStream f ph fin bsl)[k] :=
  reaper_kth_call _ _ _ (c09_stream_partial_src f ph junk bs fuel existsAt fin d bsl hne hb hfin hnot hfuel hstatic hbne) k hk

/-- **C04 on the source**: over a fully and correctly grown crop the translated Reaper — waiting or not, with or
without a stand-in — loads the function mapped over the concatenated batches, and a runner making one call per setting
gets exactly that -/
theorem c04_stream_full_src (f : List Nat → β) (wait : Bool) (dflt : Option β) (junk : β) (bs : Int) (fuel : Nat)
    (existsAt : Nat → Int → Bool) (d : Dir β) (bsl : List (List (List Nat))) (hne : ∀ b ∈ bsl, b ≠ [])
    (hr : ∀ j (hj : j < bsl.length), lookup d.results (j + 1) = some (.good (bsl[j].map f)))
    (hfuel : 0 < fuel) (hstatic : ∀ t x, existsAt t x = isFileOf d x)
    (hbne : ∀ i b, lookup d.batches i = some b → b ≠ []) :
    Gen.chainRest (loadOf d wait dflt junk bs fuel existsAt) (Gen.reaperFiles (bsl.length : Int)) = .ok (bsl.flatten.map f) ∧
    session (loadOf d wait dflt junk bs fuel existsAt) (Gen.reaperFiles (bsl.length : Int)) bsl.flatten.length =
      .ok (bsl.flatten.map f) := by
  have h := c04_stream_full f {} d bsl (if wait then none else dflt) hne hr
  have h2 := (reapStream_ok_iff {} d wait dflt junk bs fuel existsAt hfuel hstatic hbne bsl.length _).mp h
  refine ⟨h2, ?_⟩
  rw [session_eq, h2]
  simp only [Except.bind, lengthGate, List.length_map, Nat.lt_irrefl, if_false]

/-! Non-vacuity: three batches (the last one short), batch 2 not finished; the session of five calls returns the
partial stream, and the full crop returns everything -/
example : session (loadOf (β := Nat)
      { batches := [(1, [[0], [1]]), (2, [[2], [3]]), (3, [[4]])], results := [(1, .good [0, 1]), (3, .good [4])] }
      false (some 99) 0 2 1 (fun _ _ => true)) (Gen.reaperFiles 3) 5 = .ok [0, 1, 99, 99, 4] := by decide
example : session (loadOf (β := Nat)
      { batches := [(1, [[0], [1]]), (2, [[2], [3]]), (3, [[4]])],
        results := [(1, .good [0, 1]), (2, .good [2, 3]), (3, .good [4])] }
      true none 0 2 1 (fun _ _ => true)) (Gen.reaperFiles 3) 5 = .ok [0, 1, 2, 3, 4] := by decide

end Crop
