import XyzModel.Missing
import XyzProofs.Lemmas.Dataset
/-!
# C13 — missing-data discovery reports exactly the locations that have no data

Model: `XyzModel/Missing.lean` (`isCaseMissing`, `findMissingCases`, `parseIntoCases`) over the finite-map datasets of
`XyzModel/Dataset.lean`.  `c13_loop` uses the pointwise merge lemma (`cget_combineFirst`) on which `c05_step` rests.
-/
namespace Missing
open DS

/-! ### the property's own reading of "has no data at a location" -/

/-- a stored cell lies in the slice selected by location `loc` (agrees with it on every shared dimension) and counts
as data under the method -/
def DataAt (d : Dataset) (loc : Pt) (m : Method) : Prop :=
  ∃ e ∈ d.vars, ∃ c ∈ e.2.cells, ptMatches loc c.1 = true ∧ present m c.2 = true

/-- every variable is entirely null at the location -/
def EntirelyNull (d : Dataset) (loc : Pt) (m : Method) : Prop := ¬ DataAt d loc m

/-- well-formed: variable names distinct, and within a variable every point stored once (a finite *map*) -/
def WF (d : Dataset) : Prop :=
  (d.vars.map (·.1)).Nodup ∧ ∀ e ∈ d.vars, (e.2.cells.map (·.1)).Nodup

theorem alookup_of_mem_nodup {β} (l : List (String × β)) (k : String) (x : β) (hn : (l.map (·.1)).Nodup)
    (h : (k, x) ∈ l) : alookup l k = some x := by
  induction l with
  | nil => simp at h
  | cons e r ih =>
    obtain ⟨k', y⟩ := e
    simp only [List.map_cons, List.nodup_cons] at hn
    simp only [alookup]
    rcases List.mem_cons.mp h with h | h
    · injection h with h1 h2; subst h1; subst h2; simp
    · have : k' ≠ k := by
        intro heq; subst heq
        exact hn.1 (List.mem_map.mpr ⟨(k', x), h, rfl⟩)
      simp [this, ih hn.2 h]

theorem cget_of_mem_nodup (c : Cells) (p : Pt) (t : Tok) (hn : (c.map (·.1)).Nodup) (h : (p, t) ∈ c) :
    cget c p = some t := by
  induction c with
  | nil => simp at h
  | cons e r ih =>
    obtain ⟨q, u⟩ := e
    simp only [List.map_cons, List.nodup_cons] at hn
    simp only [cget]
    rcases List.mem_cons.mp h with h | h
    · injection h with h1 h2; subst h1; subst h2; simp
    · have : q ≠ p := by
        intro heq; subst heq
        exact hn.1 (List.mem_map.mpr ⟨(q, t), h, rfl⟩)
      simp [this, ih hn.2 h]

/-- on a well-formed dataset, "a stored cell" is the same as "the finite map has a value" -/
theorem dataAt_iff_get (d : Dataset) (hwf : WF d) (loc : Pt) (m : Method) :
    DataAt d loc m ↔ ∃ n q t, d.get n q = some t ∧ ptMatches loc q = true ∧ present m t = true := by
  constructor
  · rintro ⟨e, he, c, hc, h1, h2⟩
    refine ⟨e.1, c.1, c.2, ?_, h1, h2⟩
    have hv : alookup d.vars e.1 = some e.2 := alookup_of_mem_nodup d.vars e.1 e.2 hwf.1 he
    simp only [Dataset.get, Dataset.cellsOf, hv, Option.map_some, Option.getD_some]
    exact cget_of_mem_nodup e.2.cells c.1 c.2 (hwf.2 e he) hc
  · rintro ⟨n, q, t, hg, h1, h2⟩
    simp only [Dataset.get, Dataset.cellsOf] at hg
    cases hv : alookup d.vars n with
    | none => simp [hv, cget] at hg
    | some v =>
      simp only [hv, Option.map_some, Option.getD_some] at hg
      exact ⟨(n, v), alookup_mem _ _ _ hv, (q, t), cget_mem _ _ _ hg, h1, h2⟩

/-! ### `is_case_missing` -/

theorem isCaseMissing_eq (d : Dataset) (loc : Pt) (m : Method) :
    isCaseMissing d loc m =
      (!d.hasLabels loc || d.vars.all fun e => e.2.cells.all fun c => !ptMatches loc c.1 || !present m c.2) := by
  unfold isCaseMissing Dataset.sel
  by_cases h : d.hasLabels loc = true
  · simp only [h, if_true, Bool.not_true, Bool.false_or]
    rw [List.all_map]
    congr 1
    funext e
    simp only [Function.comp, Var.sel]
    rw [List.all_map, List.all_filter]
    rfl
  · simp [h]

/-- **reported ⇔ no data**: a location is reported missing exactly when a requested label (coordinate or dimension)
is absent from the dataset, or every variable is entirely null there — all positions of the remaining (internal)
dimensions, all variables, under the chosen null criterion -/
theorem c13_iff (d : Dataset) (loc : Pt) (m : Method) :
    isCaseMissing d loc m = true ↔ (d.hasLabels loc = false ∨ EntirelyNull d loc m) := by
  rw [isCaseMissing_eq]
  simp only [Bool.or_eq_true, Bool.not_eq_true', List.all_eq_true]
  constructor
  · rintro (h | h)
    · exact Or.inl h
    · right
      rintro ⟨e, he, c, hc, h1, h2⟩
      rcases h e he c hc with h' | h'
      · rw [h1] at h'; cases h'
      · rw [h2] at h'; cases h'
  · rintro (h | h)
    · exact Or.inl h
    · right
      intro e he c hc
      cases h1 : ptMatches loc c.1 with
      | false => exact Or.inl rfl
      | true =>
        right
        cases h2 : present m c.2 with
        | false => rfl
        | true => exact absurd ⟨e, he, c, hc, h1, h2⟩ h

/-- the two null criteria: a stored value is always data; `±inf` is data for `isnull` and missing for `isfinite` -/
theorem present_cases (m : Method) :
    (∀ n, present m (.v n) = true) ∧ (present .isnull .pinf = true ∧ present .isnull .ninf = true) ∧
    (present .isfinite .pinf = false ∧ present .isfinite .ninf = false) := by
  refine ⟨fun _ => rfl, ⟨rfl, rfl⟩, ⟨rfl, rfl⟩⟩

/-- **locations with any data are never reported** -/
theorem c13_never_reports_data (d : Dataset) (loc : Pt) (m : Method) (h : DataAt d loc m) (hl : d.hasLabels loc = true) :
    isCaseMissing d loc m = false := by
  cases hm : isCaseMissing d loc m with
  | false => rfl
  | true =>
    rcases (c13_iff d loc m).mp hm with h' | h'
    · rw [hl] at h'; cases h'
    · exact absurd h h'

/-! ### `find_missing_cases` and `parse_into_cases` -/

def gridDims (d : Dataset) (ignore : List String) : List (String × List Coord) :=
  d.coords.filter fun e => !ignore.contains e.1

theorem findMissingCases_eq (d : Dataset) (ignore : List String) (m : Method) :
    findMissingCases d ignore m =
      ((gridDims d ignore).map (·.1),
       (Core.product ((gridDims d ignore).map (·.2))).filter fun c =>
         isCaseMissing d (((gridDims d ignore).map (·.1)).zip c) m) := rfl

/-- **`find_missing_cases` reports exactly the grid locations without data** -/
theorem c13_find_iff (d : Dataset) (ignore : List String) (m : Method) (c : List Coord) :
    c ∈ (findMissingCases d ignore m).2 ↔
      c ∈ Core.product ((gridDims d ignore).map (·.2)) ∧
      isCaseMissing d (((gridDims d ignore).map (·.1)).zip c) m = true := by
  rw [findMissingCases_eq]; simp [List.mem_filter]

/-- **`parse_into_cases` keeps exactly the requested settings without data** (all of them when no dataset is given) -/
theorem c13_parse_iff (combos : List (String × List Coord)) (cases : Option (List Pt)) (d : Option Dataset)
    (m : Method) (nc : Pt) :
    nc ∈ parseIntoCases combos cases d m ↔
      nc ∈ requested combos (cases.getD [[]]) ∧ (∀ ds, d = some ds → isCaseMissing ds nc m = true) := by
  unfold parseIntoCases
  rw [List.mem_filter]
  cases d with
  | none => simp
  | some ds => simp

theorem product_nodup {V} (L : List (List V)) (h : ∀ l ∈ L, l.Nodup) : (Core.product L).Nodup := by
  induction L with
  | nil => simp [Core.product]
  | cons vs rest ih =>
    have ihr := ih (fun l hl => h l (List.mem_cons_of_mem _ hl))
    have hvs := h vs (List.mem_cons_self ..)
    simp only [Core.product]
    unfold List.Nodup
    rw [List.pairwise_flatMap]
    constructor
    · intro v _
      rw [List.pairwise_map]
      exact List.Pairwise.imp (fun hab heq => hab (List.cons.inj heq).2) ihr
    · exact List.Pairwise.imp (fun hab x hx y hy heq => by
        obtain ⟨_, _, rfl⟩ := List.mem_map.mp hx
        obtain ⟨_, _, rfl⟩ := List.mem_map.mp hy
        exact hab (List.cons.inj heq).1) hvs

/-- **grid order, no duplicates**: the reported cases are a subsequence of the grid (dimensions in dataset order, each
in coordinate order, first dimension slowest), hence without duplicates when the coordinates are distinct; the cases
kept by `parse_into_cases` are a subsequence of the requested settings (cases outermost, combos in product order) -/
theorem c13_order_nodup (d : Dataset) (ignore : List String) (m : Method) :
    (findMissingCases d ignore m).1 = (gridDims d ignore).map (·.1) ∧
    ((findMissingCases d ignore m).2).Sublist (Core.product ((gridDims d ignore).map (·.2))) ∧
    ((∀ e ∈ d.coords, e.2.Nodup) → ((findMissingCases d ignore m).2).Nodup) ∧
    (∀ combos cases ds, (parseIntoCases combos cases ds m).Sublist (requested combos (cases.getD [[]]))) := by
  refine ⟨rfl, List.filter_sublist, ?_, fun _ _ _ => List.filter_sublist⟩
  intro h
  apply List.Sublist.nodup List.filter_sublist
  apply product_nodup
  intro l hl
  obtain ⟨e, he, rfl⟩ := List.mem_map.mp hl
  exact h e (List.mem_filter.mp he).1

/-! ### the find → harvest → find loop -/

/-- pointwise inclusion of two lists of coordinate lists -/
def Sub2 {V} : List (List V) → List (List V) → Prop
  | [], [] => True
  | a :: as, b :: bs => (∀ x ∈ a, x ∈ b) ∧ Sub2 as bs
  | _, _ => False

theorem product_mono {V} : ∀ (L' L : List (List V)), Sub2 L' L → ∀ p, p ∈ Core.product L' → p ∈ Core.product L
  | [], [], _, p, hp => hp
  | [], _ :: _, h, _, _ => h.elim
  | _ :: _, [], h, _, _ => h.elim
  | a :: as, b :: bs, h, p, hp => by
    simp only [Core.product, List.mem_flatMap, List.mem_map] at hp ⊢
    obtain ⟨v, hv, q, hq, rfl⟩ := hp
    exact ⟨v, h.1 v hv, q, product_mono as bs h.2 q hq, rfl⟩

/-- grid cases carry labels that exist: every (dimension, coordinate) pair of a grid location is a coordinate of that
dimension -/
theorem zip_product_mem (F : List (String × List Coord)) :
    ∀ c, c ∈ Core.product (F.map (·.2)) → ∀ s ∈ (F.map (·.1)).zip c, ∃ e ∈ F, s.1 = e.1 ∧ s.2 ∈ e.2 := by
  induction F with
  | nil => intro c _ s hs; simp at hs
  | cons f r ih =>
    intro c hc s hs
    simp only [List.map_cons, Core.product, List.mem_flatMap, List.mem_map] at hc
    obtain ⟨v, hv, q, hq, rfl⟩ := hc
    simp only [List.map_cons, List.zip_cons_cons, List.mem_cons] at hs
    rcases hs with rfl | hs
    · exact ⟨f, List.mem_cons_self .., rfl, hv⟩
    · obtain ⟨e, he, h1, h2⟩ := ih q hq s hs
      exact ⟨e, List.mem_cons_of_mem _ he, h1, h2⟩

theorem hasLabels_of_grid (d : Dataset) (ignore : List String) (hnod : (d.coords.map (·.1)).Nodup)
    (c : List Coord) (hc : c ∈ Core.product ((gridDims d ignore).map (·.2))) :
    d.hasLabels (((gridDims d ignore).map (·.1)).zip c) = true := by
  unfold Dataset.hasLabels
  rw [List.all_eq_true]
  intro s hs
  obtain ⟨e, he, h1, h2⟩ := zip_product_mem (gridDims d ignore) c hc s hs
  have hmem : e ∈ d.coords := (List.mem_filter.mp he).1
  have : alookup d.coords s.1 = some e.2 := by rw [h1]; exact alookup_of_mem_nodup d.coords e.1 e.2 hnod hmem
  simp [this, h2]

theorem grid_merge (G : String → List Coord) (P : String → Bool) :
    ∀ (A B : List (String × List Coord)), A.map (·.1) = B.map (·.1) → (∀ e ∈ B, G e.1 = e.2) →
      (∀ e ∈ A, ∀ x ∈ e.2, x ∈ G e.1) →
      (((A.map fun e => (e.1, sortedUnion e.2 (G e.1))).filter fun e => P e.1).map (·.1)
          = (B.filter fun e => P e.1).map (·.1)) ∧
      Sub2 (((A.map fun e => (e.1, sortedUnion e.2 (G e.1))).filter fun e => P e.1).map (·.2))
           ((B.filter fun e => P e.1).map (·.2)) := by
  intro A
  induction A with
  | nil =>
    intro B hAB _ _
    cases B with
    | nil => exact ⟨rfl, trivial⟩
    | cons b r => simp at hAB
  | cons a A' ih =>
    intro B hAB hB hA
    cases B with
    | nil => simp at hAB
    | cons b B' =>
      simp only [List.map_cons, List.cons.injEq] at hAB
      obtain ⟨hab, hrest⟩ := hAB
      obtain ⟨ih1, ih2⟩ := ih B' hrest (fun e he => hB e (List.mem_cons_of_mem _ he))
        (fun e he => hA e (List.mem_cons_of_mem _ he))
      simp only [List.map_cons, List.filter_cons]
      by_cases hp : P a.1 = true
      · have hp' : P b.1 = true := by rw [← hab]; exact hp
        simp only [hp, hp', if_true, List.map_cons]
        refine ⟨by rw [hab, ih1], ?_, ih2⟩
        intro x hx
        have hb : G b.1 = b.2 := hB b (List.mem_cons_self ..)
        rcases (mem_sortedUnion _ _ _).mp hx with h | h
        · rw [← hb, ← hab]; exact hA a (List.mem_cons_self ..) x h
        · rw [← hb, ← hab]; exact h
      · have hp' : ¬ P b.1 = true := by rw [← hab]; exact hp
        simp only [hp, hp']
        exact ⟨ih1, ih2⟩

/-- **harvesting exactly the reported cases leaves nothing missing** (`overwrite=True`, either null criterion):
let `N` be new data over the same dimensions whose coordinates are among the dataset's, which has data at every
reported case (the function "returns data") and only at reported cases; then `find_missing_cases` on the merged dataset
`N.combine_first(d)` reports nothing -/
theorem c13_loop (d N : Dataset) (ignore : List String) (m : Method)
    (hnod : (d.coords.map (·.1)).Nodup) (hvars : (d.vars.map (·.1)).Nodup)
    (hdims : N.coords.map (·.1) = d.coords.map (·.1))
    (hsub : ∀ dim c, c ∈ N.coordsOf dim → c ∈ d.coordsOf dim)
    (hdata : ∀ c ∈ (findMissingCases d ignore m).2, DataAt N (((findMissingCases d ignore m).1).zip c) m)
    (honly : ∀ e ∈ N.vars, ∀ x ∈ e.2.cells,
      ∃ c ∈ (findMissingCases d ignore m).2, ptMatches (((findMissingCases d ignore m).1).zip c) x.1 = true) :
    (findMissingCases (N.combineFirst d) ignore m).2 = [] := by
  -- the merged coordinates: N's dimension list, each coordinate list joined with the dataset's
  have hfil : (d.coords.filter fun e => (alookup N.coords e.1).isNone) = [] := by
    rw [List.filter_eq_nil_iff]
    intro e he
    have : e.1 ∈ N.coords.map (·.1) := by rw [hdims]; exact List.mem_map.mpr ⟨e, he, rfl⟩
    obtain ⟨e', he', h1⟩ := List.mem_map.mp this
    have := alookup_isSome_of_mem N.coords e'.1 e'.2 he'
    rw [h1] at this
    cases hx : alookup N.coords e.1 with
    | none => rw [hx] at this; cases this
    | some _ => simp
  have hco : (N.combineFirst d).coords = N.coords.map fun e => (e.1, sortedUnion e.2 (d.coordsOf e.1)) := by
    simp [Dataset.combineFirst, unionCoords, hfil, Dataset.coordsOf]
  have hG : ∀ e ∈ d.coords, d.coordsOf e.1 = e.2 := by
    intro e he
    simp [Dataset.coordsOf, alookup_of_mem_nodup d.coords e.1 e.2 hnod he]
  have hA : ∀ e ∈ N.coords, ∀ x ∈ e.2, x ∈ d.coordsOf e.1 := by
    intro e he x hx
    apply hsub
    have hn : (N.coords.map (·.1)).Nodup := by rw [hdims]; exact hnod
    simp [Dataset.coordsOf, alookup_of_mem_nodup N.coords e.1 e.2 hn he, hx]
  obtain ⟨hnames, hsub2⟩ := grid_merge d.coordsOf (fun k => !ignore.contains k) N.coords d.coords hdims hG hA
  have hgm : gridDims (N.combineFirst d) ignore
      = (N.coords.map fun e => (e.1, sortedUnion e.2 (d.coordsOf e.1))).filter fun e => !ignore.contains e.1 := by
    simp [gridDims, hco]
  have hnodm : ((N.combineFirst d).coords.map (·.1)).Nodup := by
    rw [hco, List.map_map]
    have : ((fun e : String × List Coord => e.1) ∘
        fun e : String × List Coord => (e.1, sortedUnion e.2 (d.coordsOf e.1))) = fun e => e.1 := rfl
    rw [this, hdims]; exact hnod
  rw [List.eq_nil_iff_forall_not_mem]
  intro c hc
  obtain ⟨hcg, hmiss⟩ := (c13_find_iff _ ignore m c).mp hc
  have hlab := hasLabels_of_grid (N.combineFirst d) ignore hnodm c hcg
  rw [hgm] at hcg hmiss hlab
  rw [hnames] at hmiss hlab
  have hcd : c ∈ Core.product ((gridDims d ignore).map (·.2)) := product_mono _ _ hsub2 c hcg
  -- it is enough to exhibit data at the location in the merged dataset
  suffices hD : DataAt (N.combineFirst d) (((gridDims d ignore).map (·.1)).zip c) m by
    have := c13_never_reports_data _ _ m hD hlab
    simp only [gridDims] at this hmiss
    rw [this] at hmiss; cases hmiss
  by_cases hm : isCaseMissing d (((gridDims d ignore).map (·.1)).zip c) m = true
  · -- reported before: the new data has data there, and new data wins
    have hrep : c ∈ (findMissingCases d ignore m).2 := (c13_find_iff d ignore m c).mpr ⟨hcd, hm⟩
    obtain ⟨e, he, x, hx, h1, h2⟩ := hdata c hrep
    refine ⟨(e.1, { e.2 with cells := DS.combineFirst e.2.cells (d.cellsOf e.1) }), ?_, x, ?_, h1, h2⟩
    · simp only [Dataset.combineFirst, mergeVars, List.mem_append, List.mem_map]
      exact Or.inl ⟨e, he, rfl⟩
    · simp only [DS.combineFirst, List.mem_append]; exact Or.inl hx
  · -- had data before: that cell is still there, because the new data has cells only at reported cases
    have hlabd := hasLabels_of_grid d ignore hnod c hcd
    have hDd : DataAt d (((gridDims d ignore).map (·.1)).zip c) m := by
      cases hh : isCaseMissing d (((gridDims d ignore).map (·.1)).zip c) m with
      | true => exact absurd hh hm
      | false =>
        apply Classical.byContradiction
        intro hnD
        have hiff := c13_iff d (List.zip (List.map (fun x : String × List Coord => x.1) (gridDims d ignore)) c) m
        have := hiff.mpr (Or.inr hnD)
        rw [hh] at this; cases this
    obtain ⟨e, he, x, hx, h1, h2⟩ := hDd
    have hcells : d.cellsOf e.1 = e.2.cells := by
      simp [Dataset.cellsOf, alookup_of_mem_nodup d.vars e.1 e.2 hvars he]
    -- a cell of the new data at the same point would lie at a reported case, where the old data has nothing
    have hfree : ∀ vN, (e.1, vN) ∈ N.vars → cget vN.cells x.1 = none := by
      intro vN hvN
      cases hg : cget vN.cells x.1 with
      | none => rfl
      | some t' =>
        obtain ⟨c', hc', hmatch⟩ := honly (e.1, vN) hvN (x.1, t') (cget_mem _ _ _ hg)
        obtain ⟨hc'g, hc'm⟩ := (c13_find_iff d ignore m c').mp hc'
        have hl' := hasLabels_of_grid d ignore hnod c' hc'g
        rcases (c13_iff d _ m).mp hc'm with h | h
        · rw [hl'] at h; cases h
        · exact absurd ⟨e, he, x, hx, hmatch, h2⟩ h
    cases hn : alookup N.vars e.1 with
    | none =>
      refine ⟨e, ?_, x, hx, h1, h2⟩
      simp only [Dataset.combineFirst, mergeVars, List.mem_append, List.mem_filter]
      exact Or.inr ⟨he, by simp [hn]⟩
    | some vN =>
      have hvN : (e.1, vN) ∈ N.vars := alookup_mem _ _ _ hn
      refine ⟨(e.1, { vN with cells := DS.combineFirst vN.cells (d.cellsOf e.1) }), ?_, x, ?_, h1, h2⟩
      · simp only [Dataset.combineFirst, mergeVars, List.mem_append, List.mem_map]
        exact Or.inl ⟨(e.1, vN), hvN, rfl⟩
      · simp only [DS.combineFirst, List.mem_append, List.mem_filter, hcells]
        exact Or.inr ⟨hx, by simp [hfree vN hvN]⟩

/-! ### Non-vacuity -/

def exDs : Dataset :=
  { coords := [("a", [1, 2]), ("t", [0, 1])]
    vars := [("x", { dims := ["a", "t"], cells := [([("a", 1), ("t", 0)], .v 5), ([("a", 2), ("t", 1)], .pinf)] })] }

example : (findMissingCases exDs ["t"] .isnull).2 = [] := by decide
example : (findMissingCases exDs ["t"] .isfinite).2 = [[2]] := by decide
example : (findMissingCases exDs [] .isnull) = (["a", "t"], [[1, 1], [2, 0]]) := by decide
example : isCaseMissing exDs [("a", 3)] .isnull = true := by decide
example : DataAt exDs [("a", 1)] .isfinite := ⟨_, List.mem_cons_self .., _, List.mem_cons_self .., by decide, by decide⟩

end Missing
