import XyzProofs.Lemmas.Harvest
/-!
# C05 — the harvested dataset is the faithful merge of everything ever harvested

Model: `XyzModel/Harvest.lean` (sessions over a store), `XyzModel/Dataset.lean` (finite-map datasets and the three
merges), `XyzModel/StoreIO.lean` (path resolution).  Extracted definitions used: the path anchors
(`Gen.saveDsExtends` … `Gen.saveMergeLoadsWithEngine`) and the overwrite dispatch (`Gen.addDsTrue/False/None`,
`Gen.saveMergeTrue/False/None`).
-/
namespace Harvest
open DS StoreIO

/-! ## one file name for everything -/

/-- **name consistency**: for every data name and engine, the path written by `save_ds`, read by `load_ds`, probed by
`Harvester.load_full_ds` (`os.access`, `os.path.isfile`), probed and removed by `Harvester.save_full_ds`, removed by
`Harvester.delete_ds`, and probed and loaded by `save_merge_ds` are all the same path: the name with the engine's
extension added when it has none -/
theorem c05_name_consistent (name : String) (e : Engine) :
    savePath name e = autoAddExt name e ∧ loadPath name e = autoAddExt name e ∧
    hvAccessPath name e = autoAddExt name e ∧ hvIsfilePath name e = autoAddExt name e ∧
    hvExistsPath name e = autoAddExt name e ∧ hvRemovePath name e = autoAddExt name e ∧
    hvDeletePath name e = autoAddExt name e ∧
    smExistsPath name e = autoAddExt name e ∧ smLoadEngine e = e ∧ smLoadPath name e = autoAddExt name e := by
  simp [savePath, loadPath, hvAccessPath, hvIsfilePath, hvExistsPath, hvRemovePath, hvDeletePath, smExistsPath,
    smLoadEngine, smLoadPath,
    Gen.saveDsExtends, Gen.Default.saveDsExtends, Gen.loadDsExtends, Gen.Default.loadDsExtends,
    Gen.loadFullAccessExtended, Gen.Default.loadFullAccessExtended,
    Gen.loadFullIsfileExtended, Gen.Default.loadFullIsfileExtended,
    Gen.saveFullExistsExtended, Gen.Default.saveFullExistsExtended,
    Gen.saveFullRemoveExtended, Gen.Default.saveFullRemoveExtended,
    Gen.deleteRemoveExtended, Gen.Default.deleteRemoveExtended,
    Gen.saveMergeExistsExtended, Gen.Default.saveMergeExistsExtended,
    Gen.saveMergeLoadsWithEngine, Gen.Default.saveMergeLoadsWithEngine]

/-! ## the overwrite policies, pointwise -/

/-- the value the policy decides at one point, given the old and the new value there (`none` = null / absent):
`overwrite=True` takes the new value where there is one; `overwrite=False` and the default keep the old value where
there is one (under the default policy the two can only differ if the step is rejected as a conflict) -/
def policyValue (pol : Policy) (o n : Option Tok) : Option Tok :=
  match pol with
  | .overwrite => n.orElse fun _ => o
  | _ => o.orElse fun _ => n

def oget (old : Option Dataset) (n : String) (p : Pt) : Option Tok :=
  match old with
  | none => none
  | some o => o.get n p

def ocoords (old : Option Dataset) (d : String) : List Coord :=
  match old with
  | none => []
  | some o => o.coordsOf d

/-- new data conflicts with the old: default policy, and some point holds two different non-null values -/
def Conflicts (old : Option Dataset) (N : Dataset) (pol : Policy) : Prop :=
  pol = .none ∧ ∃ n p x y, oget old n p = some x ∧ N.get n p = some y ∧ x ≠ y

theorem addDsKind_eq (pol : Policy) :
    addDsKind pol = match pol with
      | .overwrite => Gen.MergeKind.newFirst | .keep => Gen.MergeKind.oldFirst | .none => Gen.MergeKind.noConflicts := by
  cases pol <;>
    simp only [addDsKind, Gen.addDsTrue, Gen.Default.addDsTrue, Gen.addDsFalse, Gen.Default.addDsFalse,
      Gen.addDsNone, Gen.Default.addDsNone]

theorem saveMergeKind_eq (pol : Policy) :
    saveMergeKind pol = match pol with
      | .overwrite => Gen.MergeKind.newFirst | .keep => Gen.MergeKind.oldFirst | .none => Gen.MergeKind.noConflicts := by
  cases pol <;>
    simp only [saveMergeKind, Gen.saveMergeTrue, Gen.Default.saveMergeTrue, Gen.saveMergeFalse,
      Gen.Default.saveMergeFalse, Gen.saveMergeNone, Gen.Default.saveMergeNone]

def kindOf : Policy → Gen.MergeKind
  | .overwrite => .newFirst | .keep => .oldFirst | .none => .noConflicts

/-- the three merges against their pointwise specification -/
theorem mergeBy_spec (pol : Policy) (o N : Dataset) :
    (Conflicts (some o) N pol → mergeBy (kindOf pol) o N = .error .conflict) ∧
    (¬ Conflicts (some o) N pol → ∃ M, mergeBy (kindOf pol) o N = .ok M ∧
        (∀ n p, M.get n p = policyValue pol (o.get n p) (N.get n p)) ∧
        (∀ d c, c ∈ M.coordsOf d ↔ c ∈ o.coordsOf d ∨ c ∈ N.coordsOf d)) := by
  cases pol with
  | overwrite =>
    refine ⟨fun h => absurd h.1 (by simp), fun _ => ⟨N.combineFirst o, rfl, ?_, ?_⟩⟩
    · intro n p; simp [policyValue, Dataset.get_combineFirst]
    · intro d c; rw [Dataset.coordsOf_combineFirst]; exact Or.comm
  | keep =>
    refine ⟨fun h => absurd h.1 (by simp), fun _ => ⟨o.combineFirst N, rfl, ?_, ?_⟩⟩
    · intro n p; simp [policyValue, Dataset.get_combineFirst]
    · intro d c; rw [Dataset.coordsOf_combineFirst]
  | none =>
    have key : o.conflicts N = true ↔ Conflicts (some o) N .none := by
      rw [Dataset.conflicts_iff]
      simp [Conflicts, oget]
    constructor
    · intro h
      simp [mergeBy, kindOf, Dataset.mergeNoConflicts, key.mpr h]
    · intro h
      have hc : o.conflicts N = false := by
        cases hh : o.conflicts N with
        | false => rfl
        | true => exact absurd (key.mp hh) h
      refine ⟨o.combineFirst N, by simp [mergeBy, kindOf, Dataset.mergeNoConflicts, hc], ?_, ?_⟩
      · intro n p; simp [policyValue, Dataset.get_combineFirst]
      · intro d c; rw [Dataset.coordsOf_combineFirst]

/-- `mergeInto` (the merge of `add_ds`, with possibly nothing in memory) against the specification -/
theorem mergeInto_spec (pol : Policy) (old : Option Dataset) (N : Dataset) :
    (Conflicts old N pol → mergeInto old (addDsKind pol) N = .error .conflict) ∧
    (¬ Conflicts old N pol → ∃ M, mergeInto old (addDsKind pol) N = .ok M ∧
        (∀ n p, M.get n p = policyValue pol (oget old n p) (N.get n p)) ∧
        (∀ d c, c ∈ M.coordsOf d ↔ c ∈ ocoords old d ∨ c ∈ N.coordsOf d)) := by
  have hk : addDsKind pol = kindOf pol := by rw [addDsKind_eq]; cases pol <;> rfl
  rw [hk]
  cases old with
  | none =>
    refine ⟨fun h => ?_, fun _ => ⟨N, rfl, ?_, ?_⟩⟩
    · obtain ⟨_, n, p, x, y, h1, _⟩ := h
      simp [oget] at h1
    · intro n p; cases pol <;> simp [policyValue, oget]
    · intro d c; simp [ocoords]
  | some o => exact mergeBy_spec pol o N

/-! ## saving and loading through one path -/

theorem load_save (store : Store) (name : String) (e : Engine) (d : Dataset) :
    load (save store name e d) name e = .ok (coerceAttrs e d) := by
  obtain ⟨h1, h2, _⟩ := c05_name_consistent name e
  simp [load, save, loadVia, saveVia, h1, h2, alookup_sset, tagCodec]

theorem alookup_save (store : Store) (name : String) (e : Engine) (d : Dataset) (k : String) :
    alookup (save store name e d) k =
      if autoAddExt name e = k then some ⟨e, coerceAttrs e d⟩ else alookup store k := by
  obtain ⟨h1, _⟩ := c05_name_consistent name e
  simp [save, saveVia, h1, alookup_sset, tagCodec]

theorem loadFull_fields (store : Store) (s s1 : Session) (h : loadFull store s = .ok s1) :
    s1.name = s.name ∧ s1.engine = s.engine := by
  unfold loadFull at h
  split at h
  · split at h
    · injection h with h; subst h; exact ⟨rfl, rfl⟩
    · cases h
  · split at h
    · injection h with h; subst h; exact ⟨rfl, rfl⟩
    · cases h

theorem preload_fields (store : Store) (s s1 : Session) (sync : Bool) (h : preload store s sync = .ok s1) :
    s1.name = s.name ∧ s1.engine = s.engine := by
  unfold preload at h
  split at h
  · exact loadFull_fields store s s1 h
  · injection h with h; subst h; exact ⟨rfl, rfl⟩

/-- `save_full_ds(new)` always succeeds, leaves the new dataset in memory and on disk under the data path, and
touches no other path -/
theorem saveFullNew_spec (store : Store) (s : Session) (d : Dataset) :
    ∃ store', saveFullNew store s d = .ok (store', { s with mem := some (coerceAttrs s.engine d) }) ∧
      load store' s.name s.engine = .ok (coerceAttrs s.engine d) ∧
      alookup store' (autoAddExt s.name s.engine) = some ⟨s.engine, coerceAttrs s.engine d⟩ ∧
      ∀ k, k ≠ autoAddExt s.name s.engine → alookup store' k = alookup store k := by
  obtain ⟨_, _, _, _, h5, h6, _⟩ := c05_name_consistent s.name s.engine
  unfold saveFullNew
  simp only [h5, h6]
  by_cases hx : shas store (autoAddExt s.name s.engine) = true
  · simp only [hx, if_true]
    refine ⟨_, rfl, ?_, ?_, ?_⟩
    · rw [load_save, coerceAttrs_idem]
    · rw [alookup_save, coerceAttrs_idem]; simp
    · intro k hk
      rw [alookup_save, alookup_serase]
      have : ¬ autoAddExt s.name s.engine = k := fun h => hk h.symm
      simp [this]
  · simp only [hx]
    refine ⟨_, rfl, ?_, ?_, ?_⟩
    · rw [load_save, coerceAttrs_idem]
    · rw [alookup_save, coerceAttrs_idem]; simp
    · intro k hk
      rw [alookup_save]
      have : ¬ autoAddExt s.name s.engine = k := fun h => hk h.symm
      simp [this]

/-! ## one step -/

/-- **per step** (`harvest_combos` / `harvest_cases` / `add_ds` with new data `N`, any policy, sync on or off, in any
state): let `s1` be the Harvester after the optional reload.
* If the new data conflicts with the old under the default policy, the step fails with a merge error, the store is
  unchanged and the memory is the reloaded dataset.
* Otherwise the step succeeds and at EVERY point the new memory holds the value decided by the policy from the old and
  the new value there — in particular a point the new data does not touch (`N.get n p = none`) keeps its value —,
  every old and new coordinate is present, with `sync` the same dataset is what `load_ds` now returns and no other path
  changed, without `sync` the store is untouched. -/
theorem c05_step (st : St) (sid : Nat) (s s1 : Session) (N : Dataset) (pol : Policy) (sync : Bool)
    (hs : st.sessions[sid]? = some s) (hl : preload st.store s sync = .ok s1) :
    (Conflicts s1.mem N pol →
        (addDs st sid N pol sync).2 = some .conflict ∧ (addDs st sid N pol sync).1.store = st.store ∧
        (addDs st sid N pol sync).1.sessions = st.sessions.set sid s1) ∧
    (¬ Conflicts s1.mem N pol →
        ∃ M, (addDs st sid N pol sync).2 = none ∧
          (addDs st sid N pol sync).1.sessions = st.sessions.set sid { s1 with mem := some M } ∧
          (∀ n p, M.get n p = policyValue pol (oget s1.mem n p) (N.get n p)) ∧
          (∀ n p, N.get n p = none → M.get n p = oget s1.mem n p) ∧
          (∀ d c, c ∈ M.coordsOf d ↔ c ∈ ocoords s1.mem d ∨ c ∈ N.coordsOf d) ∧
          (sync = true → load (addDs st sid N pol sync).1.store s.name s.engine = .ok M ∧
             ∀ k, k ≠ autoAddExt s.name s.engine → alookup (addDs st sid N pol sync).1.store k = alookup st.store k) ∧
          (sync = false → (addDs st sid N pol sync).1.store = st.store)) := by
  obtain ⟨hn, he⟩ := preload_fields _ _ _ _ hl
  obtain ⟨hA, hB⟩ := mergeInto_spec pol s1.mem N
  constructor
  · intro hc
    simp [addDs, hs, hl, hA hc, setSession]
  · intro hc
    obtain ⟨M0, hM, hget, hco⟩ := hB hc
    have hkeep : ∀ M : Dataset, (∀ n p, M.get n p = policyValue pol (oget s1.mem n p) (N.get n p)) →
        ∀ n p, N.get n p = none → M.get n p = oget s1.mem n p := by
      intro M h n p hN
      rw [h, hN]; cases pol <;> simp [policyValue]
    cases sync with
    | false =>
      refine ⟨M0, ?_, ?_, hget, hkeep M0 hget, hco, by simp, ?_⟩ <;> simp [addDs, hs, hl, hM, setSession]
    | true =>
      obtain ⟨store', hsv, hld, _, hoth⟩ := saveFullNew_spec st.store s1 M0
      refine ⟨coerceAttrs s1.engine M0, ?_, ?_, ?_, ?_, ?_, ?_, by simp⟩
      · simp [addDs, hs, hl, hM, hsv]
      · simp [addDs, hs, hl, hM, hsv]
      · intro n p; rw [get_coerceAttrs]; exact hget n p
      · exact hkeep _ (by intro n p; rw [get_coerceAttrs]; exact hget n p)
      · intro d c; rw [coordsOf_coerceAttrs]; exact hco d c
      · intro _
        have : (addDs st sid N pol true).1.store = store' := by simp [addDs, hs, hl, hM, hsv]
        rw [this, ← hn, ← he]
        exact ⟨hld, hoth⟩

/-- the first harvest of a Harvester with nothing in memory and no file: memory and disk are exactly the new data -/
theorem c05_step_first (st : St) (sid : Nat) (s : Session) (N : Dataset) (pol : Policy)
    (hs : st.sessions[sid]? = some s) (hmem : s.mem = none)
    (hfile : alookup st.store (autoAddExt s.name s.engine) = none) :
    (addDs st sid N pol true).2 = none ∧
    load (addDs st sid N pol true).1.store s.name s.engine = .ok (coerceAttrs s.engine N) ∧
    (addDs st sid N pol true).1.sessions = st.sessions.set sid { s with mem := some (coerceAttrs s.engine N) } := by
  obtain ⟨_, _, h3, h4, _⟩ := c05_name_consistent s.name s.engine
  have hl : preload st.store s true = .ok s := by
    simp [preload, loadFull, h3, h4, shas, hfile]
  obtain ⟨store', hsv, hld, _, _⟩ := saveFullNew_spec st.store s N
  simp [addDs, hs, hl, hmem, mergeInto, hsv, hld]

/-! ## memory = disk after every synced step -/

theorem set_get {α} (l : List α) (i : Nat) (x s : α) (h : l[i]? = some s) : (l.set i x)[i]? = some x := by
  have : i < l.length := by
    rcases List.getElem?_eq_some_iff.mp h with ⟨hi, _⟩; exact hi
  simp [this]

/-- the lazy `full_ds` property never touches the store, and what it returns is what the session then holds -/
theorem fullDs_spec (st : St) (sid : Nat) (s : Session) (hs : st.sessions[sid]? = some s) :
    (fullDs st sid).1.store = st.store ∧
    ∀ od, (fullDs st sid).2 = .ok od →
      ∃ s1, (fullDs st sid).1.sessions[sid]? = some s1 ∧ s1.mem = od ∧ s1.name = s.name ∧ s1.engine = s.engine := by
  unfold fullDs
  simp only [hs]
  cases hm : s.mem with
  | some d =>
    refine ⟨rfl, ?_⟩
    intro od h
    simp at h
    exact ⟨s, hs, by rw [hm, h], rfl, rfl⟩
  | none =>
    cases hl : loadFull st.store s with
    | error e => exact ⟨rfl, by intro od h; simp at h⟩
    | ok s1 =>
      obtain ⟨hn, he⟩ := loadFull_fields _ _ _ hl
      refine ⟨rfl, ?_⟩
      intro od h
      simp at h
      exact ⟨s1, by simp [setSession, set_get _ _ _ _ hs], h, hn, he⟩

/-- `expand_dims` / `drop_sel`: when they succeed they apply the rewriting to `full_ds`, keep the result in memory
and save it under the data path -/
theorem rewrite_spec (st : St) (sid : Nat) (s : Session) (f : Dataset → Option Dataset) (onNone : Err)
    (hs : st.sessions[sid]? = some s) (hok : (rewrite st sid f onNone).2 = none) :
    ∃ (d d' : Dataset) (s1 : Session), (fullDs st sid).2 = .ok (some d) ∧ f d = some d' ∧
      s1.name = s.name ∧ s1.engine = s.engine ∧
      (rewrite st sid f onNone).1.sessions[sid]? = some { s1 with mem := some (coerceAttrs s.engine d') } ∧
      load (rewrite st sid f onNone).1.store s.name s.engine = .ok (coerceAttrs s.engine d') := by
  obtain ⟨hst, hfd⟩ := fullDs_spec st sid s hs
  unfold rewrite at hok ⊢
  rcases hr : fullDs st sid with ⟨st1, r⟩
  rw [hr] at hok hst hfd
  simp only at hok hst hfd ⊢
  cases r with
  | error e => simp at hok
  | ok od =>
    cases od with
    | none => simp at hok
    | some d =>
      obtain ⟨s1, hs1, _, hn, he⟩ := hfd (some d) rfl
      cases hf : f d with
      | none => simp [hf] at hok
      | some d' =>
        obtain ⟨store', hsv, hld, _, _⟩ := saveFullNew_spec st1.store s1 d'
        refine ⟨d, d', s1, rfl, hf, hn, he, ?_, ?_⟩
        · simp [hf, hs1, hsv, set_get _ _ _ _ hs1, he]
        · simp [hf, hs1, hsv]
          rw [← hn, ← he]; exact hld

/-- which Harvester a step saves through, if it is one that syncs memory and disk -/
def syncedSid : Step → Option Nat
  | .harvest sid _ _ true => some sid
  | .expandDims sid _ _ => some sid
  | .dropSel sid _ _ => some sid
  | .flush sid => some sid
  | _ => none

/-- **memory = disk**: after every synced step that succeeds (a harvest with `sync=True`, `expand_dims`, `drop_sel`,
`save_full_ds`), the Harvester's in-memory dataset is exactly what `load_ds(data_name, engine)` returns -/
theorem c05_mem_eq_disk (e : Engine) (st : St) (x : Step) (sid : Nat) (s : Session)
    (hx : syncedSid x = some sid) (hs : st.sessions[sid]? = some s) (hok : (step e st x).2 = none) :
    ∃ M s', (step e st x).1.sessions[sid]? = some s' ∧ s'.mem = some M ∧ s'.name = s.name ∧ s'.engine = s.engine ∧
      load (step e st x).1.store s.name s.engine = .ok M := by
  cases x with
  | newSession name => simp [syncedSid] at hx
  | saveMerge name N pol => simp [syncedSid] at hx
  | delete sid' => simp [syncedSid] at hx
  | harvest sid' N pol sync =>
    cases sync with
    | false => simp [syncedSid] at hx
    | true =>
      simp only [syncedSid, Option.some.injEq] at hx; subst hx
      simp only [step] at hok ⊢
      cases hl : preload st.store s true with
      | error er => simp [addDs, hs, hl] at hok
      | ok s1 =>
        obtain ⟨hn, he⟩ := preload_fields _ _ _ _ hl
        obtain ⟨hA, hB⟩ := c05_step st sid' s s1 N pol true hs hl
        by_cases hc : Conflicts s1.mem N pol
        · rw [(hA hc).1] at hok; simp at hok
        · obtain ⟨M, _, hsess, _, _, _, hsync, _⟩ := hB hc
          refine ⟨M, { s1 with mem := some M }, ?_, rfl, hn, he, (hsync rfl).1⟩
          rw [hsess]; exact set_get _ _ _ _ hs
  | expandDims sid' dim v =>
    simp only [syncedSid, Option.some.injEq] at hx; subst hx
    simp only [step, expandDims] at hok ⊢
    obtain ⟨d, d', s1, _, _, hn, he, hsess, hld⟩ := rewrite_spec st sid' s _ _ hs hok
    exact ⟨_, _, hsess, rfl, hn, he, hld⟩
  | dropSel sid' dim vs =>
    simp only [syncedSid, Option.some.injEq] at hx; subst hx
    simp only [step, dropSel] at hok ⊢
    obtain ⟨d, d', s1, _, _, hn, he, hsess, hld⟩ := rewrite_spec st sid' s _ _ hs hok
    exact ⟨_, _, hsess, rfl, hn, he, hld⟩
  | flush sid' =>
    simp only [syncedSid, Option.some.injEq] at hx; subst hx
    simp only [step, flush, hs] at hok ⊢
    cases hm : s.mem with
    | none => simp [hm] at hok
    | some d =>
      simp only []
      refine ⟨coerceAttrs s.engine d, { s with mem := some (coerceAttrs s.engine d) }, ?_, rfl, rfl, rfl, ?_⟩
      · exact set_get _ _ _ _ hs
      · rw [load_save, coerceAttrs_idem]

/-! ## `save_merge_ds` -/

theorem load_ok_iff (store : Store) (name : String) (e : Engine) (M : Dataset) :
    load store name e = .ok M ↔ ∃ f, alookup store (autoAddExt name e) = some f ∧ f.engine = e ∧ f.ds = M := by
  obtain ⟨_, h2, _⟩ := c05_name_consistent name e
  unfold load loadVia
  rw [h2]
  cases hf : alookup store (autoAddExt name e) with
  | none => simp
  | some f =>
    by_cases he : f.engine = e
    · simp [tagCodec, he]
    · simp [tagCodec, he]

/-- **`save_merge_ds`, one call**: with `old` the dataset in the file at the data path (the empty dataset when there
is no file), conflicting data under the default policy fails and leaves the store unchanged; otherwise the file then
holds, at every point, the value decided by the policy, all old and new coordinates, and no other path changed -/
theorem c05_save_merge_step (store : Store) (name : String) (e : Engine) (N old : Dataset) (pol : Policy)
    (hold : (alookup store (autoAddExt name e) = none ∧ old = {}) ∨
            alookup store (autoAddExt name e) = some ⟨e, old⟩) :
    (Conflicts (some old) N pol →
        (saveMerge store name e N pol).2 = some .conflict ∧ (saveMerge store name e N pol).1 = store) ∧
    (¬ Conflicts (some old) N pol →
        ∃ M, (saveMerge store name e N pol).2 = none ∧
          alookup (saveMerge store name e N pol).1 (autoAddExt name e) = some ⟨e, M⟩ ∧
          (∀ n p, M.get n p = policyValue pol (old.get n p) (N.get n p)) ∧
          (∀ d c, c ∈ M.coordsOf d ↔ c ∈ old.coordsOf d ∨ c ∈ N.coordsOf d) ∧
          ∀ k, k ≠ autoAddExt name e → alookup (saveMerge store name e N pol).1 k = alookup store k) := by
  obtain ⟨_, _, _, _, _, _, _, h8, h9, _⟩ := c05_name_consistent name e
  have hk : saveMergeKind pol = kindOf pol := by rw [saveMergeKind_eq]; cases pol <;> rfl
  have hold' : smOld store name e = .ok old := by
    unfold smOld
    rw [h8, h9]
    rcases hold with ⟨h, rfl⟩ | h
    · simp [shas, h]
    · have : load store name e = .ok old := (load_ok_iff _ _ _ _).mpr ⟨_, h, rfl, rfl⟩
      simp [shas, h, this]
  obtain ⟨hA, hB⟩ := mergeBy_spec pol old N
  constructor
  · intro hc
    simp [saveMerge, hold', hk, hA hc]
  · intro hc
    obtain ⟨M, hM, hget, hco⟩ := hB hc
    refine ⟨coerceAttrs e M, ?_, ?_, ?_, ?_, ?_⟩
    · simp only [saveMerge, hold', hk, hM]
    · simp only [saveMerge, hold', hk, hM]; rw [alookup_save]; simp
    · intro n p; rw [get_coerceAttrs]; exact hget n p
    · intro d c; rw [coordsOf_coerceAttrs]; exact hco d c
    · intro k hk'
      simp only [saveMerge, hold', hk, hM]
      rw [alookup_save]
      have : ¬ autoAddExt name e = k := fun h => hk' h.symm
      simp [this]

/-! ## histories: every point ever harvested stays, with the value decided by the policies -/

/-- the specification state: the decided value of every point and the coordinates ever harvested -/
structure Spec where
  val : String → Pt → Option Tok
  coord : String → Coord → Prop

def Spec.empty : Spec := ⟨fun _ _ => none, fun _ _ => False⟩
def Spec.ofDs (d : Dataset) : Spec := ⟨d.get, fun dim c => c ∈ d.coordsOf dim⟩

def Spec.conflicts (D : Spec) (N : Dataset) : Prop :=
  ∃ n p x y, D.val n p = some x ∧ N.get n p = some y ∧ x ≠ y

open Classical in
/-- one harvest of new data `N` under policy `pol`, read directly off the property: a conflicting step under the
default policy changes nothing; otherwise the policy decides every point and the coordinates are joined -/
noncomputable def Spec.step (D : Spec) (N : Dataset) (pol : Policy) : Spec :=
  if pol = .none ∧ D.conflicts N then D
  else ⟨fun n p => policyValue pol (D.val n p) (N.get n p), fun d c => D.coord d c ∨ c ∈ N.coordsOf d⟩

/-- an optional dataset holds exactly what the specification state says -/
def Agrees (od : Option Dataset) (D : Spec) : Prop :=
  (∀ n p, oget od n p = D.val n p) ∧ (∀ d c, c ∈ ocoords od d ↔ D.coord d c)

theorem agrees_conflicts (od : Option Dataset) (D : Spec) (N : Dataset) (pol : Policy) (h : Agrees od D) :
    Conflicts od N pol ↔ (pol = .none ∧ D.conflicts N) := by
  unfold Conflicts Spec.conflicts
  simp only [h.1]

theorem agrees_step (od : Option Dataset) (D : Spec) (N M : Dataset) (pol : Policy) (h : Agrees od D)
    (hc : ¬ Conflicts od N pol)
    (hget : ∀ n p, M.get n p = policyValue pol (oget od n p) (N.get n p))
    (hco : ∀ d c, c ∈ M.coordsOf d ↔ c ∈ ocoords od d ∨ c ∈ N.coordsOf d) :
    Agrees (some M) (D.step N pol) := by
  have hc' : ¬ (pol = .none ∧ D.conflicts N) := fun x => hc ((agrees_conflicts od D N pol h).mpr x)
  unfold Spec.step
  rw [if_neg hc']
  constructor
  · intro n p; simp only [oget]; rw [hget, h.1]
  · intro d c; simp only [ocoords]; rw [hco, h.2]

theorem step_of_conflict (od : Option Dataset) (D : Spec) (N : Dataset) (pol : Policy) (h : Agrees od D)
    (hc : Conflicts od N pol) : D.step N pol = D := by
  unfold Spec.step
  rw [if_pos ((agrees_conflicts od D N pol h).mp hc)]

/-- the events of a history of harvests: a new Harvester object on some spelling of the data name, a synced harvest
(`harvest_combos` / `harvest_cases` / `add_ds`) by any existing object, a `save_merge_ds` call -/
inductive Ev where
  | newSession (name : String)
  | harvest (sid : Nat) (N : Dataset) (pol : Policy)
  | saveMerge (name : String) (N : Dataset) (pol : Policy)

def Ev.toStep : Ev → Step
  | .newSession name => .newSession name
  | .harvest sid N pol => .harvest sid N pol true
  | .saveMerge name N pol => .saveMerge name N pol

noncomputable def Spec.ev (D : Spec) : Ev → Spec
  | .newSession _ => D
  | .harvest _ N pol => D.step N pol
  | .saveMerge _ N pol => D.step N pol

/-- `decided h`: the value every point should hold after history `h` — an independent left fold of the policies -/
noncomputable def decided (h : List Ev) : Spec := h.foldl Spec.ev Spec.empty

/-- every harvest is performed by a Harvester object that exists at that time -/
def validFrom : Nat → List Ev → Prop
  | _, [] => True
  | k, .newSession _ :: r => validFrom (k + 1) r
  | k, .harvest sid _ _ :: r => sid < k ∧ validFrom k r
  | k, .saveMerge _ _ _ :: r => validFrom k r

/-- every spelling of the data name used in the history resolves to the path `P` -/
def namesOk (e : Engine) (P : String) (h : List Ev) : Prop :=
  ∀ ev ∈ h, match ev with
    | .newSession name => autoAddExt name e = P
    | .saveMerge name _ _ => autoAddExt name e = P
    | .harvest _ _ _ => True

structure Inv (e : Engine) (P : String) (st : St) (D : Spec) : Prop where
  sess : ∀ s ∈ st.sessions, autoAddExt s.name e = P ∧ s.engine = e
  nofile : alookup st.store P = none →
    (∀ s ∈ st.sessions, s.mem = none) ∧ (∀ n p, D.val n p = none) ∧ (∀ d c, ¬ D.coord d c)
  file : ∀ f, alookup st.store P = some f → f.engine = e ∧ Agrees (some f.ds) D

theorem mem_set_cases {α} (l : List α) (i : Nat) (x a : α) (h : a ∈ l.set i x) : a ∈ l ∨ a = x :=
  List.mem_or_eq_of_mem_set h

theorem step_empty (D : Spec) (N : Dataset) (pol : Policy) (hv : ∀ n p, D.val n p = none) (hc : ∀ d c, ¬ D.coord d c) :
    Agrees (some N) (D.step N pol) := by
  have : ¬ (pol = .none ∧ D.conflicts N) := by
    rintro ⟨_, n, p, x, y, h1, _⟩
    rw [hv] at h1; cases h1
  unfold Spec.step
  rw [if_neg this]
  constructor
  · intro n p; simp only [oget, hv]; cases pol <;> simp [policyValue]
  · intro d c; simp [ocoords, hc]

theorem inv_harvest (e : Engine) (P : String) (st : St) (D : Spec) (sid : Nat) (N : Dataset) (pol : Policy)
    (hI : Inv e P st D) (hsid : sid < st.sessions.length) :
    Inv e P (addDs st sid N pol true).1 (D.step N pol) := by
  have hs : st.sessions[sid]? = some st.sessions[sid] := List.getElem?_eq_getElem hsid
  generalize st.sessions[sid] = s at hs
  have hmem : s ∈ st.sessions := List.mem_of_getElem? hs
  obtain ⟨hP, hE⟩ := hI.sess s hmem
  obtain ⟨_, _, h3, h4, _⟩ := c05_name_consistent s.name s.engine
  cases hf : alookup st.store P with
  | none =>
    obtain ⟨hm, hv, hc⟩ := hI.nofile hf
    have hfile : alookup st.store (autoAddExt s.name s.engine) = none := by rw [hE, hP]; exact hf
    obtain ⟨_, hld, hsess⟩ := c05_step_first st sid s N pol hs (hm s hmem) hfile
    obtain ⟨f', hf', hfe, hfd⟩ := (load_ok_iff _ _ _ _).mp hld
    rw [hE, hP] at hf'
    constructor
    · intro s' hs'
      rw [hsess] at hs'
      rcases mem_set_cases _ _ _ _ hs' with h | h
      · exact hI.sess s' h
      · subst h; exact ⟨hP, hE⟩
    · intro h; rw [hf'] at h; cases h
    · intro f hf2
      rw [hf'] at hf2; injection hf2 with hf2; subst hf2
      refine ⟨by rw [hfe, hE], ?_⟩
      rw [hfd]
      have := step_empty D N pol hv hc
      constructor
      · intro n p; simp only [oget, get_coerceAttrs]; exact this.1 n p
      · intro d c; simp only [ocoords, coordsOf_coerceAttrs]; exact this.2 d c
  | some f =>
    obtain ⟨hfe, hag⟩ := hI.file f hf
    have hfile : alookup st.store (autoAddExt s.name s.engine) = some f := by rw [hE, hP]; exact hf
    have hload : load st.store s.name s.engine = .ok f.ds :=
      (load_ok_iff _ _ _ _).mpr ⟨f, hfile, by rw [hfe, hE], rfl⟩
    have hl : preload st.store s true = .ok { s with mem := some f.ds } := by
      simp [preload, loadFull, h3, shas, hfile, hload]
    obtain ⟨hA, hB⟩ := c05_step st sid s _ N pol true hs hl
    by_cases hc : Conflicts (some f.ds) N pol
    · obtain ⟨_, hst, hsess⟩ := hA hc
      rw [step_of_conflict _ D N pol hag hc]
      constructor
      · intro s' hs'
        rw [hsess] at hs'
        rcases mem_set_cases _ _ _ _ hs' with h | h
        · exact hI.sess s' h
        · subst h; exact ⟨hP, hE⟩
      · intro h; rw [hst, hf] at h; cases h
      · intro f2 hf2; rw [hst] at hf2; exact hI.file f2 hf2
    · obtain ⟨M, _, hsess, hget, _, hco, hsync, _⟩ := hB hc
      obtain ⟨f', hf', hfe', hfd'⟩ := (load_ok_iff _ _ _ _).mp (hsync rfl).1
      rw [hE, hP] at hf'
      constructor
      · intro s' hs'
        rw [hsess] at hs'
        rcases mem_set_cases _ _ _ _ hs' with h | h
        · exact hI.sess s' h
        · subst h; exact ⟨hP, hE⟩
      · intro h; rw [hf'] at h; cases h
      · intro f2 hf2
        rw [hf'] at hf2; injection hf2 with hf2; subst hf2
        refine ⟨by rw [hfe', hE], ?_⟩
        rw [hfd']
        exact agrees_step _ D N M pol hag hc hget hco

theorem inv_saveMerge (e : Engine) (P : String) (st : St) (D : Spec) (name : String) (N : Dataset) (pol : Policy)
    (hI : Inv e P st D) (hname : autoAddExt name e = P) :
    Inv e P { st with store := (saveMerge st.store name e N pol).1 } (D.step N pol) := by
  cases hf : alookup st.store P with
  | none =>
    obtain ⟨hm, hv, hc⟩ := hI.nofile hf
    have hnc : ¬ Conflicts (some ({} : Dataset)) N pol := by
      rintro ⟨_, n, p, x, y, h1, _⟩
      simp [oget, Dataset.get_empty] at h1
    obtain ⟨_, hB⟩ := c05_save_merge_step st.store name e N {} pol (Or.inl ⟨by rw [hname]; exact hf, rfl⟩)
    obtain ⟨M, _, hfile, hget, hco, _⟩ := hB hnc
    rw [hname] at hfile
    constructor
    · exact hI.sess
    · intro h; simp only at h; rw [hfile] at h; cases h
    · intro f hf2
      simp only at hf2
      rw [hfile] at hf2; injection hf2 with hf2; subst hf2
      refine ⟨rfl, ?_⟩
      have hag0 : Agrees (some ({} : Dataset)) D := by
        constructor
        · intro n p; simp [oget, Dataset.get_empty, hv]
        · intro d c; simp [ocoords, Dataset.coordsOf_empty, hc]
      exact agrees_step _ D N M pol hag0 hnc hget hco
  | some f =>
    obtain ⟨hfe, hag⟩ := hI.file f hf
    have hfile0 : alookup st.store (autoAddExt name e) = some ⟨e, f.ds⟩ := by
      rw [hname, hf]; cases f; simp at hfe; subst hfe; rfl
    obtain ⟨hA, hB⟩ := c05_save_merge_step st.store name e N f.ds pol (Or.inr hfile0)
    by_cases hc : Conflicts (some f.ds) N pol
    · obtain ⟨_, hst⟩ := hA hc
      rw [step_of_conflict _ D N pol hag hc, hst]
      exact ⟨hI.sess, hI.nofile, hI.file⟩
    · obtain ⟨M, _, hfile, hget, hco, _⟩ := hB hc
      rw [hname] at hfile
      constructor
      · exact hI.sess
      · intro h; simp only at h; rw [hfile] at h; cases h
      · intro f2 hf2
        simp only at hf2
        rw [hfile] at hf2; injection hf2 with hf2; subst hf2
        exact ⟨rfl, agrees_step _ D N M pol hag hc hget hco⟩

theorem inv_run (e : Engine) (P : String) (evs : List Ev) :
    ∀ (st : St) (D : Spec), Inv e P st D → validFrom st.sessions.length evs → namesOk e P evs →
      Inv e P (run e st (evs.map Ev.toStep)) (evs.foldl Spec.ev D) := by
  induction evs with
  | nil => intro st D hI _ _; exact hI
  | cons ev r ih =>
    intro st D hI hv hn
    have hn' : namesOk e P r := fun x hx => hn x (List.mem_cons_of_mem _ hx)
    have hev := hn ev (List.mem_cons_self ..)
    simp only [List.map_cons, run, List.foldl_cons]
    cases ev with
    | newSession name =>
      simp only at hev
      apply ih
      · simp only [Ev.toStep, step, Spec.ev]
        constructor
        · intro s hs
          simp only [newSession, List.mem_append, List.mem_singleton] at hs
          rcases hs with h | h
          · exact hI.sess s h
          · subst h; exact ⟨hev, rfl⟩
        · intro h
          obtain ⟨h1, h2, h3⟩ := hI.nofile h
          refine ⟨?_, h2, h3⟩
          intro s hs
          simp only [newSession, List.mem_append, List.mem_singleton] at hs
          rcases hs with h | h
          · exact h1 s h
          · subst h; rfl
        · exact hI.file
      · simpa [Ev.toStep, step, newSession, validFrom] using hv
      · exact hn'
    | harvest sid N pol =>
      obtain ⟨hsid, hv'⟩ := hv
      have hI' := inv_harvest e P st D sid N pol hI hsid
      apply ih
      · simpa [Ev.toStep, step, Spec.ev] using hI'
      · have hlen : (addDs st sid N pol true).1.sessions.length = st.sessions.length := by
          unfold addDs
          split
          · rfl
          · split
            · rfl
            · split
              · simp [setSession]
              · split
                · split <;> simp [setSession]
                · simp [setSession]
        simpa [Ev.toStep, step, hlen] using hv'
      · exact hn'
    | saveMerge name N pol =>
      simp only at hev
      have hI' := inv_saveMerge e P st D name N pol hI hev
      apply ih
      · simpa [Ev.toStep, step, Spec.ev] using hI'
      · simpa [Ev.toStep, step, validFrom] using hv
      · exact hn'

/-- a decided value never disappears: harvesting other points (or the same point again) never drops a point -/
theorem step_keeps (D : Spec) (N : Dataset) (pol : Policy) (n : String) (p : Pt) (h : (D.val n p).isSome) :
    ((D.step N pol).val n p).isSome := by
  unfold Spec.step
  split
  · exact h
  · cases hd : D.val n p with
    | none => rw [hd] at h; cases h
    | some t => cases pol <;> cases hN : N.get n p <;> simp [policyValue, hd, hN]

/-- … and only `overwrite=True` can change it -/
theorem step_unaltered (D : Spec) (N : Dataset) (pol : Policy) (n : String) (p : Pt) (t : Tok)
    (h : D.val n p = some t) (hpol : pol ≠ .overwrite) : (D.step N pol).val n p = some t := by
  unfold Spec.step
  split
  · exact h
  · cases pol <;> simp_all [policyValue]

/-- **never dropped, never altered except by the policy**: for every history of new Harvester objects (any spelling of
the data name that resolves to the data path `P`), synced harvests by any of the objects — stale or not — with any
policy, and `save_merge_ds` calls: the file at `P` holds, at every point, exactly the value `decided h` obtained by
folding the overwrite policies over the history (so every point that was ever given a value is present with the
decided value, every coordinate ever harvested is a coordinate of the file, and nothing else appears) -/
theorem c05_never_dropped (e : Engine) (P : String) (h : List Ev) (hv : validFrom 0 h) (hn : namesOk e P h) :
    (∀ n p t, (decided h).val n p = some t →
        ∃ f, alookup (run e {} (h.map Ev.toStep)).store P = some f ∧ f.engine = e ∧ f.ds.get n p = some t) ∧
    (∀ d c, (decided h).coord d c →
        ∃ f, alookup (run e {} (h.map Ev.toStep)).store P = some f ∧ c ∈ f.ds.coordsOf d) ∧
    (∀ f, alookup (run e {} (h.map Ev.toStep)).store P = some f →
        (∀ n p, f.ds.get n p = (decided h).val n p) ∧ (∀ d c, c ∈ f.ds.coordsOf d ↔ (decided h).coord d c)) := by
  have hI0 : Inv e P ({} : St) Spec.empty := by
    constructor
    · intro s hs; simp at hs
    · intro _; exact ⟨by intro s hs; simp at hs, fun _ _ => rfl, fun _ _ h => h⟩
    · intro f hf; simp [alookup] at hf
  have hI := inv_run e P h {} Spec.empty hI0 (by simpa using hv) hn
  refine ⟨?_, ?_, ?_⟩
  · intro n p t ht
    cases hf : alookup (run e {} (h.map Ev.toStep)).store P with
    | none =>
      have := (hI.nofile hf).2.1 n p
      unfold decided at ht; rw [this] at ht; cases ht
    | some f =>
      obtain ⟨hfe, hag⟩ := hI.file f hf
      exact ⟨f, rfl, hfe, by have := hag.1 n p; simp only [oget] at this; rw [this]; exact ht⟩
  · intro d c hc
    cases hf : alookup (run e {} (h.map Ev.toStep)).store P with
    | none => exact absurd hc ((hI.nofile hf).2.2 d c)
    | some f =>
      obtain ⟨_, hag⟩ := hI.file f hf
      exact ⟨f, rfl, (hag.2 d c).mpr hc⟩
  · intro f hf
    obtain ⟨_, hag⟩ := hI.file f hf
    exact ⟨hag.1, hag.2⟩

/-! ## `sync=False`: a block of unsynced harvests followed by `save_full_ds()` -/

noncomputable def foldBlock (D : Spec) (block : List (Dataset × Policy)) : Spec :=
  block.foldl (fun D b => D.step b.1 b.2) D

theorem run_cons (e : Engine) (st : St) (x : Step) (r : List Step) : run e st (x :: r) = run e (step e st x).1 r := rfl
theorem run_nil (e : Engine) (st : St) : run e st [] = st := rfl
theorem run_append (e : Engine) (st : St) (a b : List Step) : run e st (a ++ b) = run e (run e st a) b := by
  simp [run, List.foldl_append]
theorem step_harvest (e : Engine) (st : St) (sid : Nat) (N : Dataset) (pol : Policy) (sync : Bool) :
    step e st (.harvest sid N pol sync) = addDs st sid N pol sync := rfl
theorem step_flush (e : Engine) (st : St) (sid : Nat) : step e st (.flush sid) = flush st sid := rfl
theorem foldBlock_cons (D : Spec) (b : Dataset × Policy) (r : List (Dataset × Policy)) :
    foldBlock D (b :: r) = foldBlock (D.step b.1 b.2) r := rfl

theorem unsynced_steps (e : Engine) (sid : Nat) (block : List (Dataset × Policy)) :
    ∀ (st : St) (s : Session) (d : Dataset) (D : Spec), st.sessions[sid]? = some s → s.mem = some d →
      Agrees (some d) D →
      ∃ s' d', (run e st (block.map fun b => Step.harvest sid b.1 b.2 false)).sessions[sid]? = some s' ∧
        s'.name = s.name ∧ s'.engine = s.engine ∧ s'.mem = some d' ∧ Agrees (some d') (foldBlock D block) ∧
        (run e st (block.map fun b => Step.harvest sid b.1 b.2 false)).store = st.store := by
  induction block with
  | nil => intro st s d D hs hm hag; exact ⟨s, d, hs, rfl, rfl, hm, hag, rfl⟩
  | cons b r ih =>
    intro st s d D hs hm hag
    simp only [List.map_cons, run_cons, step_harvest, foldBlock_cons]
    have hl : preload st.store s false = .ok s := by simp [preload]
    obtain ⟨hA, hB⟩ := c05_step st sid s s b.1 b.2 false hs hl
    rw [hm] at hA hB
    by_cases hc : Conflicts (some d) b.1 b.2
    · obtain ⟨_, hst, hsess⟩ := hA hc
      have hs1 : (addDs st sid b.1 b.2 false).1.sessions[sid]? = some s := by rw [hsess]; exact set_get _ _ _ _ hs
      obtain ⟨s', d', h1, h2, h3, h4, h5, h6⟩ := ih (addDs st sid b.1 b.2 false).1 s d D hs1 hm hag
      rw [step_of_conflict _ D b.1 b.2 hag hc]
      exact ⟨s', d', h1, h2, h3, h4, h5, by rw [h6, hst]⟩
    · obtain ⟨M, _, hsess, hget, _, hco, _, hns⟩ := hB hc
      have hs1 : (addDs st sid b.1 b.2 false).1.sessions[sid]? = some { s with mem := some M } := by
        rw [hsess]; exact set_get _ _ _ _ hs
      obtain ⟨s', d', h1, h2, h3, h4, h5, h6⟩ :=
        ih (addDs st sid b.1 b.2 false).1 { s with mem := some M } M (D.step b.1 b.2) hs1 rfl
          (agrees_step _ D b.1 M b.2 hag hc hget hco)
      exact ⟨s', d', h1, h2, h3, h4, h5, by rw [h6, hns rfl]⟩

/-- **sync=False is a deferred save**: for a Harvester holding dataset `d0`, any block of unsynced harvests followed
by `save_full_ds()` leaves in memory and on disk one dataset that holds, at every point, the value obtained by folding
the policies over the block starting from `d0` (the same fold that synced harvests realise step by step) -/
theorem c05_unsynced_block (e : Engine) (st : St) (sid : Nat) (s : Session) (d0 : Dataset)
    (block : List (Dataset × Policy)) (hs : st.sessions[sid]? = some s) (hm : s.mem = some d0) :
    ∃ M s', (run e st ((block.map fun b => Step.harvest sid b.1 b.2 false) ++ [.flush sid])).sessions[sid]? = some s' ∧
      s'.mem = some M ∧
      load (run e st ((block.map fun b => Step.harvest sid b.1 b.2 false) ++ [.flush sid])).store s.name s.engine = .ok M ∧
      Agrees (some M) (foldBlock (Spec.ofDs d0) block) := by
  have hag0 : Agrees (some d0) (Spec.ofDs d0) := ⟨fun _ _ => rfl, fun _ _ => Iff.rfl⟩
  obtain ⟨s', d', h1, h2, h3, h4, h5, _⟩ := unsynced_steps e sid block st s d0 _ hs hm hag0
  simp only [run_append, run_cons, run_nil, step_flush]
  simp only [flush, h1, h4]
  refine ⟨coerceAttrs s'.engine d', _, set_get _ _ _ _ h1, rfl, ?_, ?_⟩
  · rw [← h2, ← h3, load_save, coerceAttrs_idem]
  · constructor
    · intro n p; simp only [oget, get_coerceAttrs]; exact h5.1 n p
    · intro d c; simp only [ocoords, coordsOf_coerceAttrs]; exact h5.2 d c

/-! ## known finding F1: `sync=False` then `sync=True` -/

/-- what happens without the save in between: for a Harvester in sync with its file (`d0` in memory and on disk),
an unsynced harvest of `N1` followed by a synced harvest of `N2`: a point that only `N1` provided is in memory after
the first step and gone — from memory and from disk — after the second (the synced step reloads the file) -/
theorem unsynced_then_synced_drops (st : St) (sid : Nat) (s : Session) (d0 N1 N2 : Dataset) (pol1 pol2 : Policy)
    (hs : st.sessions[sid]? = some s) (hm : s.mem = some d0)
    (hfile : alookup st.store (autoAddExt s.name s.engine) = some ⟨s.engine, d0⟩)
    (hc1 : ¬ Conflicts (some d0) N1 pol1) (hc2 : ¬ Conflicts (some d0) N2 pol2)
    (n : String) (p : Pt) (t : Tok) (h1 : N1.get n p = some t) (h0 : d0.get n p = none) (h2 : N2.get n p = none) :
    (∃ s1 M1, (addDs st sid N1 pol1 false).1.sessions[sid]? = some s1 ∧ s1.mem = some M1 ∧ M1.get n p = some t) ∧
    (∃ s2 M2, (addDs (addDs st sid N1 pol1 false).1 sid N2 pol2 true).1.sessions[sid]? = some s2 ∧
        s2.mem = some M2 ∧ M2.get n p = none ∧
        load (addDs (addDs st sid N1 pol1 false).1 sid N2 pol2 true).1.store s.name s.engine = .ok M2) := by
  obtain ⟨_, _, h3, _⟩ := c05_name_consistent s.name s.engine
  have hl : preload st.store s false = .ok s := by simp [preload]
  obtain ⟨_, hB⟩ := c05_step st sid s s N1 pol1 false hs hl
  rw [hm] at hB
  obtain ⟨M1, _, hsess, hget, _, _, _, hns⟩ := hB hc1
  have hs1 : (addDs st sid N1 pol1 false).1.sessions[sid]? = some { s with mem := some M1 } := by
    rw [hsess]; exact set_get _ _ _ _ hs
  have hM1 : M1.get n p = some t := by
    rw [hget, h1]; simp only [oget, h0]; cases pol1 <;> rfl
  refine ⟨⟨_, M1, hs1, rfl, hM1⟩, ?_⟩
  have hstore : (addDs st sid N1 pol1 false).1.store = st.store := hns rfl
  have hload : load st.store s.name s.engine = .ok d0 := (load_ok_iff _ _ _ _).mpr ⟨_, hfile, rfl, rfl⟩
  have hl2 : preload (addDs st sid N1 pol1 false).1.store { s with mem := some M1 } true
      = .ok { s with mem := some d0 } := by
    simp [preload, loadFull, h3, shas, hstore, hfile, hload]
  obtain ⟨_, hB2⟩ := c05_step _ sid _ _ N2 pol2 true hs1 hl2
  obtain ⟨M2, _, hsess2, hget2, _, _, hsync, _⟩ := hB2 hc2
  refine ⟨_, M2, by rw [hsess2]; exact set_get _ _ _ _ hs1, rfl, ?_, (hsync rfl).1⟩
  rw [hget2, h2]; simp only [oget, h0]; cases pol2 <;> rfl

/-- **F1 (known finding) as a theorem about the model**: there is a state with one Harvester in sync with its file,
and two harvests of disjoint points — the first with `sync=False`, the second with `sync=True` — after which the
point harvested first is neither in memory nor on disk. This is why `c05_never_dropped` ranges over synced harvests
and `c05_unsynced_block` requires the save before the next synced step. -/
theorem c05_unsynced_then_synced_counterexample (e : Engine) (name var dim : String) :
    ∃ (st : St) (N1 N2 : Dataset) (p : Pt) (t : Tok) (s : Session),
      st.sessions[0]? = some s ∧ s.mem = some {} ∧ load st.store name e = .ok {} ∧
      N1.get var p = some t ∧
      (∃ s1 M1, (addDs st 0 N1 .none false).1.sessions[0]? = some s1 ∧ s1.mem = some M1 ∧ M1.get var p = some t) ∧
      (∃ s2 M2, (addDs (addDs st 0 N1 .none false).1 0 N2 .none true).1.sessions[0]? = some s2 ∧
          s2.mem = some M2 ∧ M2.get var p = none ∧
          load (addDs (addDs st 0 N1 .none false).1 0 N2 .none true).1.store name e = .ok M2) := by
  let s : Session := { name := name, engine := e, mem := some {} }
  let st : St := { store := [(autoAddExt name e, ⟨e, {}⟩)], sessions := [s] }
  let N1 : Dataset := { coords := [(dim, [1])], vars := [(var, { dims := [dim], cells := [([(dim, 1)], .v 7)] })] }
  let N2 : Dataset := { coords := [(dim, [2])], vars := [(var, { dims := [dim], cells := [([(dim, 2)], .v 8)] })] }
  have hfile : alookup st.store (autoAddExt s.name s.engine) = some ⟨s.engine, {}⟩ := by simp [st, s, alookup]
  have hnc : ∀ N pol, ¬ Conflicts (some ({} : Dataset)) N pol := by
    rintro N pol ⟨_, n, p, x, y, h1, _⟩
    simp [oget, Dataset.get_empty] at h1
  have h1 : N1.get var [(dim, 1)] = some (.v 7) := by
    simp [N1, Dataset.get, Dataset.cellsOf, alookup, cget]
  have h2 : N2.get var [(dim, 1)] = none := by
    simp [N2, Dataset.get, Dataset.cellsOf, alookup, cget]
  obtain ⟨hA, hB⟩ := unsynced_then_synced_drops st 0 s {} N1 N2 .none .none rfl rfl hfile (hnc _ _) (hnc _ _)
    var [(dim, 1)] (.v 7) h1 rfl h2
  exact ⟨st, N1, N2, [(dim, 1)], .v 7, s, rfl, rfl, (load_ok_iff _ _ _ _).mpr ⟨_, hfile, rfl, rfl⟩, h1, hA, hB⟩

/-! ## `expand_dims` and `drop_sel` -/

/-- no non-null point of the dataset mentions dimension `k` -/
def dimFree (d : Dataset) (k : String) : Prop :=
  ∀ n v, alookup d.vars n = some v → ∀ c ∈ v.cells, alookup c.1 k = none

def eraseKey (k : String) : Pt → Pt
  | [] => []
  | (k', c) :: r => if k' = k then r else (k', c) :: eraseKey k r

theorem eraseKey_insertKey (k : String) (c : Coord) (p : Pt) (h : alookup p k = none) :
    eraseKey k (insertKey k c p) = p := by
  induction p with
  | nil => simp [insertKey, eraseKey]
  | cons e r ih =>
    obtain ⟨k', c'⟩ := e
    simp only [alookup] at h
    split at h
    · cases h
    · rename_i hk
      simp only [insertKey]
      split
      · simp [eraseKey]
      · simp [eraseKey, hk, ih h]

theorem alookup_insertKey (k : String) (c : Coord) (p : Pt) (h : alookup p k = none) :
    alookup (insertKey k c p) k = some c := by
  induction p with
  | nil => simp [insertKey, alookup]
  | cons e r ih =>
    obtain ⟨k', c'⟩ := e
    simp only [alookup] at h
    split at h
    · cases h
    · rename_i hk
      simp only [insertKey]
      split
      · simp [alookup]
      · simp [alookup, hk, ih h]

theorem cget_map_insertKey (k : String) (c : Coord) (cells : Cells) (p : Pt)
    (hc : ∀ e ∈ cells, alookup e.1 k = none) (hp : alookup p k = none) :
    cget (cells.map fun e => (insertKey k c e.1, e.2)) (insertKey k c p) = cget cells p := by
  induction cells with
  | nil => rfl
  | cons e r ih =>
    obtain ⟨q, t⟩ := e
    have hq : alookup q k = none := hc (q, t) (List.mem_cons_self ..)
    have ih' := ih (fun e he => hc e (List.mem_cons_of_mem _ he))
    simp only [List.map_cons, cget]
    by_cases h : q = p
    · subst h; simp
    · have : ¬ insertKey k c q = insertKey k c p := by
        intro heq
        apply h
        have := congrArg (eraseKey k) heq
        rwa [eraseKey_insertKey k c q hq, eraseKey_insertKey k c p hp] at this
      simp [h, this, ih']

theorem alookup_insertCoordDim_self (k : String) (cs : List Coord) (l : List (String × List Coord))
    (h : alookup l k = none) : alookup (insertCoordDim k cs l) k = some cs := by
  induction l with
  | nil => simp [insertCoordDim, alookup]
  | cons e r ih =>
    obtain ⟨k', c'⟩ := e
    simp only [alookup] at h
    split at h
    · cases h
    · rename_i hk
      simp only [insertCoordDim]
      split
      · simp [alookup]
      · simp [alookup, hk, ih h]

theorem alookup_insertCoordDim_other (k dim : String) (cs : List Coord) (l : List (String × List Coord))
    (h : dim ≠ k) : alookup (insertCoordDim k cs l) dim = alookup l dim := by
  have hk : ¬ k = dim := fun x => h x.symm
  induction l with
  | nil => simp [insertCoordDim, alookup, hk]
  | cons e r ih =>
    obtain ⟨k', c'⟩ := e
    simp only [insertCoordDim]
    split
    · simp [alookup, hk]
    · simp only [alookup, ih]

/-- **`expand_dims(name, value)` only relabels**: every point keeps its value under the new label (the old point with
coordinate `value` added along `name`), nothing exists at any other coordinate of `name`, and the other coordinates
are unchanged -/
theorem c05_expand_relabels (d d' : Dataset) (k : String) (c : Coord) (h : d.expandDims k c = some d')
    (hfree : dimFree d k) :
    (∀ n p, alookup p k = none → d'.get n (insertKey k c p) = d.get n p) ∧
    (∀ n q t, d'.get n q = some t → alookup q k = some c) ∧
    d'.coordsOf k = [c] ∧ (∀ dim, dim ≠ k → d'.coordsOf dim = d.coordsOf dim) := by
  unfold Dataset.expandDims at h
  split at h
  · cases h
  · rename_i hk
    injection h with h; subst h
    have hk' : alookup d.coords k = none := by
      cases hx : alookup d.coords k with
      | none => rfl
      | some v => simp [hx] at hk
    have hv : ∀ n, alookup (d.vars.map fun e =>
        (e.1, ({ dims := insertDim k e.2.dims, cells := e.2.cells.map fun c' => (insertKey k c c'.1, c'.2) } : Var))) n
        = (alookup d.vars n).map fun v =>
            ({ dims := insertDim k v.dims, cells := v.cells.map fun c' => (insertKey k c c'.1, c'.2) } : Var) := by
      intro n
      exact alookup_map_val (fun _ (v : Var) =>
        ({ dims := insertDim k v.dims, cells := v.cells.map fun c' => (insertKey k c c'.1, c'.2) } : Var)) d.vars n
    refine ⟨?_, ?_, ?_, ?_⟩
    · intro n p hp
      simp only [Dataset.get, Dataset.cellsOf, hv]
      cases hn : alookup d.vars n with
      | none => simp [cget]
      | some v =>
        simp only [Option.map_some, Option.getD_some]
        exact cget_map_insertKey k c v.cells p (hfree n v hn) hp
    · intro n q t hq
      simp only [Dataset.get, Dataset.cellsOf, hv] at hq
      cases hn : alookup d.vars n with
      | none => simp [hn, cget] at hq
      | some v =>
        simp only [hn, Option.map_some, Option.getD_some] at hq
        have := cget_mem _ _ _ hq
        simp only [List.mem_map] at this
        obtain ⟨e, he, heq⟩ := this
        injection heq with h1 h2
        rw [← h1]
        exact alookup_insertKey k c e.1 (hfree n v hn e he)
    · simp [Dataset.coordsOf, alookup_insertCoordDim_self k [c] d.coords hk']
    · intro dim hd
      simp [Dataset.coordsOf, alookup_insertCoordDim_other k dim [c] d.coords hd]

/-- **`drop_sel` drops only what was named**: a point keeps its value unless its coordinate along `dim` is one of the
dropped labels (`keepsPt`); the coordinate list of `dim` loses exactly the dropped labels; other dimensions are
unchanged -/
theorem c05_drop_sel_only_dropped (d d' : Dataset) (dim : String) (vals : List Coord)
    (h : d.dropSel dim vals = some d') :
    (∀ n p, d'.get n p = if keepsPt dim vals p then d.get n p else none) ∧
    (∀ c, c ∈ d'.coordsOf dim ↔ c ∈ d.coordsOf dim ∧ c ∉ vals) ∧
    (∀ k, k ≠ dim → d'.coordsOf k = d.coordsOf k) := by
  unfold Dataset.dropSel at h
  split at h
  · cases h
  · rename_i cs hcs
    split at h
    · injection h with h; subst h
      have hv : ∀ n, alookup (d.vars.map fun e =>
          (e.1, ({ dims := e.2.dims, cells := e.2.cells.filter fun c => keepsPt dim vals c.1 } : Var))) n
          = (alookup d.vars n).map fun v =>
              ({ dims := v.dims, cells := v.cells.filter fun c => keepsPt dim vals c.1 } : Var) := by
        intro n
        exact alookup_map_val (fun _ (v : Var) =>
          ({ dims := v.dims, cells := v.cells.filter fun c => keepsPt dim vals c.1 } : Var)) d.vars n
      have hc : ∀ k, alookup (d.coords.map fun e => (e.1, dropCoords dim vals e.1 e.2)) k
          = (alookup d.coords k).map (dropCoords dim vals k) := by
        intro k
        exact alookup_map_val (dropCoords dim vals) d.coords k
      refine ⟨?_, ?_, ?_⟩
      · intro n p
        simp only [Dataset.get, Dataset.cellsOf, hv]
        cases hn : alookup d.vars n with
        | none => simp [cget]
        | some v =>
          simp only [Option.map_some, Option.getD_some]
          exact cget_filter_key (keepsPt dim vals) v.cells p
      · intro c
        simp only [Dataset.coordsOf, hc, hcs]
        simp [dropCoords]
      · intro k hk
        simp only [Dataset.coordsOf, hc]
        cases alookup d.coords k <;> simp [dropCoords, hk]
    · cases h

/-! ## Non-vacuity -/

section Examples

def exOld : Dataset :=
  { coords := [("a", [1, 2])], vars := [("x", { dims := ["a"], cells := [([("a", 1)], .v 11), ([("a", 2)], .v 21)] })] }
def exNew : Dataset :=
  { coords := [("a", [2, 3])], vars := [("x", { dims := ["a"], cells := [([("a", 2)], .v 1021), ([("a", 3)], .v 31)] })] }

-- the three policies really differ on overlapping, conflicting data
example : Conflicts (some exOld) exNew .none :=
  ⟨rfl, "x", [("a", 2)], .v 21, .v 1021, by simp [oget, exOld, Dataset.get, Dataset.cellsOf, alookup, cget],
    by simp [exNew, Dataset.get, Dataset.cellsOf, alookup, cget], by simp⟩
example : ¬ Conflicts (some exOld) exNew .overwrite := fun h => by cases h.1
example : policyValue .overwrite (some (.v 21)) (some (.v 1021)) = some (.v 1021) := rfl
example : policyValue .keep (some (.v 21)) (some (.v 1021)) = some (.v 21) := rfl
example : policyValue .none (some (.v 21)) none = some (.v 21) := rfl
example : policyValue .none none (some (.v 31)) = some (.v 31) := rfl
-- `decided` is not constant: one harvest of `exOld` decides its points
example : (decided [.newSession "h1", .harvest 0 exOld .none]).val "x" [("a", 1)] = some (.v 11) := by
  have hnc : ¬ (Policy.none = Policy.none ∧ Spec.empty.conflicts exOld) := by
    rintro ⟨_, n, p, x, y, h1, _⟩; cases h1
  simp only [decided, List.foldl_cons, List.foldl_nil, Spec.ev, Spec.step, if_neg hnc]
  simp [policyValue, Spec.empty, exOld, Dataset.get, Dataset.cellsOf, alookup, cget]
-- the hypotheses of `c05_never_dropped` are satisfiable
example : validFrom 0 [.newSession "h1", .harvest 0 exOld .none, .newSession "h1.h5", .harvest 1 exNew .keep] := by
  simp [validFrom]

end Examples

end Harvest
