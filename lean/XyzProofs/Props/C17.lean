import XyzProofs.Lemmas.PlotPrep
/-!
# C17 — classic line, scatter, histogram and heat-map plots draw exactly the data  (partial claim)

The theorems are about the executable model `XyzModel/PlotPrep.lean` of the data preparation (slice selection,
broadcast + C-order flattening, the finite mask, carried variables, histogram value selection, heat-map cell placement,
panel placement and titles, which quantity drives a colour, the legend/colour-bar decision).  The model is tied to the
code by extraction of the mask expression and of the auto-legend bound and by differential execution of every drawn
artist (harness/props/c17.py).  matplotlib rendering, bin/colour numerics and xarray indexing are validated by
execution only.
-/
namespace PlotPrep
open List

/-! ### one series per z value / variable, in order, labelled with it -/

/-- **count, order, labels**: a line/scatter/histogram panel holds exactly one series per entry of the z values, in
their order, labelled `str(z)` of the z coordinate (resp. the variable name; no label for a single series) -/
theorem c17_series_count_order_labels (vw : View) (call : Call) (h : call.kind ≠ .heatmap) :
    (plotSingle vw call).series.length = (prepareZVals vw.ds call).length ∧
    (plotSingle vw call).series.map (·.label) = prepareZLabels (prepareZVals vw.ds call) ∧
    (∀ z, call.z = some z → (plotSingle vw call).series.map (·.label) = (vw.ds.labels z).map some) ∧
    (call.z = none → call.multi = true →
      (plotSingle vw call).series.map (·.label) = (if call.kind = .histogram then call.x else call.y).map some) ∧
    (call.z = none → call.multi = false → (plotSingle vw call).series.map (·.label) = [none]) := by
  have hl : (plotSingle vw call).series.map (·.label) = prepareZLabels (prepareZVals vw.ds call) := by
    rw [series_plotSingle vw call h]
    split
    · exact hist_labels ..
    · exact xySeries_labels ..
  refine ⟨?_, hl, ?_, ?_, ?_⟩
  · have := congrArg length hl
    simpa [prepareZLabels] using this
  · intro z hz
    rw [hl]
    simp only [prepareZVals, hz, prepareZLabels]
    apply ext_getElem <;> simp
  · intro hz hm
    rw [hl]
    simp only [prepareZVals, hz, hm, prepareZLabels, if_true, map_map]
    split <;> simp_all [Function.comp_def]
  · intro hz hm
    rw [hl]
    simp [prepareZVals, hz, hm, prepareZLabels]

/-! ### the points of a series -/

/-- **points**: the drawn (x, y) pairs of a series are exactly the pairs of its slice where both are finite, in the
slice's order -/
theorem c17_points (vw : View) (call : Call) (xn yn : String) (carry : Bool) (lab : Option String) :
    ((mkSeries vw call xn yn carry lab).x).zip ((mkSeries vw call xn yn carry lab).y) =
      ((sliceXs vw call xn yn carry).zip (sliceYs vw call xn yn carry)).filter
        fun p => p.1.isFinite && p.2.isFinite := by
  rw [(xy_mkSeries vw call xn yn carry lab).1, (xy_mkSeries vw call xn yn carry lab).2, applyMask_zipWith_zip]
  simp only [Gen.maskIsBothFinite, Gen.Default.maskIsBothFinite]

/-- **carried variables**: c / y_err / x_err go through the same mask, so the k-th carried value belongs to the k-th
drawn point -/
theorem c17_points_carried (vw : View) (call : Call) (xn yn : String) (lab : Option String) :
    (∀ n, call.yErr = some n → ∃ ye, (mkSeries vw call xn yn true lab).ye = some ye ∧
      (((mkSeries vw call xn yn true lab).x).zip ((mkSeries vw call xn yn true lab).y)).zip ye =
        (((sliceXs vw call xn yn true).zip (sliceYs vw call xn yn true)).zip (sliceOf vw call xn yn true n)).filter
          fun t => t.1.1.isFinite && t.1.2.isFinite) ∧
    (∀ n, call.xErr = some n → ∃ xe, (mkSeries vw call xn yn true lab).xe = some xe ∧
      (((mkSeries vw call xn yn true lab).x).zip ((mkSeries vw call xn yn true lab).y)).zip xe =
        (((sliceXs vw call xn yn true).zip (sliceYs vw call xn yn true)).zip (sliceOf vw call xn yn true n)).filter
          fun t => t.1.1.isFinite && t.1.2.isFinite) ∧
    (∀ n, call.kind = .scatter → call.c = some n → ∃ c, (mkSeries vw call xn yn true lab).c = some c ∧
      (((mkSeries vw call xn yn true lab).x).zip ((mkSeries vw call xn yn true lab).y)).zip c =
        (((sliceXs vw call xn yn true).zip (sliceYs vw call xn yn true)).zip (sliceOf vw call xn yn true n)).filter
          fun t => t.1.1.isFinite && t.1.2.isFinite) := by
  obtain ⟨hye, hxe, hc⟩ := carried_mkSeries vw call xn yn lab
  obtain ⟨hx, hy⟩ := xy_mkSeries vw call xn yn true lab
  have key : ∀ n, ((applyMask (zipWith (fun a b => Gen.maskIsBothFinite a.isFinite b.isFinite) (sliceXs vw call xn yn true) (sliceYs vw call xn yn true)) (sliceXs vw call xn yn true)).zip
        (applyMask (zipWith (fun a b => Gen.maskIsBothFinite a.isFinite b.isFinite) (sliceXs vw call xn yn true) (sliceYs vw call xn yn true)) (sliceYs vw call xn yn true))).zip
        (applyMask (zipWith (fun a b => Gen.maskIsBothFinite a.isFinite b.isFinite) (sliceXs vw call xn yn true) (sliceYs vw call xn yn true)) (sliceOf vw call xn yn true n)) =
      (((sliceXs vw call xn yn true).zip (sliceYs vw call xn yn true)).zip (sliceOf vw call xn yn true n)).filter
          fun t => t.1.1.isFinite && t.1.2.isFinite := by
    intro n
    rw [applyMask_zipWith_zip₃]
    simp only [Gen.maskIsBothFinite, Gen.Default.maskIsBothFinite]
  refine ⟨?_, ?_, ?_⟩
  · intro n hn
    refine ⟨_, by rw [hye, hn]; rfl, ?_⟩
    rw [hx, hy]; exact key n
  · intro n hn
    refine ⟨_, by rw [hxe, hn]; rfl, ?_⟩
    rw [hx, hy]; exact key n
  · intro n hk hn
    refine ⟨_, by rw [hc hk, hn]; rfl, ?_⟩
    rw [hx, hy]; exact key n

/-- **the mask is made of x and y alone**: the arrays whose finiteness enters `not_null` are `data['x']` and `data['y']`
(read off the source), so whatever error / colour variables are carried along and whatever they hold, the drawn
points are the same as without them (`carry := false`) whenever the carried variables bring no new dimension -/
theorem c17_mask_arrays : Gen.maskArrays = ["x", "y"] := by
  simp only [Gen.maskArrays, Gen.Default.maskArrays]

theorem c17_mask_ignores_carried (vw : View) (call : Call) (xn yn : String) (carry : Bool) (bd : List String)
    (xs ys : List Cell) :
    notNull vw bd xs ys (extraMaskNames call xn yn carry) = zipWith (fun a b => a.isFinite && b.isFinite) xs ys := by
  rw [notNull_mkSeries]
  simp only [Gen.maskIsBothFinite, Gen.Default.maskIsBothFinite]

/-- a point with finite x and y is drawn even if its error / colour value is not finite: the k-th position of the slice
is kept iff x and y are finite there, and the carried value kept with it is whatever the variable holds (`c17_points_carried`) -/
theorem c17_point_kept_iff (vw : View) (call : Call) (xn yn : String) (carry : Bool) (bd : List String)
    (xs ys : List Cell) (k : Nat) (hx : k < xs.length) (hy : k < ys.length) :
    (notNull vw bd xs ys (extraMaskNames call xn yn carry))[k]? = some (xs[k].isFinite && ys[k].isFinite) := by
  rw [c17_mask_ignores_carried]
  simp [getElem?_zipWith, getElem?_eq_getElem hx, getElem?_eq_getElem hy]

/-- membership / order form of `c17_points`: a pair is drawn iff it is a pair of the slice with both parts finite;
drawn pairs keep the slice's order; every drawn value is finite -/
theorem c17_points_mem (vw : View) (call : Call) (xn yn : String) (carry : Bool) (lab : Option String) :
    (∀ a b, (a, b) ∈ ((mkSeries vw call xn yn carry lab).x).zip ((mkSeries vw call xn yn carry lab).y) ↔
      (a, b) ∈ (sliceXs vw call xn yn carry).zip (sliceYs vw call xn yn carry) ∧ a.isFinite = true ∧ b.isFinite = true) ∧
    (((mkSeries vw call xn yn carry lab).x).zip ((mkSeries vw call xn yn carry lab).y)).Sublist
      ((sliceXs vw call xn yn carry).zip (sliceYs vw call xn yn carry)) := by
  rw [c17_points]
  refine ⟨?_, filter_sublist⟩
  intro a b
  simp [mem_filter]

/-- **all-NaN series**: a slice without a single finite pair is drawn as an empty series (and still counted and
labelled, by `c17_series_count_order_labels`) -/
theorem c17_all_nan_series_empty (vw : View) (call : Call) (xn yn : String) (carry : Bool) (lab : Option String)
    (h : ∀ p ∈ (sliceXs vw call xn yn carry).zip (sliceYs vw call xn yn carry),
      (p.1.isFinite && p.2.isFinite) = false) :
    (mkSeries vw call xn yn carry lab).x = [] ∧ (mkSeries vw call xn yn carry lab).y = [] := by
  have hm : ∀ b ∈ zipWith (fun a b => Gen.maskIsBothFinite a.isFinite b.isFinite)
      (sliceXs vw call xn yn carry) (sliceYs vw call xn yn carry), b = false := by
    intro b hb
    obtain ⟨p, hp, rfl⟩ := mem_zipWith_zip _ _ _ _ hb
    have := h p hp
    simpa only [Gen.maskIsBothFinite, Gen.Default.maskIsBothFinite] using this
  rw [(xy_mkSeries vw call xn yn carry lab).1, (xy_mkSeries vw call xn yn carry lab).2]
  exact ⟨applyMask_all_false _ _ hm, applyMask_all_false _ _ hm⟩

/-! ### histogram -/

/-- **histogram**: each series bins exactly the finite values of its slice (each once, in order) -/
theorem c17_hist_values (vw : View) (call : Call) (zs : List ZVal) :
    (prepareHistogram vw call zs).length = zs.length ∧
    ∀ k (h : k < zs.length) (h' : k < (prepareHistogram vw call zs).length),
      (prepareHistogram vw call zs)[k].x = (histCells vw call zs[k]).filter Cell.isFinite ∧
      (∀ c, c ∈ (prepareHistogram vw call zs)[k].x ↔ c ∈ histCells vw call zs[k] ∧ c.isFinite = true) ∧
      ((prepareHistogram vw call zs)[k].x).Sublist (histCells vw call zs[k]) := by
  refine ⟨by simp [prepareHistogram], ?_⟩
  intro k h h'
  have hx : (prepareHistogram vw call zs)[k].x = (histCells vw call zs[k]).filter Cell.isFinite := by
    simp only [prepareHistogram, getElem_map]
    rfl
  rw [hx]
  exact ⟨rfl, fun c => by simp [mem_filter], filter_sublist⟩

/-! ### heat map -/

/-- **heat map**: row `j`, column `i` of the mesh shows z at (x_i, y_j) (non-finite values masked); the mesh has one
row per y coordinate and one column per x coordinate -/
theorem c17_heatmap_mesh (vw : View) (call : Call) :
    (prepareHeatmap vw call).length = vw.ds.size call.y1 ∧
    (∀ j (hj : j < (prepareHeatmap vw call).length), (prepareHeatmap vw call)[j].length = vw.ds.size call.x1) ∧
    (∀ j i (hj : j < (prepareHeatmap vw call).length) (hi : i < (prepareHeatmap vw call)[j].length),
      (prepareHeatmap vw call)[j][i] =
        maskInvalid (vw.ds.cell (call.z.getD "") ((call.x1, i) :: (call.y1, j) :: vw.fixed))) := by
  refine ⟨by simp [prepareHeatmap], ?_, ?_⟩
  · intro j hj; simp [prepareHeatmap]
  · intro j i hj hi; simp [prepareHeatmap]

/-! ### panels -/

/-- **panels**: the panel at grid position (i, j) shows the plot of the slice (row = i-th row coordinate, col = j-th
column coordinate); the top row is titled with the column coordinate and the last column labelled with the row
coordinate; the grid has one row per row coordinate and one column per column coordinate -/
theorem c17_panels (ds : DS) (call : Call) (i j : Nat)
    (hi : i < nRows ds call.row) (hj : j < nCols ds call.col) :
    (plot ds call).panels.length = nRows ds call.row ∧
    ∃ p, (((plot ds call).panels)[i]?).bind (·[j]?) = some p ∧ p.i = i ∧ p.j = j ∧
      p.series = (plotSingle { ds := ds, fixed := gridFixed call.row call.col i j } call).series ∧
      p.mesh = (plotSingle { ds := ds, fixed := gridFixed call.row call.col i j } call).mesh ∧
      p.title = gridTitle ds call i j ∧
      p.rlabel = gridRowLabel ds call i j (nCols ds call.col) := by
  have hshape := calcRowCol_shape ds call.row call.col
  refine ⟨by simp [plot, hshape.1], ?_⟩
  have hg := calcRowCol_get ds call.row call.col i j hi hj
  have hi' : i < (calcRowCol ds call.row call.col).length := by rw [hshape.1]; exact hi
  have hrow : (calcRowCol ds call.row call.col)[i]? = some (calcRowCol ds call.row call.col)[i] := getElem?_eq_getElem hi'
  rw [hrow] at hg
  simp only [Option.bind_some] at hg
  have hncols : ((calcRowCol ds call.row call.col).headD []).length = nCols ds call.col := by
    cases hc : calcRowCol ds call.row call.col with
    | nil => rw [hc] at hi'; simp at hi'
    | cons r rs => simpa [hc] using hshape.2 r (by simp [hc])
  refine ⟨panelOf ds call (nCols ds call.col) (i, j, gridFixed call.row call.col i j), ?_, rfl, rfl, rfl, rfl, rfl, rfl⟩
  simp only [plot, getElem?_map, hrow, Option.map_some, Option.bind_some, hg, hncols]

/-! ### colours -/

/-- **colour structure** (any number of series): with `colors=True` the k-th series is coloured by the colour map at the
normalised value of *its own* z coordinate (at the relative position `k/(n-1)` for a non-numeric coordinate); with
`c=` (lineplot) by the colour map at the normalised value of the `c` variable in *its own* slice -/
theorem c17_colour_structure_partial {Q C : Type} (cmap : Q → C) (norm : Cell → Q) (ofRat : Rat → Q)
    (vw : View) (call : Call) (zs : List ZVal) :
    (xySeries vw call zs).length = zs.length ∧
    ∀ k (h : k < zs.length) (h' : k < (xySeries vw call zs).length),
      ((xySeries vw call zs)[k].q = quantOf vw call zs[k] zs.length) ∧
      (∀ z i l, call.c = none → call.colors = .auto → call.z = some z → zs[k] = .coord i l →
        ((xySeries vw call zs)[k].q).map (colourOf cmap norm ofRat) =
          some (if call.zstr then cmap (ofRat (linspace01 i zs.length)) else cmap (norm (vw.ds.cell z [(z, i)])))) ∧
      (∀ c, call.kind = .lineplot → call.c = some c →
        ((xySeries vw call zs)[k].q).map (colourOf cmap norm ofRat) =
          (((sliceView vw call zs[k]).flat ((sliceView vw call zs[k]).freeDims c) c).head?).map
            fun v => cmap (norm v)) := by
  refine ⟨by simp [xySeries], ?_⟩
  intro k h h'
  have hq : (xySeries vw call zs)[k].q = quantOf vw call zs[k] zs.length := by
    simp only [xySeries, getElem_map]
  refine ⟨hq, ?_, ?_⟩
  · intro z i l hc hcol hz hzv
    rw [hq, hzv]
    cases hk : call.kind <;> cases hs : call.zstr <;> simp [quantOf, hc, hcol, hz, hk, hs, colourOf]
  · intro c hk hc
    rw [hq]
    simp only [quantOf, hk, hc, Option.map_map]
    congr 1

/-- **colour limits**: a limit passed by the caller is the limit of the normalisation, whatever its value (zero and
negative numbers included); an end that is not given is the `zlims` entry if there is one, else the end of the finite
data range of the colour quantity.  (From the extracted defaulting tests of `calc_color_norm`.) -/
theorem c17_colour_limits (call : Call) :
    (∀ l, call.vmin = some l → (colourLimits call).1 = .given) ∧
    (∀ l, call.vmax = some l → (colourLimits call).2 = .given) ∧
    (call.vmin = none → (colourLimits call).1 = if call.zlimLo && zlimsApply call then .zlim else .data) ∧
    (call.vmax = none → (colourLimits call).2 = if call.zlimHi && zlimsApply call then .zlim else .data) ∧
    (colourLimits call).1 ≠ .unset ∧ (colourLimits call).2 ≠ .unset := by
  simp only [colourLimits, limitSource, Gen.vminDefaulted, Gen.Default.vminDefaulted, Gen.vmaxDefaulted,
    Gen.Default.vmaxDefaulted]
  refine ⟨?_, ?_, ?_, ?_, ?_, ?_⟩
  · intro l h; simp [h]
  · intro l h; simp [h]
  · intro h; simp [h]
  · intro h; simp [h]
  · cases call.vmin <;> simp <;> split <;> simp
  · cases call.vmax <;> simp <;> split <;> simp

/-- the figure carries that normalisation, one for all its panels -/
theorem c17_figure_limits (ds : DS) (call : Call) : (plot ds call).limits = colourLimits call := rfl

/-- **legend or colour bar** (from the extracted bound): with no explicit choice, 2..10 series get a legend and no colour
bar; more than 10 colour-mapped series get a colour bar and no legend; a `c` variable always gets a colour bar;
explicit choices are honoured -/
theorem c17_legend_or_colorbar (n : Nat) :
    (legendOrColorbar n none none false true = (decide (1 < n ∧ n ≤ 10), !decide (1 < n ∧ n ≤ 10))) ∧
    (legendOrColorbar n none none false false = (decide (1 < n ∧ n ≤ 10), false)) ∧
    ((legendOrColorbar n none none true false).2 = true) ∧
    (∀ a b ca co, legendOrColorbar n (some a) (some b) ca co = (a, b)) := by
  refine ⟨?_, ?_, ?_, ?_⟩
  · simp only [legendOrColorbar, Gen.autoLegend, Gen.Default.autoLegend]
    by_cases h1 : 1 < n <;> by_cases h2 : n ≤ 10 <;> simp [h1, h2] <;> omega
  · simp only [legendOrColorbar, Gen.autoLegend, Gen.Default.autoLegend]
    by_cases h1 : 1 < n <;> by_cases h2 : n ≤ 10 <;> simp [h1, h2] <;> omega
  · simp [legendOrColorbar]
  · intro a b ca co
    cases a <;> cases b <;> simp [legendOrColorbar]

/-! ### purity -/

/-- **pure**: no preparation step writes to the dataset (or the call) the plotter was given: after the whole
`prepare_data_single` pipeline the state still holds the very same view, and every panel of a grid is computed from
the one dataset passed in -/
theorem c17_pure (s : PState) :
    (stepZVals s).view = s.view ∧ (stepZLabels s).view = s.view ∧ (stepLegend s).view = s.view ∧
    (stepData s).view = s.view ∧ (prepareDataSingle s).view = s.view ∧ (prepareDataSingle s).call = s.call := by
  have hd : ∀ t : PState, (stepData t).view = t.view ∧ (stepData t).call = t.call := by
    intro t
    unfold stepData
    cases t.call.kind <;> exact ⟨rfl, rfl⟩
  refine ⟨rfl, rfl, rfl, (hd s).1, ?_, ?_⟩
  · unfold prepareDataSingle
    cases s.call.kind
    · exact (hd _).1
    · exact (hd _).1
    · exact (hd _).1
    · exact (hd s).1
  · unfold prepareDataSingle
    cases s.call.kind
    · exact (hd _).2
    · exact (hd _).2
    · exact (hd _).2
    · exact (hd s).2

theorem c17_pure_grid (ds : DS) (call : Call) (fixed : Env) :
    (plotSingle { ds := ds, fixed := fixed } call).view.ds = ds := by
  have := (c17_pure { view := { ds := ds, fixed := fixed }, call := call }).2.2.2.2.1
  simp only [plotSingle]
  rw [this]

/-! ### Non-vacuity -/

def exDS : DS :=
  { dims := [{ name := "x", labels := ["1.0", "2.0"], tlabels := ["1.0", "2.0"] },
             { name := "z", labels := ["a", "b", "c"], tlabels := ["a", "b", "c"] }]
    vars := [{ name := "x", dims := ["x"], cells := [.fin 100, .fin 101] },
             { name := "z", dims := ["z"], cells := [.fin 200, .fin 201, .fin 202] },
             -- y(z, x): second series has a NaN, third is all-NaN
             { name := "y", dims := ["z", "x"], cells := [.fin 0, .fin 1, .nan, .fin 3, .nan, .inf false] }] }

def exCall : Call := { kind := .lineplot, x := ["x"], y := ["y"], z := some "z", zstr := true, colors := .auto }

example : (plotSingle { ds := exDS } exCall).series.map (·.label) = [some "a", some "b", some "c"] := by decide

example : (plotSingle { ds := exDS } exCall).series.map (·.x) = [[.fin 100, .fin 101], [.fin 101], []] := by decide

example : (plotSingle { ds := exDS } exCall).series.map (·.y) = [[.fin 0, .fin 1], [.fin 3], []] := by decide

example : (plotSingle { ds := exDS } { exCall with zstr := false }).series.map (·.q) =
    [some (.cell (.fin 200)), some (.cell (.fin 201)), some (.cell (.fin 202))] := by decide

example : linspace01 1 3 = 1 / 2 := by unfold linspace01; simp

example : (prepareHeatmap { ds := exDS } { kind := .heatmap, x := ["x"], y := ["z"], z := some "y" }) =
    [[.fin 0, .fin 1], [.nan, .fin 3], [.nan, .nan]] := by decide

def exCallRow : Call := { kind := .lineplot, x := ["x"], y := ["y"], row := some "z" }

example : (plot exDS exCallRow).panels.flatten.map (·.rlabel) = [some "z = a", some "z = b", some "z = c"] := by decide

example : (plot exDS exCallRow).panels.flatten.map (fun p => (p.i, p.j)) = [(0, 0), (1, 0), (2, 0)] := by decide

example : (plot exDS exCallRow).panels.flatten.map (fun p => p.series.map (·.y)) =
    [[[.fin 0, .fin 1]], [[.fin 3]], [[]]] := by decide

-- y_err is NaN / inf at points with finite (x, y): all three points of each series stay, the bars keep their values
def exDSErr : DS :=
  { exDS with vars := exDS.vars ++ [{ name := "ye", dims := ["z", "x"], cells := [.nan, .fin 11, .fin 12, .inf false, .fin 14, .fin 15] }] }

example : (plotSingle { ds := exDSErr } { exCall with yErr := some "ye" }).series.map (·.x) = [[.fin 100, .fin 101], [.fin 101], []] := by decide

example : (plotSingle { ds := exDSErr } { exCall with yErr := some "ye" }).series.map (·.ye) =
    [some [.nan, .fin 11], some [.inf false], some []] := by decide

-- vmin = 0 is a given limit; an end left out comes from the data (or zlims)
example : colourLimits { exCall with vmin := some ⟨true⟩ } = (.given, .data) := by decide
example : colourLimits { exCall with vmin := some ⟨false⟩, vmax := some ⟨true⟩ } = (.given, .given) := by decide
example : colourLimits { exCall with zstr := false, zlimHi := true, vmin := some ⟨true⟩ } = (.given, .zlim) := by decide
example : colourLimits exCall = (.data, .data) := by decide

example : legendOrColorbar 10 none none false true = (true, false) ∧ legendOrColorbar 11 none none false true = (false, true) := by decide

end PlotPrep
