import XyzModel.VarDims
/-!
# C03 — every accepted spelling of `var_dims` means the same mapping

`parse_var_dims` (xyzpy/gen/prepare.py) turns what the user wrote into *output name ↦ tuple of dimensions*.  The
theorems give its meaning once and for all (`applyItems_spec`: each output gets the dimensions of the **last** entry
whose key covers it, the empty tuple if none does; an entry naming an unknown output is rejected) and derive that the
spellings the documentation lists are interchangeable: a dict in any key order, keys grouped into tuples, a list in
one-to-one correspondence with `var_names`, a bare string for a single dimension, `None`/empty for "no dimensions".
-/
namespace VarDims
open List

/-- does the key `k` (a name or a tuple of names) cover output `n`? -/
def covers (k : Atom) (n : String) : Bool :=
  match k with
  | .s x => n == x
  | .t l => l.contains n

def keyOk (names : List String) (k : Atom) : Bool :=
  match k with
  | .s x => names.contains x
  | .t l => l.all names.contains

/-- dimensions of the last entry covering `n`, `d` if there is none -/
def lastCoverD (items : List (Atom × List Atom)) (n : String) (d : List Atom) : List Atom :=
  items.foldl (fun acc kv => if covers kv.1 n then kv.2 else acc) d

theorem foldl_error {α ε σ : Type} (step : Except ε σ → α → Except ε σ)
    (h : ∀ e x, step (Except.error e) x = Except.error e) (e : ε) (l : List α) :
    l.foldl step (Except.error e) = Except.error e := by
  induction l with
  | nil => rfl
  | cons x xs ih => rw [List.foldl_cons, h]; exact ih

theorem applyKey_spec (names : List String) (m : Mapping) (k : Atom) (v : List Atom) :
    applyKey names m k v =
      if keyOk names k then .ok (m.map fun p => (p.1, if covers k p.1 then v else p.2)) else .error .value := by
  cases k with
  | s x =>
    simp only [applyKey, keyOk, covers, assign]
    by_cases hx : names.contains x = true
    · simp only [hx, if_true]
      congr 1
      apply List.map_congr_left
      intro p _
      by_cases h : (p.1 == x) = true <;> simp [h]
    · simp only [hx, if_false, Bool.false_eq_true]
  | t subs =>
    simp only [applyKey, keyOk, covers]
    induction subs generalizing m with
    | nil =>
      simp only [List.foldl_nil, List.all_nil, if_true, List.contains_nil]
      congr 1
      simp
    | cons sub rest ih =>
      rw [List.foldl_cons]
      by_cases hs : names.contains sub = true
      · simp only [hs, if_true, List.all_cons, Bool.true_and]
        rw [ih]
        by_cases hr : rest.all names.contains = true
        · simp only [hr, if_true]
          congr 1
          simp only [assign, List.map_map]
          apply List.map_congr_left
          intro p _
          simp only [Function.comp, List.contains_cons]
          by_cases h : (p.1 == sub) = true
          · simp [h]
          · have h' : (p.1 == sub) = false := by simpa using h
            simp [h']
        · simp only [hr, if_false, Bool.false_eq_true]
      · have hs' : names.contains sub = false := by simpa using hs
        simp only [hs', List.all_cons, Bool.false_and, if_false, Bool.false_eq_true]
        exact foldl_error _ (fun _ _ => rfl) _ _

/-- **meaning of the update loop**, for every list of entries: all keys known ⇒ each output carries the dimensions of
the last entry covering it (what it had before if none does); any unknown name ⇒ ValueError -/
theorem applyItems_spec (names : List String) (m : Mapping) (items : List (Atom × List Atom)) :
    applyItems names m items =
      if items.all (fun kv => keyOk names kv.1) then .ok (m.map fun p => (p.1, lastCoverD items p.1 p.2))
      else .error .value := by
  unfold applyItems
  induction items generalizing m with
  | nil => simp [lastCoverD]
  | cons kv rest ih =>
    rw [List.foldl_cons]
    show foldl _ (applyKey names m kv.1 kv.2) rest = _
    rw [applyKey_spec]
    by_cases hk : keyOk names kv.1 = true
    · simp only [hk, if_true, List.all_cons, Bool.true_and]
      rw [ih]
      by_cases hr : (rest.all fun kv => keyOk names kv.1) = true
      · simp only [hr, if_true]
        congr 1
        simp only [List.map_map]
        apply List.map_congr_left
        intro p _
        simp [Function.comp, lastCoverD]
      · simp only [hr, if_false, Bool.false_eq_true]
    · have hk' : keyOk names kv.1 = false := by simpa using hk
      simp only [hk', List.all_cons, Bool.false_and, if_false, Bool.false_eq_true]
      exact foldl_error _ (fun _ _ => rfl) _ _

/-! ### consequences: the documented spellings are interchangeable -/

theorem dedup_of_nodup (l : List String) (h : l.Nodup) : dedup l = l := by
  induction l with
  | nil => rfl
  | cons x xs ih =>
    rw [List.nodup_cons] at h
    simp only [dedup, ih h.2]
    congr 1
    apply List.filter_eq_self.mpr
    intro a ha
    have : a ≠ x := fun e => h.1 (e ▸ ha)
    simpa using this

/-- the dict spelling is the update loop on the default mapping (an empty dict is the loop over nothing) -/
theorem parse_dict_eq (names : List String) (items : List (Atom × Atom)) :
    parse (some names) (.dict items) =
      applyItems names ((dedup names).map fun k => (k, [])) (items.map fun p => (p.1, dimsOfAtom p.2)) := by
  cases items with
  | nil => rfl
  | cons x xs => rfl

/-- **dict spelling, in general**: every key must name outputs; each output gets the dimensions of the last entry
covering it, `()` if none does -/
theorem c03_vd_dict (names : List String) (items : List (Atom × Atom)) :
    parse (some names) (.dict items) =
      if items.all (fun kv => keyOk names kv.1) then
        .ok ((dedup names).map fun n => (n, lastCoverD (items.map fun p => (p.1, dimsOfAtom p.2)) n []))
      else .error .value := by
  rw [parse_dict_eq, applyItems_spec]
  simp only [List.all_map, List.map_map, Function.comp]
  rfl

/-- an entry naming an unknown output is rejected, wherever it stands -/
theorem c03_vd_unknown_rejected (names : List String) (items : List (Atom × Atom)) (kv : Atom × Atom)
    (hkv : kv ∈ items) (hbad : keyOk names kv.1 = false) : parse (some names) (.dict items) = .error .value := by
  rw [c03_vd_dict]
  have : (items.all fun kv => keyOk names kv.1) = false := by
    apply Bool.eq_false_iff.mpr
    intro h
    have := List.all_eq_true.mp h kv hkv
    rw [hbad] at this
    cases this
  simp [this]

theorem lastCoverD_single (ks : List String) (val : String → List Atom) (n : String) (d : List Atom) :
    lastCoverD (ks.map fun k => (Atom.s k, val k)) n d = if ks.contains n then val n else d := by
  unfold lastCoverD
  induction ks generalizing d with
  | nil => simp
  | cons k ks ih =>
    simp only [List.map_cons, List.foldl_cons]
    rw [ih]
    simp only [covers, List.contains_cons]
    by_cases hnk : (n == k) = true
    · have : n = k := by simpa using hnk
      subst this
      simp
    · have hnk' : (n == k) = false := by simpa using hnk
      simp [hnk']

/-- **one entry per output, any order, any subset**: the result depends only on *which* outputs are mentioned -/
theorem c03_vd_single_keys (names ks : List String) (hsub : ∀ k ∈ ks, k ∈ names) (spell : String → Atom) :
    parse (some names) (.dict (ks.map fun k => (.s k, spell k))) =
      .ok ((dedup names).map fun n => (n, if ks.contains n then dimsOfAtom (spell n) else [])) := by
  rw [c03_vd_dict]
  have hall : ((ks.map fun k => (Atom.s k, spell k)).all fun kv => keyOk names kv.1) = true := by
    simp only [List.all_map, Function.comp, keyOk, List.all_eq_true]
    intro k hk
    simpa using hsub k hk
  have hmm : (ks.map fun k => (Atom.s k, spell k)).map (fun p => (p.1, dimsOfAtom p.2)) =
      ks.map fun k => (Atom.s k, dimsOfAtom (spell k)) := by
    rw [List.map_map]; rfl
  simp only [hall, if_true, hmm]
  congr 1
  apply List.map_congr_left
  intro n _
  rw [lastCoverD_single ks (fun k => dimsOfAtom (spell k))]

/-- **key order is irrelevant** (for one entry per output) -/
theorem c03_vd_order_irrelevant (names ks ks' : List String) (hsub : ∀ k ∈ ks, k ∈ names)
    (hsame : ∀ k, k ∈ ks ↔ k ∈ ks') (spell : String → Atom) :
    parse (some names) (.dict (ks.map fun k => (.s k, spell k))) =
    parse (some names) (.dict (ks'.map fun k => (.s k, spell k))) := by
  rw [c03_vd_single_keys names ks hsub, c03_vd_single_keys names ks' (fun k hk => hsub k ((hsame k).mpr hk))]
  congr 1
  apply List.map_congr_left
  intro n _
  have : ks.contains n = ks'.contains n := by
    apply Bool.eq_iff_iff.mpr
    simp [hsame n]
  rw [this]

theorem lastCoverD_append (a b : List (Atom × List Atom)) (n : String) (d : List Atom) :
    lastCoverD (a ++ b) n d = lastCoverD b n (lastCoverD a n d) := by
  simp [lastCoverD, List.foldl_append]

/-- **grouped keys**: an entry `(a, b, …): dims` means the same as the entries `a: dims, b: dims, …` in its place -/
theorem c03_vd_group (names : List String) (m : Mapping) (a b : List (Atom × List Atom)) (g : List String)
    (v : List Atom) :
    applyItems names m (a ++ [(Atom.t g, v)] ++ b) = applyItems names m (a ++ g.map (fun x => (Atom.s x, v)) ++ b) := by
  rw [applyItems_spec, applyItems_spec]
  have hall : ((a ++ [(Atom.t g, v)] ++ b).all fun kv => keyOk names kv.1) =
      ((a ++ g.map (fun x => (Atom.s x, v)) ++ b).all fun kv => keyOk names kv.1) := by
    simp only [List.all_append, List.all_cons, List.all_nil, Bool.and_true, List.all_map, keyOk]
    rfl
  rw [hall]
  have hmid : ∀ n d, lastCoverD [(Atom.t g, v)] n d = lastCoverD (g.map fun x => (Atom.s x, v)) n d := by
    intro n d
    rw [lastCoverD_single g (fun _ => v)]
    simp [lastCoverD, covers]
  have hl : ∀ n d, lastCoverD (a ++ [(Atom.t g, v)] ++ b) n d = lastCoverD (a ++ g.map (fun x => (Atom.s x, v)) ++ b) n d := by
    intro n d
    simp only [lastCoverD_append, hmid]
  simp only [hl]

/-- the same at the level of the dict spelling -/
theorem c03_vd_group_dict (names : List String) (a b : List (Atom × Atom)) (g : List String) (v : Atom) :
    parse (some names) (.dict (a ++ [(.t g, v)] ++ b)) =
    parse (some names) (.dict (a ++ g.map (fun x => (.s x, v)) ++ b)) := by
  rw [parse_dict_eq, parse_dict_eq]
  simp only [List.map_append, List.map_cons, List.map_nil, List.map_map, Function.comp]
  exact c03_vd_group names _ _ _ g (dimsOfAtom v)

theorem dictOf_fold_nodup (acc l : List (Atom × List Atom)) (h : ((acc ++ l).map (·.1)).Nodup) :
    l.foldl (fun acc kv =>
      if acc.any (·.1 == kv.1) then acc.map (fun p => if p.1 == kv.1 then (p.1, kv.2) else p) else acc ++ [kv]) acc
      = acc ++ l := by
  induction l generalizing acc with
  | nil => simp
  | cons kv rest ih =>
    rw [List.foldl_cons]
    have hno : acc.any (·.1 == kv.1) = false := by
      apply Bool.eq_false_iff.mpr
      intro hany
      obtain ⟨p, hp, hpk⟩ := List.any_eq_true.mp hany
      have hpk' : p.1 = kv.1 := by simpa using hpk
      rw [List.map_append, List.nodup_append] at h
      exact h.2.2 p.1 (List.mem_map.mpr ⟨p, hp, rfl⟩) kv.1 (by simp) hpk'
    simp only [hno, Bool.false_eq_true, if_false]
    have h' : (((acc ++ [kv]) ++ rest).map (·.1)).Nodup := by simpa using h
    rw [ih _ h']
    simp

theorem dictOf_nodup (l : List (Atom × List Atom)) (h : (l.map (·.1)).Nodup) : dictOf l = l := by
  have := dictOf_fold_nodup [] l (by simpa using h)
  simpa [dictOf] using this

theorem lastCoverD_no_cover (l : List (String × List Atom)) (n : String) (d : List Atom)
    (h : n ∉ l.map (·.1)) : lastCoverD (l.map fun q => (Atom.s q.1, q.2)) n d = d := by
  unfold lastCoverD
  induction l generalizing d with
  | nil => rfl
  | cons q rest ih =>
    simp only [List.map_cons, List.mem_cons, not_or] at h
    simp only [List.map_cons, List.foldl_cons, covers]
    have : (n == q.1) = false := by simpa using h.1
    simp only [this, Bool.false_eq_true, if_false]
    exact ih d h.2

theorem lastCoverD_own (l : List (String × List Atom)) (hnd : (l.map (·.1)).Nodup) (p : String × List Atom)
    (hp : p ∈ l) (d : List Atom) : lastCoverD (l.map fun q => (Atom.s q.1, q.2)) p.1 d = p.2 := by
  induction l generalizing d with
  | nil => cases hp
  | cons q rest ih =>
    simp only [List.map_cons, List.nodup_cons] at hnd
    have hstep : lastCoverD ((q :: rest).map fun q => (Atom.s q.1, q.2)) p.1 d =
        lastCoverD (rest.map fun q => (Atom.s q.1, q.2)) p.1 (if (p.1 == q.1) = true then q.2 else d) := by
      simp [lastCoverD, covers]
    rw [hstep]
    rcases List.mem_cons.mp hp with rfl | hp'
    · simp only [beq_self_eq_true, if_true]
      exact lastCoverD_no_cover rest p.1 p.2 hnd.1
    · exact ih hnd.2 hp' _

/-- **list in one-to-one correspondence with `var_names`**: when the parser recognises it as such (some element is a
bare string, empty, or does not start with an output's name), output `i` gets element `i` -/
theorem c03_vd_corr (names : List String) (hnd : names.Nodup) (elems : List Elem)
    (hlen : elems.length = names.length) (hc : isCorrespondence names elems = true) :
    parse (some names) (.list elems) = .ok ((names.zip elems).map fun p => (p.1, dimsOfElem p.2)) := by
  cases elems with
  | nil =>
    have hn : names = [] := List.length_eq_zero_iff.mp (by simpa using hlen.symm)
    subst hn; rfl
  | cons e es =>
    simp only [parse, List.isEmpty_cons, Bool.false_eq_true, if_false, hc, if_true, hlen, bne_self_eq_false]
    obtain ⟨l, hl⟩ : ∃ l : List (String × List Atom), l = (names.zip (e :: es)).map fun p => (p.1, dimsOfElem p.2) :=
      ⟨_, rfl⟩
    rw [← hl]
    have hkeys : l.map (·.1) = names := by
      rw [hl, List.map_map]
      have : ((fun p : String × List Atom => p.1) ∘ fun p : String × Elem => (p.1, dimsOfElem p.2)) = Prod.fst := rfl
      rw [this, List.map_fst_zip]
      omega
    have hitems : ((names.zip (e :: es)).map fun p => (Atom.s p.1, dimsOfElem p.2)) = l.map fun q => (Atom.s q.1, q.2) := by
      rw [hl, List.map_map]; rfl
    rw [hitems]
    have hnd' : ((l.map fun q => (Atom.s q.1, q.2)).map (·.1)).Nodup := by
      rw [List.map_map]
      have : ((fun x : Atom × List Atom => x.1) ∘ fun q : String × List Atom => (Atom.s q.1, q.2)) = Atom.s ∘ Prod.fst := rfl
      rw [this, ← List.map_map, hkeys]
      exact List.Pairwise.map Atom.s (fun a b h e => h (by cases e; rfl)) hnd
    rw [dictOf_nodup _ hnd', applyItems_spec]
    have hall : ((l.map fun q => (Atom.s q.1, q.2)).all fun kv => keyOk names kv.1) = true := by
      simp only [List.all_map, Function.comp, keyOk, List.all_eq_true]
      intro q hq
      have : q.1 ∈ l.map (·.1) := List.mem_map.mpr ⟨q, hq, rfl⟩
      rw [hkeys] at this
      simpa using this
    simp only [hall, if_true]
    congr 1
    rw [dedup_of_nodup names hnd, List.map_map]
    have hmap : (names.map ((fun p : String × List Atom => (p.1, lastCoverD (l.map fun q => (Atom.s q.1, q.2)) p.1 p.2)) ∘
        fun k => (k, []))) = (l.map (·.1)).map fun n => (n, lastCoverD (l.map fun q => (Atom.s q.1, q.2)) n []) := by
      rw [hkeys]; rfl
    rw [hmap, List.map_map]
    conv => rhs; rw [← List.map_id l]
    apply List.map_congr_left
    intro p hp
    simp only [Function.comp, id]
    rw [lastCoverD_own l (by rw [hkeys]; exact hnd) p hp]

/-- a bare string is the 1-tuple of itself -/
theorem c03_vd_bare_string (d : String) : dimsOfAtom (.s d) = dimsOfAtom (.t [d]) ∧ dimsOfElem (.s d) = dimsOfElem (.t [.s d]) :=
  ⟨rfl, rfl⟩

/-- the string spelling (single output, single dimension) is the dict `{name: (d,)}` -/
theorem c03_vd_str (k d : String) (hd : d.isEmpty = false) :
    parse (some [k]) (.str d) = .ok [(k, [.s d])] ∧ parse (some [k]) (.str d) = parse (some [k]) (.dict [(.s k, .t [d])]) := by
  have h1 : parse (some [k]) (.str d) = .ok [(k, [.s d])] := by
    simp [parse, hd, dedup, applyItems, applyKey, assign, Gen.varDimsStrRefused, Gen.Default.varDimsStrRefused]
  refine ⟨h1, ?_⟩
  rw [h1]
  simp [parse, dedup, applyItems, applyKey, assign, dimsOfAtom]

/-- the string spelling is refused for several outputs -/
theorem c03_vd_str_needs_single (names : List String) (d : String) (hd : d.isEmpty = false) (h : names.length ≠ 1) :
    parse (some names) (.str d) = .error .value := by
  have : ((names.length : Int) ≠ 1) := by omega
  simp [parse, hd, Gen.varDimsStrRefused, Gen.Default.varDimsStrRefused, this]

/-- "no dimensions": `None`, `{}`, `()` / `[]` and `''` all give every output the empty tuple -/
theorem c03_vd_empty (names : List String) :
    parse (some names) .none = .ok ((dedup names).map fun k => (k, [])) ∧
    parse (some names) (.dict []) = parse (some names) .none ∧
    parse (some names) (.list []) = parse (some names) .none ∧
    parse (some names) (.str "") = parse (some names) .none := ⟨rfl, rfl, rfl, rfl⟩

/-- automatic output (`var_names=None`) takes no `var_dims` at all -/
theorem c03_vd_auto (sp : Spelling) : parse none sp = (match sp with | .none => .ok [] | _ => .error .value) := by
  cases sp <;> rfl

/-! Non-vacuity -/
example : parse (some ["x", "y", "z"]) (.dict [(.t ["x", "y"], .s "t"), (.s "z", .t ["u", "v"])]) =
    .ok [("x", [.s "t"]), ("y", [.s "t"]), ("z", [.s "u", .s "v"])] := by rfl
example : parse (some ["x", "y"]) (.list [.t [.s "x", .s "t"], .t [.s "y", .t ["u", "v"]]]) =
    .ok [("x", [.s "t"]), ("y", [.s "u", .s "v"])] := by rfl
example : isCorrespondence ["x", "y"] [.s "t", .t []] = true := by rfl
example : parse (some ["x", "y"]) (.list [.s "t", .t []]) = .ok [("x", [.s "t"]), ("y", [])] := by rfl
example : parse (some ["x"]) (.dict [(.s "q", .s "t")]) = .error .value := by rfl

end VarDims
