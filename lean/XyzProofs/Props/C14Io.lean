import XyzProofs.Props.C14
import XyzProofs.Refine.StoreIO
/-!
# C14 — the bodies of `save_ds`, `load_ds`, `save_df`, `load_df` as translated from the source

`Gen.saveDs`, `Gen.loadDs`, `Gen.saveDf`, `Gen.loadDf` are regenerated on every run from xyzpy/manage.py
(harness/anchors_storeio.py): the whole body of each function, as a function of what the body looks at (the engine string,
the attribute values through `Gen.AttrOps`, per variable `Gen.VarEnc`, whether the file exists, `load_to_mem` / `chunks` /
`create_new`), returning the ONE writer / reader call the body ends with (`Gen.SaveCall`, `Gen.LoadOutcome`, `Gen.DfCall`).

Theorems here are stated on these translated definitions:
* `saveDs_spec` / `loadDs_spec`: closed forms (for every engine string, every attribute type, every variable list);
* the attribute loop rewrites exactly the objects `None` / `True` / `False` (identity tests: `1`, `0`, `1.0` stay) and only
  for engines other than joblib / zarr — `saveDs_attrs_refines` ties it to the hand-written `StoreIO.coerceAttrs`;
* `save_ds` and `load_ds` resolve the same path for every name and engine — tied to `StoreIO.savePath` / `loadPath`
  (`c14_same_path`), which the expression anchors define;
* `load_ds(create_new=True)` answers the empty dataset exactly when the file is absent;
* engine dispatch, the stale-`dtype` rule (D20), complex data → `invalid_netcdf`, the `load_to_mem` / `chunks` rule.
-/
namespace StoreIO
open DS Gen

/-! ## `save_ds` -/

/-- what the three sequential `if val is …` statements leave in `ds.attrs[attr]` -/
def attrRewrite {A : Type} (a : AttrOps A) (v : A) : A :=
  if a.isFalse v then a.str "False" else if a.isTrue v then a.str "True" else if a.isNone v then a.str "None" else v

/-- the stale-`dtype` rule: the stored dtype is dropped iff there is one, it differs from the data's dtype, and the
variable is not packed (`scale_factor` / `add_offset`) -/
def staleDtype (v : VarEnc) : Bool :=
  v.encDtype.isSome && (npDtype v.encDtype != v.dtype) && !v.hasScale && !v.hasOffset

/-- the three identity tests are about three different objects: at most one of them holds -/
def _root_.Gen.AttrOps.Exclusive {A : Type} (a : AttrOps A) : Prop :=
  ∀ v, (a.isNone v = true → a.isTrue v = false ∧ a.isFalse v = false) ∧ (a.isTrue v = true → a.isFalse v = false)

/-- **`save_ds` as translated, in closed form** — for every engine string, attribute type, variable list:
one writer call, on the name with the extension; joblib → `joblib.dump`, zarr → `to_zarr`, anything else →
`to_netcdf(engine=engine)`; the attributes are rewritten only for engines other than joblib / zarr; the stale-dtype rule
and `invalid_netcdf` (set for complex data unless the caller gave it) only concern the netCDF writer -/
theorem saveDs_spec {A : Type} (a : AttrOps A) (hx : a.Exclusive) (ext : String → String → String) (name engine : String)
    (attrs : List (String × A)) (vars : List VarEnc) (kw : Option Bool) :
    Gen.saveDs a ext name engine attrs vars kw = some
      { writer := if engine = "joblib" then .joblibDump else if engine = "zarr" then .toZarr
          else .toNetcdf engine (if vars.any (·.isComplex) then some (kw.getD true) else kw)
        path := ext name engine
        attrs := if engine = "joblib" ∨ engine = "zarr" then attrs else attrs.map fun kv => (kv.1, attrRewrite a kv.2)
        dropDtype := if engine = "joblib" ∨ engine = "zarr" then vars.map (fun _ => false) else vars.map staleDtype } := by
  by_cases hj : engine = "joblib"
  · subst hj
    simp [Gen.saveDs, Gen.Default.saveDs]
  · by_cases hz : engine = "zarr"
    · subst hz
      simp [Gen.saveDs, Gen.Default.saveDs]
    · simp only [Gen.saveDs, Gen.Default.saveDs, hj, hz, decide_false, Bool.or_self, Bool.not_false, if_true,
        Bool.false_eq_true, if_false, or_self]
      refine congrArg some ?_
      -- the loop body, whatever the shape of its `if`s, against the closed form: by cases on the three tests
      first
      | (congr 1; done)
      | (congr 1
         apply List.map_congr_left
         intro kv _
         simp only [attrRewrite]
         have hv := hx kv.2
         cases h1 : a.isNone kv.2 <;> cases h2 : a.isTrue kv.2 <;> cases h3 : a.isFalse kv.2 <;> simp_all)

/-- the attribute values of the model as Python objects: `is` is identity with the singletons, `==` also holds for the
numbers equal to a bool -/
def attrOps : AttrOps Attr where
  isNone := fun v => v == .none
  isTrue := fun v => v == .bool true
  isFalse := fun v => v == .bool false
  eqNone := fun v => v == .none
  eqTrue := fun v => v == .bool true || v == .int 1 || v == .num "1.0"
  eqFalse := fun v => v == .bool false || v == .int 0 || v == .num "0.0" || v == .num "-0.0"
  str := .str

theorem attrOps_exclusive : attrOps.Exclusive := by
  intro v; cases v <;> simp [attrOps]

theorem attrRewrite_coerceAttr (v : Attr) : attrRewrite attrOps v = coerceAttr v := by
  cases v with
  | bool b => cases b <;> simp [attrRewrite, attrOps, coerceAttr, Gen.attrTrueStr, Gen.Default.attrTrueStr,
      Gen.attrFalseStr, Gen.Default.attrFalseStr]
  | none => simp [attrRewrite, attrOps, coerceAttr, Gen.attrNoneStr, Gen.Default.attrNoneStr]
  | _ => simp [attrRewrite, attrOps, coerceAttr]

/-- **the attribute loop of `save_ds` as translated IS `StoreIO.coerceAttrs`** (and the path the writer is given is the
name with the extension): for every engine and dataset -/
theorem saveDs_attrs_refines (ext : String → String → String) (name : String) (e : Engine) (d : Dataset)
    (vars : List VarEnc) (kw : Option Bool) :
    ∃ c, Gen.saveDs attrOps ext name e.key d.attrs vars kw = some c ∧ c.attrs = (coerceAttrs e d).attrs ∧
      c.path = ext name e.key := by
  refine ⟨_, saveDs_spec _ attrOps_exclusive _ _ _ _ _ _, ?_, rfl⟩
  obtain ⟨⟨h1, h2, h3, h4⟩, _, h⟩ := c14_attr_rule
  rw [(h e d).2.2]
  have hm : (d.attrs.map fun kv => (kv.1, attrRewrite attrOps kv.2)) = d.attrs.map fun kv => (kv.1, coerceAttr kv.2) := by
    apply List.map_congr_left; intro kv _; rw [attrRewrite_coerceAttr]
  cases e <;> simp [Engine.key, h1, h2, h3, h4, hm]

/-- **identity, not equality**: numbers equal to a bool are attributes like any other — only the objects `None`, `True`,
`False` are rewritten, and only for the netCDF engines -/
theorem saveDs_keeps_numbers (ext : String → String → String) (name engine : String) (vars : List VarEnc) (kw : Option Bool) :
    ∃ c, Gen.saveDs attrOps ext name engine
        [("a", .int 1), ("b", .int 0), ("c", .num "1.0"), ("d", .none), ("e", .bool true), ("f", .bool false)] vars kw = some c ∧
      c.attrs = if engine = "joblib" ∨ engine = "zarr"
        then [("a", .int 1), ("b", .int 0), ("c", .num "1.0"), ("d", .none), ("e", .bool true), ("f", .bool false)]
        else [("a", .int 1), ("b", .int 0), ("c", .num "1.0"), ("d", .str "None"), ("e", .str "True"), ("f", .str "False")] := by
  refine ⟨_, saveDs_spec _ attrOps_exclusive _ _ _ _ _ _, ?_⟩
  simp only []
  split
  · rfl
  · simp [attrRewrite, attrOps]

/-- engine dispatch at the four engines, and D20's rule at the netCDF engines -/
theorem saveDs_writers {A : Type} (a : AttrOps A) (hx : a.Exclusive) (ext : String → String → String) (name : String)
    (attrs : List (String × A)) (vars : List VarEnc) (kw : Option Bool) :
    ((Gen.saveDs a ext name "joblib" attrs vars kw).map (·.writer) = some .joblibDump) ∧
    ((Gen.saveDs a ext name "zarr" attrs vars kw).map (·.writer) = some .toZarr) ∧
    ((Gen.saveDs a ext name "h5netcdf" attrs vars kw).map (·.writer) =
        some (.toNetcdf "h5netcdf" (if vars.any (·.isComplex) then some (kw.getD true) else kw))) ∧
    ((Gen.saveDs a ext name "netcdf4" attrs vars kw).map (·.writer) =
        some (.toNetcdf "netcdf4" (if vars.any (·.isComplex) then some (kw.getD true) else kw))) ∧
    ((Gen.saveDs a ext name "h5netcdf" attrs vars kw).map (·.dropDtype) = some (vars.map staleDtype)) ∧
    ((Gen.saveDs a ext name "joblib" attrs vars kw).map (·.dropDtype) = some (vars.map fun _ => false)) := by
  simp [saveDs_spec a hx]

-- non-vacuity of the stale-dtype rule: a grown string coordinate and a packed variable
example : [({ encDtype := some "<U1", dtype := "<U4" } : VarEnc), { encDtype := some "int16", dtype := "float64", hasScale := true },
    { encDtype := some "int64", dtype := "int64" }, { dtype := "float64" }].map staleDtype = [true, false, false, false] := by decide

/-! ## `load_ds` -/

/-- **`load_ds` as translated, in closed form** — for every engine string: the empty dataset iff `create_new` and the
file (name with extension) is absent; joblib → `joblib.load`; `load_to_mem=True` together with `chunks` is a ValueError;
else zarr → `open_zarr`, anything else → `open_dataset(engine=engine)` (h5netcdf: retried once with netcdf4 on the
AttributeError of old files), `chunks` handed on; the data are loaded and the file closed iff neither `load_to_mem` nor
`chunks` was given -/
theorem loadDs_spec {C : Type} (ext : String → String → String) (ex : String → Bool) (name engine : String)
    (ltm : Option Bool) (cn : Bool) (chunks : Option C) :
    Gen.loadDs ext ex name engine ltm cn chunks =
      if !ex (ext name engine) && cn then .empty
      else if engine = "joblib" then .read ⟨.joblibLoad, ext name engine, false, false⟩
      else if ltm = some true ∧ chunks.isSome then .raise .valueError
      else .read ⟨if engine = "zarr" then .openZarr
                    else .openDataset engine (if engine = "h5netcdf" then some "netcdf4" else none),
                  ext name engine, true, ltm.isNone && chunks.isNone⟩ := by
  simp only [Gen.loadDs, Gen.Default.loadDs]
  generalize ex (ext name engine) = b
  -- by cases on everything the body tests (so the order / nesting of the tests in the source does not matter)
  by_cases hj : engine = "joblib"
  · subst hj; cases b <;> cases cn <;> simp
  · by_cases hz : engine = "zarr"
    · subst hz; cases b <;> cases cn <;> rcases ltm with _ | _ | _ <;> cases chunks <;> simp
    · cases b <;> cases cn <;> rcases ltm with _ | _ | _ <;> cases chunks <;> simp [hj, hz]

/-- **`create_new`**: the empty dataset is answered exactly when `create_new` is set and the file is absent -/
theorem c14_load_create_new {C : Type} (ext : String → String → String) (ex : String → Bool) (name engine : String)
    (ltm : Option Bool) (cn : Bool) (chunks : Option C) :
    Gen.loadDs ext ex name engine ltm cn chunks = .empty ↔ (cn = true ∧ ex (ext name engine) = false) := by
  rw [loadDs_spec]
  by_cases h1 : (!ex (ext name engine) && cn) = true
  · simp only [h1, if_true, true_iff]
    simp at h1; exact ⟨h1.2, h1.1⟩
  · simp only [h1, Bool.false_eq_true, if_false]
    constructor
    · intro h
      split at h
      · cases h
      · split at h <;> cases h
    · rintro ⟨h2, h3⟩
      simp [h2, h3] at h1

/-- an existing file is always read (never replaced by the empty dataset), whatever `create_new` says -/
theorem c14_load_existing_is_read {C : Type} (ext : String → String → String) (ex : String → Bool) (name engine : String)
    (ltm : Option Bool) (cn : Bool) (chunks : Option C) (h : ex (ext name engine) = true) :
    Gen.loadDs ext ex name engine ltm cn chunks ≠ .empty := by
  intro h'
  have := (c14_load_create_new ext ex name engine ltm cn chunks).mp h'
  rw [h] at this; exact absurd this.2 (by simp)

/-- **one path for save and load, on the translated bodies**: whatever the engine string and the options, the path the
writer of `save_ds` is given and the path any reader of `load_ds` is given are the same `auto_add_extension(name, engine)` -/
theorem c14_save_load_same_path {A C : Type} (a : AttrOps A) (hx : a.Exclusive) (ext : String → String → String) (ex : String → Bool)
    (name engine : String) (attrs : List (String × A)) (vars : List VarEnc) (kw ltm : Option Bool) (cn : Bool)
    (chunks : Option C) :
    (Gen.saveDs a ext name engine attrs vars kw).map (·.path) = some (ext name engine) ∧
    ∀ c, Gen.loadDs ext ex name engine ltm cn chunks = .read c → c.path = ext name engine := by
  refine ⟨by rw [saveDs_spec a hx]; rfl, ?_⟩
  intro c h
  rw [loadDs_spec] at h
  split at h
  · cases h
  · split at h
    · injection h with h; subst h; rfl
    · split at h
      · cases h
      · injection h with h; subst h; rfl

/-- `auto_add_extension` at the model's engines, as a function of the engine string -/
def extOfKey (name key : String) : String := autoAddExt name (Harvest.engineOfKey key)

theorem engineOfKey_key (e : Engine) : Harvest.engineOfKey e.key = e := by
  cases e <;> decide

/-- … and that path is the hand-written model's `savePath` = `loadPath` (whose definition the expression anchors
`saveDsExtends` / `loadDsExtends` decide): translated bodies, anchors and model agree on where a dataset lives -/
theorem c14_translated_paths (ex : String → Bool) (name : String) (e : Engine) (d : Dataset) (vars : List VarEnc)
    (kw ltm : Option Bool) (cn : Bool) (chunks : Option Unit) :
    (Gen.saveDs attrOps extOfKey name e.key d.attrs vars kw).map (·.path) = some (savePath name e) ∧
    ∀ c, Gen.loadDs extOfKey ex name e.key ltm cn chunks = .read c → c.path = loadPath name e := by
  obtain ⟨h1, h2, _⟩ := Harvest.c05_name_consistent name e
  obtain ⟨hs, hl⟩ := c14_save_load_same_path attrOps attrOps_exclusive extOfKey ex name e.key d.attrs vars kw ltm cn chunks
  refine ⟨by rw [hs, h1, extOfKey, engineOfKey_key], ?_⟩
  intro c hc
  rw [hl c hc, h2, extOfKey, engineOfKey_key]

/-- the `load_to_mem` / `chunks` rule: a ValueError exactly for `load_to_mem=True` with `chunks` (file present or no
`create_new`, engine not joblib) -/
theorem c14_load_value_error {C : Type} (ext : String → String → String) (ex : String → Bool) (name engine : String)
    (ltm : Option Bool) (cn : Bool) (chunks : Option C) (e : PyErr) :
    Gen.loadDs ext ex name engine ltm cn chunks = .raise e ↔
      (e = .valueError ∧ (!ex (ext name engine) && cn) = false ∧ engine ≠ "joblib" ∧ ltm = some true ∧ chunks.isSome = true) := by
  rw [loadDs_spec]
  generalize ex (ext name engine) = b
  by_cases hj : engine = "joblib" <;> cases b <;> cases cn <;> rcases ltm with _ | _ | _ <;> cases chunks <;>
    simp [hj, eq_comm]

/-- when is the dataset loaded into memory and the file closed before `load_ds` returns: iff NEITHER `load_to_mem` NOR
`chunks` was given.  In particular an explicit `load_to_mem=True` (without `chunks`) does not load: the `else` branch
of the source sets `load_to_mem = False` for every explicit value — see the builder's report -/
theorem c14_load_and_close {C : Type} (ext : String → String → String) (ex : String → Bool) (name engine : String)
    (ltm : Option Bool) (cn : Bool) (chunks : Option C) (c : ReadCall)
    (h : Gen.loadDs ext ex name engine ltm cn chunks = .read c) (hj : engine ≠ "joblib") :
    c.loadAndClose = (ltm.isNone && chunks.isNone) := by
  rw [loadDs_spec] at h
  split at h
  · cases h
  · split at h
    · cases h
    · injection h with h; subst h; rfl

example : Gen.loadDs (fun n e => n ++ e) (fun _ => true) "f" "h5netcdf" (some true) false (none : Option Unit) =
    .read ⟨.openDataset "h5netcdf" (some "netcdf4"), "fh5netcdf", true, false⟩ := by
  rw [loadDs_spec]; decide

/-- the readers at the four engines -/
theorem loadDs_readers (ext : String → String → String) (name : String) :
    Gen.loadDs ext (fun _ => true) name "joblib" none false (none : Option Unit) = .read ⟨.joblibLoad, ext name "joblib", false, false⟩ ∧
    Gen.loadDs ext (fun _ => true) name "zarr" none false (none : Option Unit) = .read ⟨.openZarr, ext name "zarr", true, true⟩ ∧
    Gen.loadDs ext (fun _ => true) name "h5netcdf" none false (none : Option Unit) =
      .read ⟨.openDataset "h5netcdf" (some "netcdf4"), ext name "h5netcdf", true, true⟩ ∧
    Gen.loadDs ext (fun _ => true) name "netcdf4" none false (none : Option Unit) =
      .read ⟨.openDataset "netcdf4" none, ext name "netcdf4", true, true⟩ := by
  simp [loadDs_spec]

/-! ## `save_df` / `load_df` -/

/-- **the pandas writer / reader tables**: `save_df` calls `df.to_<engine>(name, **kwargs)` with `key=key` for hdf and
`index=False` (unless given) for csv; `load_df` calls `pd.read_<engine>(name)` — the same `<engine>` — and hands NO
keyword argument on (the `key` it prepares for hdf never reaches the reader: `pd.read_hdf(name)` reads the only table of
the file, which is what `save_df` wrote) -/
theorem c14_df_tables (engine : String) :
    Gen.saveDf engine = { method := "to_" ++ engine, keyGiven := decide (engine = "hdf"),
                          indexFalse := decide (engine = "csv"), kwargsHandedOn := true } ∧
    Gen.loadDf engine = { method := "read_" ++ engine, keyGiven := false, indexFalse := false, kwargsHandedOn := false } := by
  constructor
  · by_cases h1 : engine = "hdf" <;> by_cases h2 : engine = "csv" <;>
      simp [Gen.saveDf, Gen.Default.saveDf, h1, h2]
  · by_cases h1 : engine = "hdf" <;> simp [Gen.loadDf, Gen.Default.loadDf, h1]

example : (Gen.saveDf "pickle").method = "to_pickle" ∧ (Gen.loadDf "pickle").method = "read_pickle" := by
  simp [c14_df_tables]

end StoreIO
