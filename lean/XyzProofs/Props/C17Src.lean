import XyzProofs.Lemmas.PlotPrep
/-!
# C17 on the TRANSLATED source (xyzpy/plot/core.py, harness/anchors_plotsrc.py)

`Gen.plZVals`, `Gen.plZLabels`, `Gen.plLegend`, `Gen.plGenXY`, `Gen.plGenX`, `Gen.plLoopNexts` are regenerated from the
source on every run.  Part 1: theorems for ARBITRARY dataset operations `o : Gen.PlotOps …` (one series per z value, in
order, series `k` made from z value `k` alone; the labels are `str(z)` per z value in order; the plotting loops take one
label per series).  Part 2: with the operations of the model (`PlotPrep.srcOps`) the translated functions compute what
`XyzModel/PlotPrep.lean` computes, so `c17_series_count_order_labels`, `c17_legend_or_colorbar`, … speak about the source.
-/
namespace PlotPrep
open List Gen

/-! ## Part 1 — any operations -/

section Abstract
variable {D A F M C Z : Type}

/-- an iteration that, when it succeeds, yields exactly one series -/
def YieldsOne {Y C : Type} (x : Except PErr (List Y × List C)) : Prop := ∀ s, x = .ok s → s.1.length = 1

theorem yieldsOne_bind {α Y C : Type} (x : Except PErr α) (f : α → Except PErr (List Y × List C))
    (h : ∀ a, YieldsOne (f a)) : YieldsOne (x >>= f) := by
  intro s hs
  cases x with
  | error e => simp [bind, Except.bind] at hs
  | ok a => exact h a s hs

theorem yieldsOne_pure {Y C : Type} (s : List Y × List C) (h : s.1.length = 1) :
    YieldsOne (pure s : Except PErr (List Y × List C)) := by
  intro s' hs
  simp only [pure, Except.pure, Except.ok.injEq] at hs
  subst hs; exact h

theorem yieldsOne_ite {Y C : Type} (c : Prop) [Decidable c] (a b : Except PErr (List Y × List C))
    (ha : YieldsOne a) (hb : YieldsOne b) : YieldsOne (if c then a else b) := by
  split <;> assumption

/-- structural proof that a translated generator body yields exactly one series on every path -/
macro "yields_one" : tactic => `(tactic|
  repeat (first
    | (apply yieldsOne_pure; simp; done)
    | (apply yieldsOne_bind; intro a; (try dsimp only))
    | (apply yieldsOne_ite)
    | dsimp only))

private theorem foldlM_plLoop {α Y C : Type} (step : Nat → α → Except PErr (List Y × List C)) :
    ∀ (l : List (Nat × α)) (acc r : List Y × List C)
      (_ : l.foldlM (fun acc p => match step p.1 p.2 with
        | .ok r => .ok (acc.1 ++ r.1, acc.2 ++ r.2)
        | .error e => .error e) acc = Except.ok r)
      (_ : ∀ i z, YieldsOne (step i z)),
      r.1.length = acc.1.length + l.length ∧
      (∀ j, j < acc.1.length → r.1[j]? = acc.1[j]?) ∧
      ∀ k (hk : k < l.length), ∃ d cc, step l[k].1 l[k].2 = .ok ([d], cc) ∧ r.1[acc.1.length + k]? = some d
  | [], acc, r, h, _ => by
    simp only [foldlM_nil, pure, Except.pure, Except.ok.injEq] at h
    subst h; simp
  | p :: l, acc, r, h, h1 => by
    simp only [foldlM_cons, bind, Except.bind] at h
    cases hs : step p.1 p.2 with
    | error e => simp [hs] at h
    | ok s =>
      simp only [hs] at h
      have hlen := h1 p.1 p.2 s hs
      obtain ⟨d, hd⟩ : ∃ d, s.1 = [d] := by
        cases hh : s.1 with
        | nil => simp [hh] at hlen
        | cons d t => cases t with
          | nil => exact ⟨d, rfl⟩
          | cons _ _ => simp [hh] at hlen
      obtain ⟨ih1, ih2, ih3⟩ := foldlM_plLoop step l _ r h h1
      simp only [hd, length_append, length_cons, length_nil] at ih1 ih2 ih3
      refine ⟨by simp; omega, ?_, ?_⟩
      · intro j hj
        rw [ih2 j (by omega), getElem?_append_left hj]
      · intro k hk
        cases k with
        | zero =>
          refine ⟨d, s.2, ?_, ?_⟩
          · simp only [getElem_cons_zero]; rw [hs, ← hd]
          · have := ih2 acc.1.length (by omega); simpa using this
        | succ k =>
          obtain ⟨d', cc, h3, h4⟩ := ih3 k (by simpa using hk)
          refine ⟨d', cc, by simpa using h3, ?_⟩
          rw [← h4]; congr 1; omega

/-- the generator loop: one series per element, in order; series `k` is what the iteration `(k, l[k])` yields -/
theorem plLoop_spec {α Y C : Type} (step : Nat → α → Except PErr (List Y × List C)) (l : List α) (r : List Y × List C)
    (h : plLoop step (plEnumerate l) = .ok r) (h1 : ∀ i z, YieldsOne (step i z)) :
    r.1.length = l.length ∧ ∀ k (hk : k < l.length), ∃ d cc, step k l[k] = .ok ([d], cc) ∧ r.1[k]? = some d := by
  obtain ⟨a, _, c⟩ := foldlM_plLoop step (plEnumerate l) ([], []) r h h1
  have hl : (plEnumerate l).length = l.length := by simp [plEnumerate]
  refine ⟨by simpa [hl] using a, ?_⟩
  intro k hk
  obtain ⟨d, cc, h3, h4⟩ := c k (by omega)
  refine ⟨d, cc, ?_, by simpa using h4⟩
  simpa [plEnumerate] using h3

/-- the generator run on ONE z value -/
theorem plLoop_single {α Y C : Type} (step : Nat → α → Except PErr (List Y × List C)) (z : α) (s : List Y × List C)
    (h : step 0 z = .ok s) : plLoop step (plEnumerate [z]) = .ok s := by
  simp [plLoop, plEnumerate, h, bind, Except.bind, pure, Except.pure]

/-- the operations seen by the `k`-th iteration when it is run alone: positional selection counts from `k` -/
def shiftOps (o : PlotOps D A F M C Z) (k : Nat) : PlotOps D A F M C Z :=
  { o with isel := fun d key j => o.isel d key (k + j) }

/-- **one series per z value, in order, each made from its own z value** (translated `gen_xy`, any dataset operations):
a successful run of the generator over `zVals` yields exactly `zVals.length` series, and series `k` is exactly what the
generator yields when run on the single z value `zVals[k]` at position `k`.  (A `continue` that skips a series, a loop
over the reversed values, a second `yield` all break this.) -/
theorem c17_src_genxy_series_per_z (o : PlotOps D A F M C Z) (ds : D) (zVals : List (PZ Z)) (multiVar : Bool)
    (xCoo yCoo : String) (zCoo cCoo yErr xErr : Option String) (mode : String) (r : List (List (String × F)) × List C)
    (h : Gen.plGenXY o ds zVals multiVar xCoo yCoo zCoo cCoo yErr xErr mode = .ok r) :
    r.1.length = zVals.length ∧
    ∀ k (hk : k < zVals.length), ∃ d cc,
      Gen.plGenXY (shiftOps o k) ds [zVals[k]] multiVar xCoo yCoo zCoo cCoo yErr xErr mode = .ok ([d], cc) ∧
      r.1[k]? = some d := by
  simp only [Gen.plGenXY, Gen.Default.plGenXY] at h ⊢
  obtain ⟨hl, hk⟩ := plLoop_spec _ _ _ h (by intro i z; yields_one)
  refine ⟨hl, ?_⟩
  intro k hk'
  obtain ⟨d, cc, h3, h4⟩ := hk k hk'
  exact ⟨d, cc, plLoop_single _ _ _ h3, h4⟩

/-- the same for the histogram generator `gen_x` -/
theorem c17_src_genx_series_per_z (o : PlotOps D A F M C Z) (ds : D) (zVals : List (PZ Z)) (multiVar : Bool)
    (xCoo yCoo : String) (zCoo cCoo yErr xErr : Option String) (mode : String) (r : List (List (String × F)) × List C)
    (h : Gen.plGenX o ds zVals multiVar xCoo yCoo zCoo cCoo yErr xErr mode = .ok r) :
    r.1.length = zVals.length ∧
    ∀ k (hk : k < zVals.length), ∃ d cc,
      Gen.plGenX (shiftOps o k) ds [zVals[k]] multiVar xCoo yCoo zCoo cCoo yErr xErr mode = .ok ([d], cc) ∧
      r.1[k]? = some d := by
  simp only [Gen.plGenX, Gen.Default.plGenX] at h ⊢
  obtain ⟨hl, hk⟩ := plLoop_spec _ _ _ h (by intro i z; yields_one)
  refine ⟨hl, ?_⟩
  intro k hk'
  obtain ⟨d, cc, h3, h4⟩ := hk k hk'
  exact ⟨d, cc, plLoop_single _ _ _ h3, h4⟩

end Abstract

/-! ## Part 2 — the translated functions compute what the model computes -/

/-- **legend / colour bar**: the translated body of `calc_use_legend_or_colorbar` (truth values of its two results) is the
model's `legendOrColorbar`; hence `c17_legend_or_colorbar` is a statement about the source -/
theorem c17_src_legend_refines (n : Nat) (legend colorbar : Option Bool) (hasC colorsTrue : Bool) :
    ((Gen.plLegend n legend colorbar hasC colorsTrue).1.getD false,
     (Gen.plLegend n legend colorbar hasC colorsTrue).2.getD false) =
      legendOrColorbar n legend colorbar hasC colorsTrue := by
  simp only [Gen.plLegend, Gen.Default.plLegend, legendOrColorbar, Gen.autoLegend, Gen.Default.autoLegend]
  rcases legend with _ | _ | _ <;> rcases colorbar with _ | _ | _ <;> cases hasC <;> cases colorsTrue <;>
    by_cases h1 : (1 : Int) < (n : Int) <;> by_cases h2 : (n : Int) ≤ 10 <;> simp [h1, h2]

/-- the rule on the translated body directly: with no explicit choice 2..10 series get a legend; explicit choices are honoured -/
theorem c17_src_legend_rule (n : Nat) (hasC colorsTrue : Bool) :
    (Gen.plLegend n none none hasC colorsTrue).1 = some (decide (1 < n ∧ n ≤ 10)) ∧
    (∀ a b, Gen.plLegend n (some a) (some b) hasC colorsTrue = (some a, some b)) := by
  simp only [Gen.plLegend, Gen.Default.plLegend]
  refine ⟨?_, ?_⟩
  · by_cases h1 : 1 < n <;> by_cases h2 : n ≤ 10 <;> simp [h1, h2] <;> omega
  · intro a b; cases a <;> cases b <;> simp

example : Gen.plLegend 10 none none false true = (some true, some false) := by decide
example : Gen.plLegend 11 none none false true = (some false, some true) := by decide
example : Gen.plLegend 3 none (some true) false false = (some false, some true) := by decide

/-- the `x` / `y` arguments of the model's call, as the dynamically typed arguments of the source -/
def yArg (call : Call) : NameArg := if call.multi && call.kind != .histogram then .many call.y else .one call.y1
def xArg (call : Call) : NameArg := if call.multi && call.kind == .histogram then .many call.x else .one call.x1

/-- a z value of the source as the model's -/
def zOf : PZ (Nat × String) → ZVal
  | .coord (i, l) => .coord i l
  | .name s => .var s
  | .none => .single

section ZVals
variable {D A F M C : Type}

/-- operations whose coordinate values are (position, `str`) pairs, as the model keeps them -/
def ModelCoords (o : PlotOps D A F M C (Nat × String)) (ds : D) (m : DS) : Prop :=
  (∀ z, o.coordValues ds z = (m.labels z).mapIdx fun i l => (i, l)) ∧ ∀ v, o.str v = v.2

/-- **which case gives the z values** (translated `prepare_z_vals`): the z coordinate's values in the dataset's order,
else the several y names, else the several x names (histogram), else the single `None`; with the multi-variable flag -/
theorem c17_src_zvals_refines (o : PlotOps D A F M C (Nat × String)) (ds : D) (m : DS) (call : Call)
    (ho : ModelCoords o ds m) (grid : Bool) (mode : String) :
    ∃ zs, Gen.plZVals o ds call.z (yArg call) (xArg call) grid mode = .ok (call.z.isNone && call.multi, zs) ∧
      zs.map zOf = prepareZVals m call := by
  simp only [Gen.plZVals, Gen.Default.plZVals, yArg, xArg, prepareZVals, bind, Except.bind, pure, Except.pure]
  cases hz : call.z with
  | some z =>
    refine ⟨_, rfl, ?_⟩
    simp only [ho.1]
    apply ext_getElem <;> simp [zOf]
  | none =>
    cases hm : call.multi <;> by_cases hk : call.kind = .histogram <;>
      simp [hk, zOf, Function.comp_def]

/-- the order of the z values on the translated body, for ANY operations: exactly the coordinate's values, in order -/
theorem c17_src_zvals_order {Z : Type} (o : PlotOps D A F M C Z) (ds : D) (z : String) (yCoo xCoo : NameArg)
    (grid : Bool) (mode : String) :
    Gen.plZVals o ds (some z) yCoo xCoo grid mode = .ok (false, (o.coordValues ds z).map PZ.coord) := by
  simp only [Gen.plZVals, Gen.Default.plZVals, bind, Except.bind, pure, Except.pure]

/-- `k` labels taken from the iterator by `next` -/
def takeLabels : Nat → PLabels → Option (List (Option String))
  | 0, _ => some []
  | k + 1, it => match it.next with
    | some (a, it') => (takeLabels k it').map (a :: ·)
    | none => none

theorem takeLabels_finite (l : List (Option String)) : takeLabels l.length (.finite l) = some l := by
  induction l with
  | nil => rfl
  | cons a l ih => simp [takeLabels, PLabels.next, ih]

/-- **labels** (translated `prepare_z_labels`, any operations): without given labels and with a z coordinate or several
variables, the iterator holds exactly `str(z)` for each z value, in the order of the z values: taking one label per
series gives series `k` the label of z value `k` -/
theorem c17_src_zlabels_order {Z : Type} (o : PlotOps D A F M C Z) (zCoo : Option String) (multiVar : Bool)
    (zVals : List (PZ Z)) (h : zCoo.isSome || multiVar) :
    ∃ it, Gen.plZLabels o none zCoo multiVar zVals = .ok it ∧
      takeLabels zVals.length it = some (zVals.map fun z => some (PZ.key o.str z)) := by
  refine ⟨.finite (zVals.map fun z => some (PZ.key o.str z)), ?_, ?_⟩
  · simp only [Gen.plZLabels, Gen.Default.plZLabels, bind, Except.bind, pure, Except.pure]
    cases zCoo <;> cases multiVar <;> simp_all
  · have := takeLabels_finite (zVals.map fun z => some (PZ.key o.str z))
    simpa using this

/-- given labels are used as they are, in their order; no z coordinate and a single variable: no labels at all -/
theorem c17_src_zlabels_given {Z : Type} (o : PlotOps D A F M C Z) (zCoo : Option String) (multiVar : Bool)
    (zVals : List (PZ Z)) (given : List String) :
    Gen.plZLabels o (some given) zCoo multiVar zVals = .ok (.finite (given.map some)) ∧
    Gen.plZLabels o none none false zVals = .ok .repeatNone := by
  simp only [Gen.plZLabels, Gen.Default.plZLabels, bind, Except.bind, pure, Except.pure]
  simp

/-- **count, order, labels on the source**: the z values of the translated `prepare_z_vals` and the labels the translated
`prepare_z_labels` hands out for them, one per series, are the model's `prepareZVals` / `prepareZLabels`: the right-hand
sides of `c17_series_count_order_labels` -/
theorem c17_src_labels_refine (o : PlotOps D A F M C (Nat × String)) (ds : D) (m : DS) (call : Call)
    (ho : ModelCoords o ds m) (grid : Bool) (mode : String) :
    ∃ mv zs it, Gen.plZVals o ds call.z (yArg call) (xArg call) grid mode = .ok (mv, zs) ∧
      Gen.plZLabels o none call.z mv zs = .ok it ∧
      zs.map zOf = prepareZVals m call ∧
      takeLabels zs.length it = some (prepareZLabels (prepareZVals m call)) := by
  obtain ⟨zs, h1, h2⟩ := c17_src_zvals_refines o ds m call ho grid mode
  by_cases hc : (call.z.isSome || (call.z.isNone && call.multi)) = true
  · obtain ⟨it, h3, h4⟩ := c17_src_zlabels_order o call.z (call.z.isNone && call.multi) zs hc
    refine ⟨_, zs, it, h1, h3, h2, ?_⟩
    rw [h4, ← h2]
    simp only [prepareZLabels, map_map, Option.some.injEq]
    apply map_congr_left
    intro z hz
    simp only [Function.comp_def]
    have : z.isNone = false := by
      have hmem : zOf z ∈ prepareZVals m call := by rw [← h2]; exact mem_map_of_mem hz
      cases hzz : call.z with
      | some zz => simp [prepareZVals, hzz] at hmem; obtain ⟨_, _, hh⟩ := hmem; rcases z with ⟨_, _⟩ | _ | _ <;> simp_all [zOf, PZ.isNone]
      | none =>
        have hm : call.multi = true := by simpa [hzz] using hc
        simp [prepareZVals, hzz, hm] at hmem
        obtain ⟨_, _, hh⟩ := hmem
        rcases z with ⟨_, _⟩ | _ | _ <;> simp_all [zOf, PZ.isNone]
    rcases z with ⟨i, l⟩ | s | _ <;> simp_all [zOf, PZ.isNone, PZ.key, ho.2]
  · have hz : call.z = none := by cases h : call.z <;> simp_all
    have hm : call.multi = false := by cases h : call.multi <;> simp_all
    have hzs : prepareZVals m call = [.single] := by simp [prepareZVals, hz, hm]
    refine ⟨_, zs, .repeatNone, h1, ?_, h2, ?_⟩
    · simpa [hz, hm] using (c17_src_zlabels_given o none false zs []).2
    · have hl : zs.length = 1 := by simpa [hzs] using congrArg length h2
      rw [hl, hzs]; rfl

end ZVals

/-- **one label per series** (translated loops of `plot_lines` / `plot_scatter` / `plot_histogram`): each iteration over
the yielded series advances `_zlbls` exactly once, unconditionally -/
theorem c17_src_loops_take_one_label :
    Gen.plLoopNexts.map (·.1) = ["plot_lines", "plot_scatter", "plot_histogram"] ∧
    ∀ e ∈ Gen.plLoopNexts, e.2.1.count "_zlbls" = 1 ∧ e.2.2.count "_zlbls" = 0 := by
  simp only [Gen.plLoopNexts, Gen.Default.plLoopNexts]
  decide

/-! ### colour limits (translated `calc_color_norm`) -/

/-- where a limit of the translated normalisation comes from, in the model's terms -/
def limSrcOf : Option LimV → LimSrc
  | some (.arg _ _) => .given
  | some (.zlim _) => .zlim
  | some _ => .data
  | none => .unset

/-- **colour limits on the source**: the limits the translated `calc_color_norm` hands to the normalisation: the caller's
`vmin` / `vmax` whenever given (zero included), else — for a numeric colour quantity — `zlims[0]` / `zlims[1]` if given, else
the minimum / maximum of the FINITE data; 0.0 / 1.0 for a non-numeric one.  Never `None`. -/
theorem c17_src_colour_limits (numeric : Bool) (vmin vmax : Option Bool) (zlimLo zlimHi : Bool) :
    (∀ z, vmin = some z → (Gen.plColorNorm numeric vmin vmax zlimLo zlimHi).1 = some (.arg 0 z)) ∧
    (∀ z, vmax = some z → (Gen.plColorNorm numeric vmin vmax zlimLo zlimHi).2 = some (.arg 1 z)) ∧
    (vmin = none → (Gen.plColorNorm numeric vmin vmax zlimLo zlimHi).1 =
      some (if numeric then (if zlimLo then .zlim 0 else .dataMin) else .const "0.0")) ∧
    (vmax = none → (Gen.plColorNorm numeric vmin vmax zlimLo zlimHi).2 =
      some (if numeric then (if zlimHi then .zlim 1 else .dataMax) else .const "1.0")) := by
  simp only [Gen.plColorNorm, Gen.Default.plColorNorm]
  refine ⟨?_, ?_, ?_, ?_⟩
  · intro z h; subst h; simp
  · intro z h; subst h; simp
  · intro h; subst h; cases numeric <;> cases zlimLo <;> simp
  · intro h; subst h; cases numeric <;> cases zlimHi <;> simp

/-- the translated limits are the model's `colourLimits`: `c17_colour_limits` speaks about the source -/
theorem c17_src_colour_limits_refine (call : Call) :
    (limSrcOf (Gen.plColorNorm (zlimsApply call) (call.vmin.map (·.isZero)) (call.vmax.map (·.isZero)) call.zlimLo call.zlimHi).1,
     limSrcOf (Gen.plColorNorm (zlimsApply call) (call.vmin.map (·.isZero)) (call.vmax.map (·.isZero)) call.zlimLo call.zlimHi).2) =
      colourLimits call := by
  simp only [Gen.plColorNorm, Gen.Default.plColorNorm, colourLimits, limitSource, Gen.vminDefaulted, Gen.Default.vminDefaulted,
    Gen.vmaxDefaulted, Gen.Default.vmaxDefaulted]
  generalize zlimsApply call = num
  rcases hv : call.vmin with _ | ⟨a⟩ <;> rcases hw : call.vmax with _ | ⟨b⟩ <;> cases num <;> cases call.zlimLo <;>
    cases call.zlimHi <;> simp [limSrcOf]

example : Gen.plColorNorm true (some true) none false true = (some (.arg 0 true), some (.zlim 1)) := by decide
example : Gen.plColorNorm true none none false false = (some .dataMin, some .dataMax) := by decide
example : Gen.plColorNorm false none (some false) true true = (some (.const "0.0"), some (.arg 1 false)) := by decide

/-! ### the grid of panels (translated `calc_row_col_datasets`) -/

theorem labels_length (m : DS) (d : String) : (m.labels d).length = m.size d := by
  simp only [DS.labels, DS.size]
  cases m.dim? d <;> simp

/-- **panels on the source**: the translated `calc_row_col_datasets` selects, row by row and column by column in the order
of the coordinates, exactly the slices of the model's `calcRowCol` (`c17_panels`), and reports its shape -/
theorem c17_src_rowcol_refines {D A F M C : Type} (o : PlotOps D A F M C (Nat × String)) (ds : D) (m : DS)
    (ho : ModelCoords o ds m) (row col : Option String) (h : (row.isSome || col.isSome) = true) :
    (Gen.plRowCol o ds row col).map (fun g => (g.1.map (·.map (·.map fun p => (p.1, p.2.1))), g.2)) =
      some ((calcRowCol m row col).map (·.map (·.2.2)), nRows m row, nCols m col) := by
  simp only [Gen.plRowCol, Gen.Default.plRowCol]
  rcases row with _ | r <;> rcases col with _ | c
  · simp at h
  · simp only [ho.1, calcRowCol, nRows, nCols, Option.map_some, Option.some.injEq, Prod.mk.injEq, length_mapIdx, labels_length,
      and_true, map_cons, map_nil, mapIdx_cons, mapIdx_nil, cons.injEq]
    apply ext_getElem <;> simp [labels_length]
  · simp only [ho.1, calcRowCol, nRows, nCols, Option.map_some, Option.some.injEq, Prod.mk.injEq, length_mapIdx, labels_length,
      and_true]
    apply ext_getElem <;> simp [labels_length]
  · simp only [ho.1, calcRowCol, nRows, nCols, Option.map_some, Option.some.injEq, Prod.mk.injEq, length_mapIdx, labels_length,
      and_true]
    apply ext_getElem
    · simp [labels_length]
    · intro i h1 h2
      simp only [getElem_map, getElem_mapIdx]
      apply ext_getElem <;> simp [labels_length]

end PlotPrep
