import Mathlib.Tactic.Linarith
import Mathlib.Tactic.FieldSimp
import Mathlib.Tactic.Ring
import XyzProofs.Lemmas.Infini
/-!
# C18 — infiniplot draws each data slice once, correctly styled and correctly placed  (partial claim)

Theorems about the executable model `XyzModel/Infini.lean`: which slices are drawn, in which panel, with which data,
with which style indices / linspace values, exact histogram counts and heat-map cells, and that the dataset given is
never changed.  The model is tied to the code by extraction (default marker / line-style cycles, the not-null mask) and
by differential execution of every drawn artist (harness/props/c18.py).  matplotlib, xarray's aggregation numerics and
colour generation are validated by execution only.
-/
namespace Infini
open List PlotPrep

/-! ### each slice with data exactly once -/

/-- **each slice once**: the drawn lines are, in enumeration order, exactly the combinations of the iterated coordinates
that have data — each of them once, none without data -/
theorem c18_each_slice_once (f : Final) :
    f.lines.map (·.loc) = f.choices.filter (fun ch => (f.mask ch).any id) ∧
    (f.lines.map (·.loc)).Nodup ∧
    (∀ ch, ch ∈ f.lines.map (·.loc) ↔ ch ∈ f.choices ∧ (f.mask ch).any id = true) ∧
    (∀ ch, ch ∈ f.choices → (f.mask ch).any id = true → (f.lines.filter (fun l => l.loc == ch)).length = 1) := by
  have hmap : f.lines.map (·.loc) = f.choices.filter (fun ch => (f.mask ch).any id) := by
    unfold Final.lines
    rw [filterMap_map_key f.lineOf (·.loc) (fun a b h => (lineOf_some f a b h).1)]
    congr 1
    funext ch
    exact lineOf_isSome f ch
  have hnd : (f.lines.map (·.loc)).Nodup := by
    rw [hmap]
    exact (nodup_choicesOf f.remaining).sublist filter_sublist
  refine ⟨hmap, hnd, ?_, ?_⟩
  · intro ch
    rw [hmap, mem_filter]
  · intro ch hch hd
    have hmem : ch ∈ f.lines.map (·.loc) := by rw [hmap, mem_filter]; exact ⟨hch, hd⟩
    have h1 := length_filter_beq_of_nodup (f.lines.map (·.loc)) ch hnd hmem
    rw [filter_map, length_map] at h1
    rw [← h1]
    congr 1

/-! ### panel -/

/-- **panel**: a line is drawn in the axes `[index of its row coordinate, index of its column coordinate]`, which
exists in the grid of `nrows × ncols` axes -/
theorem c18_panel (f : Final) :
    ∀ l ∈ f.lines, l.i = (f.propIdx "row" l.loc).getD 0 ∧ l.j = (f.propIdx "col" l.loc).getD 0 ∧
      l.i < f.nrows ∧ l.j < f.ncols := by
  intro l hl
  obtain ⟨ch, hch, hlo⟩ := (mem_filterMap_key f.lineOf f.choices l).mp hl
  obtain ⟨hloc, _, hi, hj, _⟩ := lineOf_some f ch l hlo
  subst hloc
  refine ⟨hi, hj, ?_, ?_⟩
  · rw [hi]; exact propIdx_lt f "row" _ hch
  · rw [hj]; exact propIdx_lt f "col" _ hch

/-! ### data -/

/-- **data**: a line carries exactly its slice's x and y values: all of them (NaNs kept as gaps) by default; with
`join_across_missing` exactly the positions where y (and x) is not null, in order, x and y staying paired -/
theorem c18_data (f : Final) :
    ∀ l ∈ f.lines,
      (f.req.join = false → l.x = f.sliceX ∧ l.y = f.sliceY l.loc) ∧
      (f.req.join = true →
        l.y.zip l.x = ((f.sliceY l.loc).zip f.sliceX).filter (fun p => p.1.notNull && notNan p.2) ∧
        l.y.Sublist (f.sliceY l.loc) ∧ l.x.Sublist f.sliceX) ∧
      (f.aggd = [] → f.sliceY l.loc = (List.range (f.st.ds.size f.req.x)).map fun k =>
        .cell (f.st.ds.cell f.st.var ((f.req.x, k) :: envOfChoice f.remaining l.loc))) := by
  intro l hl
  obtain ⟨ch, hch, hlo⟩ := (mem_filterMap_key f.lineOf f.choices l).mp hl
  obtain ⟨hloc, _, _, _, _, hx, hy⟩ := lineOf_some f ch l hlo
  subst hloc
  refine ⟨?_, ?_, ?_⟩
  · intro hj; simp [hx, hy, hj]
  · intro hj
    simp only [hj, if_true] at hx hy
    refine ⟨?_, ?_, ?_⟩
    · rw [hx, hy]
      unfold Final.mask
      rw [applyMask_zipWith_zip]
      simp only [Gen.infMaskBothNotNull, Gen.Default.infMaskBothNotNull]
    · rw [hy]; exact applyMask_sublist _ _
    · rw [hx]; exact applyMask_sublist _ _
  · intro ha
    simp [Final.sliceY, Final.valueAt, ha]

/-! ### style -/

/-- **style is a function of the mapped coordinate**: two slices with the same coordinate along the dimension mapped to
a property get the same value of that property -/
theorem c18_style_function (f : Final) (ch1 ch2 : List Nat) :
    (∀ prop p, f.propPos prop = some p → ch1.getD p 0 = ch2.getD p 0 → f.propIdx prop ch1 = f.propIdx prop ch2) ∧
    (f.propIdx "color" ch1 = f.propIdx "color" ch2 → (f.style ch1).color = (f.style ch2).color) ∧
    (f.propIdx "hue" ch1 = f.propIdx "hue" ch2 → (f.style ch1).hue = (f.style ch2).hue) ∧
    (f.propIdx "marker" ch1 = f.propIdx "marker" ch2 → (f.style ch1).marker = (f.style ch2).marker) ∧
    (f.propIdx "linestyle" ch1 = f.propIdx "linestyle" ch2 → (f.style ch1).linestyle = (f.style ch2).linestyle) ∧
    (f.propIdx "markersize" ch1 = f.propIdx "markersize" ch2 → (f.style ch1).markersize = (f.style ch2).markersize) ∧
    (f.propIdx "linewidth" ch1 = f.propIdx "linewidth" ch2 → (f.style ch1).linewidth = (f.style ch2).linewidth) := by
  refine ⟨?_, ?_, ?_, ?_, ?_, ?_, ?_⟩
  · intro prop p hp h
    simp only [Final.propIdx, hp, Option.map_some, h]
  all_goals (intro h; simp [Final.style, h])

/-- **distinct coordinates get distinct default styles** while distinct defaults remain: markers for up to as many
coordinates as there are default markers (15), line styles likewise (6); the linspace-type marker sizes and line widths
for any number of coordinates -/
theorem c18_style_injective (n i j : Nat) (hij : i < j) (hj : j < n) :
    (n ≤ Gen.markersDefault.length →
      Gen.markersDefault.getD (markerOf i) "" ≠ Gen.markersDefault.getD (markerOf j) "") ∧
    (n ≤ Gen.linestylesDefault.length →
      Gen.linestylesDefault.getD (linestyleOf i) "" ≠ Gen.linestylesDefault.getD (linestyleOf j) "") ∧
    linspace 3 9 n i ≠ linspace 3 9 n j ∧ linspace 1 3 n i ≠ linspace 1 3 n j := by
  refine ⟨?_, ?_, linspace_injective 3 9 (by decide) n i j hij hj, linspace_injective 1 3 (by decide) n i j hij hj⟩
  · intro hn
    have hi' : i < Gen.markersDefault.length := by omega
    have hj' : j < Gen.markersDefault.length := by omega
    simp only [markerOf, Nat.mod_eq_of_lt hi', Nat.mod_eq_of_lt hj']
    exact getD_inj_of_nodup markers_nodup i j hi' hj' (by omega)
  · intro hn
    have hi' : i < Gen.linestylesDefault.length := by omega
    have hj' : j < Gen.linestylesDefault.length := by omega
    simp only [linestyleOf, Nat.mod_eq_of_lt hi', Nat.mod_eq_of_lt hj']
    exact getD_inj_of_nodup linestyles_nodup i j hi' hj' (by omega)

/-! ### histogram -/

/-- **counts**: bin `k` counts exactly the values `v` with `lo ≤ v < hi` (`≤ hi` for the last bin); there is one bin per
pair of consecutive edges; densities are `count / (total · width)` -/
theorem c18_hist_counts (edges vals : List Rat) :
    (counts edges vals).length = (bins edges).length ∧
    (bins edges).length = edges.length - 1 ∧
    (∀ k (h : k < (bins edges).length) (h' : k < (counts edges vals).length),
      (counts edges vals)[k] = (vals.filter (inBin (bins edges)[k])).length) ∧
    (histY false edges vals = (counts edges vals).map .count) ∧
    ((counts edges vals).sum ≠ 0 →
      histY true edges vals = List.zipWith (fun (c : Nat) (w : Rat) =>
        YVal.dens ((c : Rat) / (((counts edges vals).sum : Nat) * w))) (counts edges vals) (widths edges)) := by
  refine ⟨by simp [counts], ?_, ?_, ?_, ?_⟩
  · induction edges with
    | nil => rfl
    | cons a rest ih =>
      cases rest with
      | nil => rfl
      | cons b r => simp only [bins, length_cons] at ih ⊢; omega
  · intro k h h'; simp [counts]
  · simp [histY]
  · intro hne
    simp [histY, hne]

/-- **total**: with strictly increasing edges every value inside `[first edge, last edge]` is counted in exactly one
bin and no other value is counted: the counts add up to the number of values in range -/
theorem c18_hist_total (a b : Rat) (rest : List Rat) (vals : List Rat)
    (hs : (a :: b :: rest).Pairwise (· < ·)) :
    (counts (a :: b :: rest) vals).sum =
      (vals.filter fun v => decide (a ≤ v ∧ v ≤ (b :: rest).getLast (by simp))).length := by
  unfold counts
  rw [sum_filter_length_comm (fun bn v => inBin bn v)]
  induction vals with
  | nil => simp
  | cons v vs ih =>
    rw [map_cons, sum_cons, ih, covered a b rest hs v, filter_cons]
    by_cases h : a ≤ v ∧ v ≤ (b :: rest).getLast (by simp)
    · simp [h]; omega
    · simp [h]

/-! ### heat map -/

/-- **heat-map cells**: every combination of the iterated (row / col) coordinates gets exactly one mesh, in its panel;
row `jj`, column `ii` of the mesh is the (aggregated, if requested) value at (x_ii, y_jj) of that slice -/
theorem c18_heatmap_cells (f : Final) :
    f.meshes.map (·.loc) = f.choices ∧
    ∀ m ∈ f.meshes,
      m.i = (f.propIdx "row" m.loc).getD 0 ∧ m.j = (f.propIdx "col" m.loc).getD 0 ∧
      m.i < f.nrows ∧ m.j < f.ncols ∧
      m.cells.length = f.st.ds.size (f.req.y.getD "") ∧
      ∀ jj ii (hj : jj < m.cells.length) (hi : ii < m.cells[jj].length),
        m.cells[jj].length = f.st.ds.size f.req.x ∧
        m.cells[jj][ii] = f.valueAt m.loc [(f.req.x, ii), (f.req.y.getD "", jj)] := by
  refine ⟨by simp [Final.meshes, Final.meshOf, Function.comp_def], ?_⟩
  intro m hm
  simp only [Final.meshes, mem_map] at hm
  obtain ⟨ch, hch, rfl⟩ := hm
  refine ⟨rfl, rfl, propIdx_lt f "row" ch hch, propIdx_lt f "col" ch hch, by simp [Final.meshOf], ?_⟩
  intro jj ii hj hi
  simp [Final.meshOf]

/-! ### purity -/

/-- **pure**: fusing, ordering, dropping all-NaN coordinates and splitting into iterated/aggregated dimensions never
change the dataset the plotter was given; everything drawn is read from that very dataset -/
theorem c18_pure (ds : DS) (r : Request) (st : State) (maps : List (String × Mapping)) :
    (initAll st maps).ds = st.ds ∧ (finalOf ds r).st.ds = ds := by
  refine ⟨ds_initAll_aux PROPS st maps, ?_⟩
  simp only [finalOf]
  rw [show (initAll (initState ds r) (normMaps r.maps)).ds = (initState ds r).ds from ds_initAll_aux PROPS _ _]
  rfl

/-! ### Non-vacuity -/

def exDS : DS :=
  { dims := [{ name := "x", labels := ["1", "2"], tlabels := ["1", "2"] },
             { name := "a", labels := ["p", "q", "r"], tlabels := ["p", "q", "r"] }]
    vars := [{ name := "x", dims := ["x"], cells := [.fin 100, .fin 101] },
             -- y(a, x): the second line has a gap, the third is all-NaN
             { name := "y", dims := ["a", "x"], cells := [.fin 0, .fin 1, .nan, .fin 3, .nan, .nan] }] }

def exReq : Request := { x := "x", y := some "y", maps := [("marker", { dims := ["a"] })] }

-- the all-NaN coordinate "r" is dropped, the gap is kept

example : ((finalOf exDS exReq).lines.map fun l => (l.loc, l.y, l.style.marker)) =
    [([0], [.cell (.fin 0), .cell (.fin 1)], some 0), ([1], [.cell .nan, .cell (.fin 3)], some 1)] := by decide

example : ((finalOf exDS { exReq with join := true }).lines.map fun l => (l.x, l.y)) =
    [([.fin 100, .fin 101], [.cell (.fin 0), .cell (.fin 1)]), ([.fin 101], [.cell (.fin 3)])] := by decide

example : ((finalOf exDS { x := "x", y := some "y", maps := [("row", { dims := ["a"], order := some ["q", "p"] })] }).lines.map
    fun l => (l.i, l.j, l.y)) = [(0, 0, [.cell .nan, .cell (.fin 3)]), (1, 0, [.cell (.fin 0), .cell (.fin 1)])] := by decide

example : counts [0, 1, 2] [0, 1 / 2, 1, 2, 3] = [2, 2] := by decide +kernel

example : bins [0, 1, 2] = [(0, 1, false), (1, 2, true)] := by decide +kernel

end Infini
