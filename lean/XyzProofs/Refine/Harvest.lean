import XyzProofs.Props.C05
import XyzProofs.Lemmas.TwoMode
/-!
# The Harvester's storage methods: the hand-written model IS the translated source (state skeletons)

`Gen.hvLoadFull`, `Gen.hvSaveFull`, `Gen.hvAddDs` are regenerated on every run from the bodies of
`Harvester.load_full_ds`, `save_full_ds`, `add_ds` (harness/anchors_st.py): functions over an abstract state and a record
of operations `Gen.StoreOps`.  Here the operations get their meaning on the model's store (`Harvest.ops`), and the
hand-written `Harvest.loadFull`, `Harvest.saveFullNew`, `Harvest.addDs` are shown to be these functions at that
instance — the session exactly, the store up to the finite map it represents (`SameMap`: the model keeps an association
list, and "write aside then move over" leaves the entries in another order than "remove then write"; every observation
of the model — `load`, `shas` — is a function of the map).

So the C05 step theorems (`c05_step`, `c05_mem_eq_disk`, `c05_never_dropped`, …) speak about the control flow of the
source as it is now: which name is probed, that the file is re-read before every synced merge, which merge an
`overwrite` value selects, that memory is set after the file was swapped in, that a failed merge writes nothing.
-/
namespace Harvest
open DS StoreIO Gen

/-- the temporary next to a path (`<dir>/.tmp-<pid>-<base>`): some other name -/
def tmpOf (p : String) : String := ".tmp-" ++ p

/-- the path a `NameRef` denotes for a Harvester with this data name and engine -/
def refPath (name : String) (own : Engine) : NameRef Engine → String
  | .bare => name
  | .ext g => autoAddExt name (g.getD own)
  | .tmp r => tmpOf (refPath name own r)

abbrev HS := Store × Session

/-- the operations of `Gen.StoreOps` on the model's store.  Assumptions of the instance (the model has no permission
bits, directories or dask): the three file queries are "the path is in the store"; `save_ds` on a temporary name
writes that very name (it already carries the extension); an engine of `None` reaching a library call is an error. -/
def ops : StoreOps HS Dataset Engine Err where
  raised := fun e => match e with
    | .xyzError => .noData
    | _ => .notWritable
  selfEngine := fun s => s.2.engine
  isZarr := fun g => g == some .zarr
  memIsNone := fun s => s.2.mem.isNone
  mem := fun s => s.2.mem.getD {}
  setMem := fun s d => (s.1, { s.2 with mem := some d })
  accessW := fun s r => shas s.1 (refPath s.2.name s.2.engine r)
  isFile := fun s r => shas s.1 (refPath s.2.name s.2.engine r)
  pathExists := fun s r => shas s.1 (refPath s.2.name s.2.engine r)
  loadData := fun s r g =>
    match g with
    | none => .error .io
    | some e =>
      match load s.1 (refPath s.2.name s.2.engine r) e with
      | .ok d => .ok d
      | .error _ => .error .io
  saveData := fun s d r g =>
    match g with
    | none => (s, some .io)
    | some e =>
      match r with
      | .tmp r' => ((sset s.1 (tmpOf (refPath s.2.name s.2.engine r')) ⟨e, coerceAttrs e d⟩, s.2), none)
      | r => ((save s.1 (refPath s.2.name s.2.engine r) e d, s.2), none)
  afterSave := fun g d => match g with | some e => coerceAttrs e d | none => d
  replace := fun s a b =>
    match alookup s.1 (refPath s.2.name s.2.engine a) with
    | none => (s, some .io)
    | some f => ((sset (serase s.1 (refPath s.2.name s.2.engine a)) (refPath s.2.name s.2.engine b) f, s.2), none)
  remove := fun s r =>
    if shas s.1 (refPath s.2.name s.2.engine r) then ((serase s.1 (refPath s.2.name s.2.engine r), s.2), none)
    else (s, some .io)
  rmtree := fun s r =>
    if shas s.1 (refPath s.2.name s.2.engine r) then ((serase s.1 (refPath s.2.name s.2.engine r), s.2), none)
    else (s, some .io)
  copy := id
  merge := fun k old new => mergeBy k old new
  concat := fun a _ => a

/-- two stores representing the same finite map -/
def SameMap (a b : Store) : Prop := ∀ k, alookup a k = alookup b k

theorem SameMap.refl (a : Store) : SameMap a a := fun _ => rfl
theorem SameMap.load {a b : Store} (h : SameMap a b) (name : String) (e : Engine) : load a name e = load b name e := by
  simp [StoreIO.load, loadVia, h _]
theorem SameMap.shas {a b : Store} (h : SameMap a b) (k : String) : shas a k = shas b k := by
  simp [StoreIO.shas, h _]

/-! ## `load_full_ds` -/

/-- `Harvester.load_full_ds()` as translated, at the model's instance, is `Harvest.loadFull` -/
theorem hvLoadFull_refines (store : Store) (s : Session) :
    Gen.hvLoadFull ops none (store, s) =
      match loadFull store s with
      | .ok s1 => ((store, s1), none)
      | .error e => ((store, s), some e) := by
  obtain ⟨_, _, h3, h4, _⟩ := c05_name_consistent s.name s.engine
  simp only [Gen.hvLoadFull, Gen.Default.hvLoadFull, loadFull, h3, h4, ops, refPath, Option.isNone_none, if_true,
    Option.getD_some]
  by_cases hx : shas store (autoAddExt s.name s.engine) = true
  · simp only [hx, if_true]
    cases load store s.name s.engine <;> rfl
  · simp [hx]

/-- a per-call engine equal to the Harvester's own changes nothing -/
theorem hvLoadFull_own_engine (store : Store) (s : Session) :
    Gen.hvLoadFull ops (some s.engine) (store, s) = Gen.hvLoadFull ops none (store, s) := by
  simp [Gen.hvLoadFull, Gen.Default.hvLoadFull, ops]

/-! ## `save_full_ds(new)` -/

theorem tmpOf_ne (p : String) : tmpOf p ≠ p := by
  intro h
  have := congrArg String.length h
  simp [tmpOf, String.length_append] at this

/-- **`save_full_ds(new_full_ds)` as translated** (write aside, move over, clean up, then set memory), on a store that
holds no stale temporary of this name, for the engines whose file is swapped in one go: it succeeds, memory is the
dataset as the writer left it, the data path holds it, NO other path changed (the temporary is gone again) — the same
finite map and the same session as the model's `saveFullNew`. -/
theorem hvSaveFull_refines (store : Store) (s : Session) (d : Dataset) (hz : s.engine ≠ .zarr)
    (ht : alookup store (tmpOf (autoAddExt s.name s.engine)) = none) :
    ∃ store', Gen.hvSaveFull ops false true d none (store, s) =
        ((store', { s with mem := some (coerceAttrs s.engine d) }), none) ∧
      ∃ store'', saveFullNew store s d = .ok (store'', { s with mem := some (coerceAttrs s.engine d) }) ∧
        SameMap store' store'' := by
  obtain ⟨store'', hm, _, hP, hoth⟩ := saveFullNew_spec store s d
  have hne := tmpOf_ne (autoAddExt s.name s.engine)
  have hz' : (some s.engine == some Engine.zarr) = false := by simp [hz]
  have hne' : ¬ autoAddExt s.name s.engine = tmpOf (autoAddExt s.name s.engine) := fun h => hne h.symm
  refine ⟨sset (serase (sset store (tmpOf (autoAddExt s.name s.engine)) ⟨s.engine, coerceAttrs s.engine d⟩)
      (tmpOf (autoAddExt s.name s.engine))) (autoAddExt s.name s.engine) ⟨s.engine, coerceAttrs s.engine d⟩, ?_, store'', hm, ?_⟩
  · simp [Gen.hvSaveFull, Gen.Default.hvSaveFull, ops, refPath, hz', alookup_sset, alookup_serase, shas, hne, hne',
      stFinally, stBind]
  · intro k
    by_cases hk : k = autoAddExt s.name s.engine
    · subst hk; rw [hP]; simp [alookup_sset]
    · rw [hoth k hk]
      have hk' : ¬ autoAddExt s.name s.engine = k := fun h => hk h.symm
      by_cases hkt : tmpOf (autoAddExt s.name s.engine) = k
      · subst hkt; simp [alookup_sset, alookup_serase, hk', ht]
      · simp [alookup_sset, alookup_serase, hk', hkt]

/-- when the writer fails, nothing is moved over the data file and memory is untouched: the state reached differs from
the one before by the temporary at most, and that one is removed again -/
theorem hvSaveFull_order (o : StoreOps HS Dataset Engine Err) (store : Store) (s : Session) (d : Dataset) (e : Err)
    (s' : HS) (hz : o.isZarr (some (o.selfEngine (store, s))) = false)
    (hfail : o.saveData (store, s) d (.tmp (.ext (some (o.selfEngine (store, s))))) (some (o.selfEngine (store, s))) = (s', some e))
    (hgone : o.pathExists s' (.tmp (.ext (some (o.selfEngine (store, s))))) = false) :
    Gen.hvSaveFull o false true d none (store, s) = (s', some e) := by
  simp [Gen.hvSaveFull, Gen.Default.hvSaveFull, hz, hfail, hgone, stFinally, stBind]

/-! ## `add_ds` -/

/-- which merge an `overwrite` value selects (`None` / `True` / `False`) -/
def owKind : Option Bool → MergeKind
  | none => .noConflicts
  | some true => .newFirst
  | some false => .oldFirst

/-- the part of `add_ds` after the optional re-read: merge the new data into what is in memory (or take a copy of it when
there is nothing); when syncing save the result through `save_full_ds` (which also sets memory), else just set memory -/
def addDsTail {S D G E : Type} (o : StoreOps S D G E) (dataNameNone sync : Bool) (ow : Option Bool) (N : D)
    (g : Option G) (st : S) : S × Option E :=
  match (if o.memIsNone st then Except.ok (o.copy N) else o.merge (owKind ow) (o.mem st) N) with
  | .error e => (st, some e)
  | .ok M => if (sync && !dataNameNone) then Gen.hvSaveFull o dataNameNone true M g st else (o.setMem st M, none)

/-- `add_ds` in one line: re-read the file when syncing, then `addDsTail`.  A failed re-read, merge or save ends the
call in the state reached. -/
def addDsSpec {S D G E : Type} (o : StoreOps S D G E) (dataNameNone sync : Bool) (ow : Option Bool) (N : D)
    (g : Option G) (st : S) : S × Option E :=
  stBind (if (sync && !dataNameNone) then Gen.hvLoadFull o g st else (st, none)) (addDsTail o dataNameNone sync ow N g)

/-- **the translated body of `Harvester.add_ds` is `addDsSpec`** — for any state type and any operations: the order
(re-read, merge, save-or-set), the dispatch of `overwrite`, the arguments handed to `load_full_ds` / `save_full_ds` -/
theorem stBind_pure {S E : Type} (r : S × Option E) : stBind r (fun s => (s, none)) = r := by
  obtain ⟨s, e⟩ := r; cases e <;> rfl

theorem hvAddDs_eq_spec {S D G E : Type} (o : StoreOps S D G E) (dataNameNone sync : Bool) (ow : Option Bool) (N : D)
    (g : Option G) (st : S) :
    Gen.hvAddDs o dataNameNone sync ow N g st = addDsSpec o dataNameNone sync ow N g st := by
  -- the translated body calls `Gen.hvLoadFull` / `Gen.hvSaveFull`; the committed last-good body (used when the method
  -- cannot be translated) calls their last-good versions, which are the same functions unless those changed too
  first
  | (simp only [Gen.hvAddDs, addDsSpec, stBind_pure]
     congr 1
     funext st1
     by_cases hm : o.memIsNone st1 = true
     · simp [addDsTail, hm]
     · rcases ow with _ | _ | _ <;> simp [addDsTail, hm, owKind] <;> rfl
     done)
  | (have e1 : @Gen.hvLoadFull = @Gen.Default.hvLoadFull := by same_gen [Gen.hvLoadFull, Gen.Default.hvLoadFull]
     have e2 : @Gen.hvSaveFull = @Gen.Default.hvSaveFull := by same_gen [Gen.hvSaveFull, Gen.Default.hvSaveFull]
     simp only [Gen.hvAddDs, Gen.Default.hvAddDs, addDsSpec, stBind_pure, e1, e2]
     congr 1
     funext st1
     by_cases hm : o.memIsNone st1 = true
     · simp [addDsTail, hm, e2]
     · rcases ow with _ | _ | _ <;> simp [addDsTail, hm, owKind, e2] <;> rfl
     done)

def polArg : Policy → Option Bool
  | .none => none
  | .overwrite => some true
  | .keep => some false

theorem addDsKind_owKind (pol : Policy) : addDsKind pol = owKind (polArg pol) := by
  cases pol <;> simp [addDsKind, owKind, polArg, Gen.addDsTrue, Gen.Default.addDsTrue, Gen.addDsFalse,
    Gen.Default.addDsFalse, Gen.addDsNone, Gen.Default.addDsNone]

theorem set_self {α} (l : List α) (i : Nat) (x : α) (h : l[i]? = some x) : l.set i x = l := by
  apply List.ext_getElem?
  intro j
  by_cases hj : i = j
  · subst hj; rw [set_get l i x x h, h]
  · simp [List.getElem?_set, hj]

/-- **`Harvester.add_ds(N, sync, overwrite)` as translated, at the model's instance, is `Harvest.addDs`**: same error (or
none), same session afterwards (memory), and a store representing the same finite map — for every policy, with and
without `sync`, whatever is in memory and on disk. -/
theorem hvAddDs_refines (st : St) (sid : Nat) (s : Session) (N : Dataset) (pol : Policy) (sync : Bool)
    (hs : st.sessions[sid]? = some s) (hz : s.engine ≠ .zarr)
    (ht : alookup st.store (tmpOf (autoAddExt s.name s.engine)) = none) :
    (Gen.hvAddDs ops false sync (polArg pol) N none (st.store, s)).2 = (addDs st sid N pol sync).2 ∧
    (addDs st sid N pol sync).1.sessions = st.sessions.set sid (Gen.hvAddDs ops false sync (polArg pol) N none (st.store, s)).1.2 ∧
    SameMap (Gen.hvAddDs ops false sync (polArg pol) N none (st.store, s)).1.1 (addDs st sid N pol sync).1.store := by
  rw [hvAddDs_eq_spec]
  simp only [addDsSpec, Bool.not_false, Bool.and_true]
  -- both sides first decide what is in memory when the merge happens: `s1`
  have key : ∀ s1 : Session, preload st.store s sync = .ok s1 →
      stBind (if sync = true then Gen.hvLoadFull ops none (st.store, s) else ((st.store, s), none))
          (addDsTail ops false sync (polArg pol) N none) =
        addDsTail ops false sync (polArg pol) N none (st.store, s1) := by
    intro s1 hp
    cases sync with
    | false => simp [preload] at hp; subst hp; simp [stBind]
    | true =>
      simp only [preload, if_true] at hp
      simp [hvLoadFull_refines, hp, stBind]
  cases hp : preload st.store s sync with
  | error e =>
    -- the re-read failed: nothing else happens
    have hsync : sync = true := by cases sync <;> simp_all [preload]
    subst hsync
    simp only [preload, if_true] at hp
    simp [addDs, hs, preload, hp, hvLoadFull_refines, stBind, SameMap, set_self _ _ _ hs]
  | ok s1 =>
    obtain ⟨hn, he⟩ := preload_fields _ _ _ _ hp
    rw [key s1 hp]
    have hmerge : (if ops.memIsNone (st.store, s1) then Except.ok (ops.copy N)
        else ops.merge (owKind (polArg pol)) (ops.mem (st.store, s1)) N) = mergeInto s1.mem (addDsKind pol) N := by
      rw [addDsKind_owKind]
      cases hm : s1.mem <;> simp [ops, mergeInto, hm]
    simp only [addDsTail, hmerge, Bool.not_false, Bool.and_true]
    cases hM : mergeInto s1.mem (addDsKind pol) N with
    | error e => simp [addDs, hs, hp, hM, setSession, SameMap]
    | ok M =>
      cases sync with
      | false => simp [addDs, hs, hp, hM, setSession, SameMap, ops]
      | true =>
        obtain ⟨store', hr, store'', hm', hsame⟩ := hvSaveFull_refines st.store s1 M (by rw [he]; exact hz)
          (by rw [hn, he]; exact ht)
        simp [addDs, hs, hp, hM, hr, hm', hsame]

end Harvest

namespace Harvest
open DS StoreIO Gen

/-! ## order of effects inside `save_full_ds`, for ANY operations -/

/-- file operations do not touch what is in memory -/
structure FileOpsKeepMem {S D G E : Type} (o : StoreOps S D G E) : Prop where
  save : ∀ st d r g, o.mem (o.saveData st d r g).1 = o.mem st ∧ o.memIsNone (o.saveData st d r g).1 = o.memIsNone st
  replace : ∀ st a b, o.mem (o.replace st a b).1 = o.mem st ∧ o.memIsNone (o.replace st a b).1 = o.memIsNone st
  remove : ∀ st r, o.mem (o.remove st r).1 = o.mem st ∧ o.memIsNone (o.remove st r).1 = o.memIsNone st

/-- **memory is set last**: whatever the operations do, if `save_full_ds(new)` (swap-in engines) raises, the Harvester's
in-memory dataset is what it was before the call — memory never runs ahead of the file -/
theorem hvSaveFull_error_keeps_mem {S D G E : Type} (o : StoreOps S D G E) (hk : FileOpsKeepMem o) (d : D) (g : Option G)
    (st : S) (e : E)
    (hz : o.isZarr (if g.isNone then some (o.selfEngine st) else g) = false)
    (herr : (Gen.hvSaveFull o false true d g st).2 = some e) :
    o.mem (Gen.hvSaveFull o false true d g st).1 = o.mem st ∧
    o.memIsNone (Gen.hvSaveFull o false true d g st).1 = o.memIsNone st := by
  simp only [Gen.hvSaveFull, Gen.Default.hvSaveFull, hz, stBind_pure] at herr ⊢
  simp only [Bool.false_eq_true, if_false, if_true] at herr ⊢
  generalize hG : (if g.isNone = true then some (o.selfEngine st) else g) = G at herr ⊢
  -- the writer
  have h1 := hk.save st d (.tmp (.ext G)) G
  cases hs : o.saveData st d (.tmp (.ext G)) G with
  | mk st1 e1 =>
    rw [hs] at h1
    cases e1 with
    | some e1 =>
      -- the writer failed: only the clean-up runs
      simp only [hs, stBind, stFinally] at herr ⊢
      by_cases hx : o.pathExists st1 (.tmp (.ext G)) = true
      · have h2 := hk.remove st1 (.tmp (.ext G))
        cases hr : o.remove st1 (.tmp (.ext G)) with
        | mk st2 e2 => rw [hr] at h2; cases e2 <;> simp_all
      · simp_all
    | none =>
      have h2 := hk.replace st1 (.tmp (.ext G)) (.ext G)
      cases hr : o.replace st1 (.tmp (.ext G)) (.ext G) with
      | mk st2 e2 =>
        rw [hr] at h2
        cases e2 with
        | some e2 =>
          simp only [hs, hr, stBind, stFinally] at herr ⊢
          by_cases hx : o.pathExists st2 (.tmp (.ext G)) = true
          · have h3 := hk.remove st2 (.tmp (.ext G))
            cases hr3 : o.remove st2 (.tmp (.ext G)) with
            | mk st3 e3 => rw [hr3] at h3; cases e3 <;> simp_all
          · simp_all
        | none =>
          simp only [hs, hr, stBind, stFinally] at herr ⊢
          by_cases hx : o.pathExists st2 (.tmp (.ext G)) = true
          · have h3 := hk.remove st2 (.tmp (.ext G))
            cases hr3 : o.remove st2 (.tmp (.ext G)) with
            | mk st3 e3 => rw [hr3] at h3; cases e3 <;> simp_all
          · simp_all

/-- the model's operations satisfy the frame condition (non-vacuity of `hvSaveFull_error_keeps_mem`) -/
theorem ops_keep_mem : FileOpsKeepMem ops := by
  constructor
  · intro st d r g; cases g <;> cases r <;> simp [ops]
  · intro st a b; simp only [ops]; split <;> simp
  · intro st r; simp only [ops]; split <;> simp

/-- **a failed merge writes nothing** (any operations): the state after `add_ds` is the state right after the re-read -/
theorem hvAddDs_merge_error_no_write {S D G E : Type} (o : StoreOps S D G E) (dn sync : Bool) (ow : Option Bool) (N : D)
    (g : Option G) (st st1 : S) (e : E)
    (hl : (if (sync && !dn) then Gen.hvLoadFull o g st else (st, none)) = (st1, none))
    (hmem : o.memIsNone st1 = false) (hm : o.merge (owKind ow) (o.mem st1) N = .error e) :
    Gen.hvAddDs o dn sync ow N g st = (st1, some e) := by
  rw [hvAddDs_eq_spec]
  simp only [addDsSpec]
  rw [hl]
  simp [stBind, addDsTail, hmem, hm]

-- non-vacuity: a conflicting merge at the model's instance
example : ∃ (st : HS) (N : Dataset) (e : Err),
    ops.memIsNone st = false ∧ ops.merge (owKind none) (ops.mem st) N = .error e := by
  refine ⟨([], { name := "h", engine := .joblib, mem := some { vars := [("x", ⟨[], [([], .v 1)]⟩)] } }),
    { vars := [("x", ⟨[], [([], .v 2)]⟩)] }, .conflict, by decide, by rfl⟩

end Harvest

namespace Harvest
open DS StoreIO Gen

-- non-vacuity of `hvAddDs_refines`: a session over a store that holds an earlier file and no stale temporary
example : ∃ (st : St) (s : Session), st.sessions[0]? = some s ∧ s.engine ≠ .zarr ∧
    alookup st.store (tmpOf (autoAddExt s.name s.engine)) = none ∧ shas st.store (autoAddExt s.name s.engine) = true := by
  refine ⟨{ store := [("h.dmp", ⟨.joblib, {}⟩)], sessions := [{ name := "h", engine := .joblib }] },
    { name := "h", engine := .joblib }, rfl, by decide, by decide, by decide⟩

end Harvest
