import XyzProofs.Props.C15
import XyzModel.Gen.Extracted
import XyzProofs.Lemmas.TwoMode
/-!
# The Sampler's storage methods: the hand-written model IS the translated source (state skeletons)

`Gen.smLoadFull`, `Gen.smSaveFull`, `Gen.smAddDf` are regenerated on every run from the bodies of
`Sampler.load_full_df`, `save_full_df`, `add_df` (harness/anchors_st.py).  The operations get their meaning on the
model's state (table in memory, table in the file) extended by the temporary file the writer uses, and `Sampler.addDf`
is shown to be the translated `add_df` at that instance — so C15's theorems (`c15_file_appends`, `c15_appends_n`,
`c15_disk_eq_mem`, …) speak about the source's control flow: the file is re-read before every synced append, the new rows
are concatenated AFTER the old ones, the result is written aside and moved over, memory is set last.
-/
namespace Sampler
open Gen

/-- the model's state plus the content of the temporary file (`none`: no such file) -/
abbrev SS (β : Type) := St β × Option (List (Row β))

/-- the operations on the model's state.  Assumptions of the instance: no permission bits (a file that exists is
writable), engines are not distinguished (`G = Unit`), reading a file that is not there is the only I/O error. -/
def ops (β : Type) : StoreOps (SS β) (List (Row β)) Unit Unit where
  raised := fun _ => ()
  selfEngine := fun _ => ()
  isZarr := fun _ => false
  memIsNone := fun s => s.1.mem.isNone
  mem := fun s => s.1.mem.getD []
  setMem := fun s d => ({ s.1 with mem := some d }, s.2)
  accessW := fun s r => match r with | .tmp _ => s.2.isSome | _ => s.1.disk.isSome
  isFile := fun s r => match r with | .tmp _ => s.2.isSome | _ => s.1.disk.isSome
  pathExists := fun s r => match r with | .tmp _ => s.2.isSome | _ => s.1.disk.isSome
  loadData := fun s r _ =>
    match (match r with | .tmp _ => s.2 | _ => s.1.disk) with
    | some t => .ok t
    | none => .error ()
  saveData := fun s d r _ => match r with
    | .tmp _ => ((s.1, some d), none)
    | _ => (({ s.1 with disk := some d }, s.2), none)
  afterSave := fun _ d => d
  replace := fun s a b =>
    match a, b with
    | .tmp _, .tmp _ => (s, none)
    | .tmp _, _ => (match s.2 with
        | some t => (({ s.1 with disk := some t }, none), none)
        | none => (s, some ()))
    | _, .tmp _ => (match s.1.disk with
        | some t => (({ s.1 with disk := none }, some t), none)
        | none => (s, some ()))
    | _, _ => (s, none)
  remove := fun s r => match r with
    | .tmp _ => (match s.2 with | some _ => ((s.1, none), none) | none => (s, some ()))
    | _ => (match s.1.disk with | some _ => (({ s.1 with disk := none }, s.2), none) | none => (s, some ()))
  rmtree := fun s _ => (s, none)
  copy := id
  merge := fun _ _ b => .ok b
  concat := fun a b => a ++ b

theorem ops_memIsNone {β} (s : SS β) : (ops β).memIsNone s = s.1.mem.isNone := rfl
theorem ops_mem {β} (s : SS β) : (ops β).mem s = s.1.mem.getD [] := rfl
theorem ops_copy {β} (d : List (Row β)) : (ops β).copy d = d := rfl
theorem ops_concat {β} (a b : List (Row β)) : (ops β).concat a b = a ++ b := rfl

/-- `load_full_df()` as translated: the file's table, when there is a file, replaces what is in memory -/
theorem smLoadFull_spec {β} (s : St β) (tmp : Option (List (Row β))) :
    Gen.smLoadFull (ops β) none (s, tmp) =
      (({ s with mem := match s.disk with | some t => some t | none => s.mem }, tmp), none) := by
  obtain ⟨m, d, o⟩ := s
  cases d <;> simp [Gen.smLoadFull, Gen.Default.smLoadFull, ops]

/-- `save_full_df(new)` as translated: written aside, moved over the data file, memory set — no temporary left -/
theorem smSaveFull_spec {β} (s : St β) (d : List (Row β)) :
    Gen.smSaveFull (ops β) true d none (s, none) = (({ s with mem := some d, disk := some d }, none), none) := by
  simp [Gen.smSaveFull, Gen.Default.smSaveFull, ops, stBind, stFinally]

/-- **`Sampler.add_df(new)` (synced) as translated, at the model's instance, is `Sampler.addDf`** -/
theorem smAddDf_refines {β} (s : St β) (new : List (Row β)) :
    Gen.smAddDf (ops β) false true new none (s, none) = ((addDf s new, none), none) := by
  obtain ⟨m, d, o⟩ := s
  -- (second alternative: the committed last-good body of `add_df` calls the last-good versions of the two callees)
  first
  | (simp only [Gen.smAddDf, Bool.not_false, Bool.and_true, if_true, smLoadFull_spec, stBind,
       ops_memIsNone, ops_mem, ops_copy, ops_concat]
     cases d <;> cases m <;> simp [smSaveFull_spec, addDf, stBind]
     done)
  | (have e1 : @Gen.Default.smLoadFull = @Gen.smLoadFull := by same_gen [Gen.Default.smLoadFull, Gen.smLoadFull]
     have e2 : @Gen.Default.smSaveFull = @Gen.smSaveFull := by same_gen [Gen.Default.smSaveFull, Gen.smSaveFull]
     simp only [Gen.smAddDf, Gen.Default.smAddDf, e1, e2, Bool.not_false, Bool.and_true, if_true, smLoadFull_spec, stBind,
       ops_memIsNone, ops_mem, ops_copy, ops_concat]
     cases d <;> cases m <;> simp [smSaveFull_spec, addDf, stBind]
     done)

/-- without `sync` nothing is read or written: the new rows are appended to what is in memory -/
theorem smAddDf_unsynced {β} (s : St β) (new : List (Row β)) :
    Gen.smAddDf (ops β) false false new none (s, none) =
      (({ s with mem := some (match s.mem with | some t => t ++ new | none => new) }, none), none) := by
  obtain ⟨m, d, o⟩ := s
  cases m <;> simp [Gen.smAddDf, Gen.Default.smAddDf, ops, stBind]

/-- file operations do not touch what is in memory -/
structure FileOpsKeepMem {S D G E : Type} (o : StoreOps S D G E) : Prop where
  save : ∀ st d r g, o.mem (o.saveData st d r g).1 = o.mem st ∧ o.memIsNone (o.saveData st d r g).1 = o.memIsNone st
  replace : ∀ st a b, o.mem (o.replace st a b).1 = o.mem st ∧ o.memIsNone (o.replace st a b).1 = o.memIsNone st
  remove : ∀ st r, o.mem (o.remove st r).1 = o.mem st ∧ o.memIsNone (o.remove st r).1 = o.memIsNone st

/-- **memory is set last** (any operations): if `save_full_df(new)` raises, the Sampler's in-memory table is what it was
before the call — the table shown never runs ahead of the file (the defect repaired in `c6f07c9`) -/
theorem smSaveFull_error_keeps_mem {S D G E : Type} (o : StoreOps S D G E) (hk : FileOpsKeepMem o) (d : D) (g : Option G)
    (st : S) (e : E) (herr : (Gen.smSaveFull o true d g st).2 = some e) :
    o.mem (Gen.smSaveFull o true d g st).1 = o.mem st ∧
    o.memIsNone (Gen.smSaveFull o true d g st).1 = o.memIsNone st := by
  simp only [Gen.smSaveFull, Gen.Default.smSaveFull, Gen.Default.hvSaveFull, if_true] at herr ⊢
  generalize hG : (if g.isNone = true then some (o.selfEngine st) else g) = G at herr ⊢
  have stBind_pure : ∀ (r : S × Option E), stBind r (fun s => (s, none)) = r := by
    intro r; obtain ⟨s, e⟩ := r; cases e <;> rfl
  simp only [stBind_pure] at herr ⊢
  have h1 := hk.save st d (.tmp .bare) G
  cases hs : o.saveData st d (.tmp .bare) G with
  | mk st1 e1 =>
    rw [hs] at h1
    cases e1 with
    | some e1 =>
      simp only [hs, stBind, stFinally] at herr ⊢
      by_cases hx : o.pathExists st1 (.tmp .bare) = true
      · have h2 := hk.remove st1 (.tmp .bare)
        cases hr : o.remove st1 (.tmp .bare) with
        | mk st2 e2 => rw [hr] at h2; cases e2 <;> simp_all
      · simp_all
    | none =>
      have h2 := hk.replace st1 (.tmp .bare) .bare
      cases hr : o.replace st1 (.tmp .bare) .bare with
      | mk st2 e2 =>
        rw [hr] at h2
        cases e2 with
        | some e2 =>
          simp only [hs, hr, stBind, stFinally] at herr ⊢
          by_cases hx : o.pathExists st2 (.tmp .bare) = true
          · have h3 := hk.remove st2 (.tmp .bare)
            cases hr3 : o.remove st2 (.tmp .bare) with
            | mk st3 e3 => rw [hr3] at h3; cases e3 <;> simp_all
          · simp_all
        | none =>
          simp only [hs, hr, stBind, stFinally] at herr ⊢
          by_cases hx : o.pathExists st2 (.tmp .bare) = true
          · have h3 := hk.remove st2 (.tmp .bare)
            cases hr3 : o.remove st2 (.tmp .bare) with
            | mk st3 e3 => rw [hr3] at h3; cases e3 <;> simp_all
          · simp_all

theorem ops_keep_mem (β : Type) : FileOpsKeepMem (ops β) := by
  constructor
  · intro st d r g; cases r <;> simp [ops]
  · intro st a b; cases a <;> cases b <;> simp only [ops] <;> (try split) <;> simp
  · intro st r; cases r <;> simp only [ops] <;> split <;> simp

-- non-vacuity: a concrete synced append on a file that already holds a row
example : Gen.smAddDf (ops Nat) false true [⟨[1], [10]⟩] none (({ mem := none, disk := some [⟨[0], [5]⟩] } : St Nat), none)
    = ((({ mem := some [⟨[0], [5]⟩, ⟨[1], [10]⟩], disk := some [⟨[0], [5]⟩, ⟨[1], [10]⟩] } : St Nat), none), none) := by
  rw [smAddDf_refines]; rfl

end Sampler
