import XyzModel.Crop
/-!
# The Reaper: the hand-written stream (`Crop.reapStep` / `Crop.reapStream` / the length checks of `Crop.reorder`) is the
# translated source

`Gen.reaperFiles`, `Gen.reaperLoad`, `Gen.reaperWaitToLoad`, `Gen.reaperLoadFn`, `Gen.reaperCall`, `Gen.reaperExit` are
translated from `Reaper.__init__` (the generator `files`, the closures `_load` and `wait_to_load`, what is chained),
`Reaper.__call__` and `Reaper.__exit__` on every run (harness/anchors_reaper.py).  They are functions over abstract
directory operations; `Reaper.isFileOf` / `readResultOf` / `readBatchOf` answer those operations from the model's
directory `Crop.Dir`.

Assumptions stated here, not proved: `Gen.chainNext` / `Gen.chainTuple` are what `next` / `tuple` do on
`itertools.chain.from_iterable(map(load, files))`; the runner calls the Reaper once per setting, one call after the other
(`calls`; C01's subject); Python's `with` runs `__exit__` also when the body raised and an exception raised by
`__exit__` replaces the body's (`session`); a waiting loop is observed for `fuel` polls (`Gen.pollUntil`), and once a
result file exists it is complete (C10 / C11: result names appear by an atomic rename) — so `isFile` / `readResult` are
not indexed by time.
-/
set_option linter.unusedSimpArgs false
set_option linter.unusedVariables false
namespace Reaper
open Gen

variable {β γ : Type}

/-! ### sessions: what the runner does with a Reaper -/

/-- `k` calls of the Reaper, one after the other: the values returned, or the first exception; and the chain's state -/
def calls (load : Int → Except PyErr (List β)) : Nat → List β → List Int → Except PyErr (List β) × (List β × List Int)
  | 0, buf, files => (.ok [], (buf, files))
  | k + 1, buf, files =>
    match Gen.reaperCall load buf files with
    | (.error e, st) => (.error e, st)
    | (.ok v, (buf', files')) =>
      match calls load k buf' files' with
      | (.error e, st) => (.error e, st)
      | (.ok vs, st) => (.ok (v :: vs), st)

/-- `Reaper.__exit__` in chain state `(buf, files)`: `tuple(self.results)` is evaluated first (it may raise) -/
def exit (load : Int → Except PyErr (List β)) (buf : List β) (files : List Int) : Except PyErr Unit :=
  match Gen.chainTuple load buf files with
  | .error e => .error e
  | .ok rest => Gen.reaperExit rest

/-- `with Reaper(...) as fn: [fn() for _ in range(n)]` -/
def session (load : Int → Except PyErr (List β)) (files : List Int) (n : Nat) : Except PyErr (List β) :=
  match calls load n [] files with
  | (r, (buf, fl)) =>
    match exit load buf fl with
    | .error e => .error e
    | .ok () => r

/-- what the length of the stream means for a runner that makes `n` calls -/
def lengthGate (n : Nat) (s : List β) : Except PyErr (List β) :=
  if n < s.length then .error .xyzError else if s.length < n then .error .stopIteration else .ok s

/-! ### the chain -/

theorem chainTuple_nil (load : Int → Except PyErr (List β)) (files : List Int) :
    Gen.chainTuple load [] files = Gen.chainRest load files := by
  unfold Gen.chainTuple
  cases Gen.chainRest load files <;> simp

theorem chainTuple_cons_file (load : Int → Except PyErr (List β)) (f : Int) (files : List Int) (rs : List β)
    (h : load f = .ok rs) : Gen.chainTuple load [] (f :: files) = Gen.chainTuple load rs files := by
  simp only [Gen.chainTuple, Gen.chainRest, h]
  cases Gen.chainRest load files <;> simp

/-- one `next` on a chain whose remaining content is `v :: s` returns `v` and leaves `s` -/
theorem chainNext_ok (load : Int → Except PyErr (List β)) (files : List Int) :
    ∀ (buf : List β) (v : β) (s : List β), Gen.chainTuple load buf files = .ok (v :: s) →
      ∃ buf' files', Gen.chainNext load buf files = (.ok v, (buf', files')) ∧ Gen.chainTuple load buf' files' = .ok s := by
  induction files with
  | nil =>
    intro buf v s h
    simp only [Gen.chainTuple, Gen.chainRest, List.append_nil, Except.ok.injEq] at h
    subst h
    exact ⟨s, [], by simp [Gen.chainNext], by simp [Gen.chainTuple, Gen.chainRest]⟩
  | cons f files ih =>
    intro buf v s h
    cases buf with
    | cons x buf =>
      refine ⟨buf, f :: files, ?_, ?_⟩
      · have : x = v := by
          unfold Gen.chainTuple at h
          split at h
          · cases h
          · simp only [List.cons_append, Except.ok.injEq, List.cons.injEq] at h; exact h.1
        simp [Gen.chainNext, this]
      · unfold Gen.chainTuple at h ⊢
        split at h
        · cases h
        · rename_i more hm
          simp only [List.cons_append, Except.ok.injEq, List.cons.injEq] at h
          simp [hm, h.2]
    | nil =>
      cases hl : load f with
      | error e => simp [Gen.chainTuple, Gen.chainRest, hl] at h
      | ok rs =>
        rw [chainTuple_cons_file load f files rs hl] at h
        obtain ⟨b', f', h1, h2⟩ := ih rs v s h
        exact ⟨b', f', by simp [Gen.chainNext, hl, h1], h2⟩

/-- `next` on an exhausted chain is `StopIteration` -/
theorem chainNext_stop (load : Int → Except PyErr (List β)) (files : List Int) :
    ∀ (buf : List β), Gen.chainTuple load buf files = .ok [] →
      Gen.chainNext load buf files = (.error .stopIteration, ([], [])) := by
  induction files with
  | nil =>
    intro buf h
    simp only [Gen.chainTuple, Gen.chainRest, List.append_nil, Except.ok.injEq] at h
    subst h
    simp [Gen.chainNext]
  | cons f files ih =>
    intro buf h
    cases buf with
    | cons x buf =>
      unfold Gen.chainTuple at h
      split at h <;> simp at h
    | nil =>
      cases hl : load f with
      | error e => simp [Gen.chainTuple, Gen.chainRest, hl] at h
      | ok rs =>
        rw [chainTuple_cons_file load f files rs hl] at h
        simp [Gen.chainNext, hl, ih rs h]

/-- a chain whose remaining content cannot be loaded: `next` either still returns a value (and the rest still cannot be
loaded) or raises that exception and leaves the chain exhausted -/
theorem chainNext_err (load : Int → Except PyErr (List β)) (files : List Int) :
    ∀ (buf : List β) (e : PyErr), Gen.chainTuple load buf files = .error e →
      (∃ v buf' files', Gen.chainNext load buf files = (.ok v, (buf', files')) ∧ Gen.chainTuple load buf' files' = .error e) ∨
      Gen.chainNext load buf files = (.error e, ([], [])) := by
  induction files with
  | nil => intro buf e h; simp [Gen.chainTuple, Gen.chainRest] at h
  | cons f files ih =>
    intro buf e h
    cases buf with
    | cons x buf =>
      left
      refine ⟨x, buf, f :: files, by simp [Gen.chainNext], ?_⟩
      unfold Gen.chainTuple at h ⊢
      split at h
      · rename_i e' he; cases h; simp [he]
      · cases h
    | nil =>
      cases hl : load f with
      | error e' =>
        right
        simp only [Gen.chainTuple, Gen.chainRest, hl, Except.error.injEq] at h
        simp [Gen.chainNext, hl, h]
      | ok rs =>
        rw [chainTuple_cons_file load f files rs hl] at h
        rcases ih rs e h with ⟨v, b', f', h1, h2⟩ | h1
        · left; exact ⟨v, b', f', by simp [Gen.chainNext, hl, h1], h2⟩
        · right; simp [Gen.chainNext, hl, h1]

/-! ### calls -/

/-- on a chain whose remaining content is `s`, `k ≤ |s|` calls return the first `k` elements and leave the rest -/
theorem calls_ok (load : Int → Except PyErr (List β)) :
    ∀ (k : Nat) (buf : List β) (files : List Int) (s : List β), Gen.chainTuple load buf files = .ok s → k ≤ s.length →
      ∃ buf' files', calls load k buf files = (.ok (s.take k), (buf', files')) ∧
        Gen.chainTuple load buf' files' = .ok (s.drop k) := by
  intro k
  induction k with
  | zero => intro buf files s h _; exact ⟨buf, files, by simp [calls], by simpa using h⟩
  | succ k ih =>
    intro buf files s h hk
    cases s with
    | nil => simp at hk
    | cons v s =>
      obtain ⟨b1, f1, h1, h2⟩ := chainNext_ok load files buf v s h
      obtain ⟨b2, f2, h3, h4⟩ := ih b1 f1 s h2 (by simpa using hk)
      exact ⟨b2, f2, by simp [calls, Gen.reaperCall, Gen.Default.reaperCall, h1, h3], by simpa using h4⟩

/-- more calls than there are results: `StopIteration`, the chain is exhausted -/
theorem calls_stop (load : Int → Except PyErr (List β)) :
    ∀ (k : Nat) (buf : List β) (files : List Int) (s : List β), Gen.chainTuple load buf files = .ok s → s.length < k →
      calls load k buf files = (.error .stopIteration, ([], [])) := by
  intro k
  induction k with
  | zero => intro buf files s _ hk; simp at hk
  | succ k ih =>
    intro buf files s h hk
    cases s with
    | nil => simp [calls, Gen.reaperCall, Gen.Default.reaperCall, chainNext_stop load files buf h]
    | cons v s =>
      obtain ⟨b1, f1, h1, h2⟩ := chainNext_ok load files buf v s h
      have := ih b1 f1 s h2 (by simpa using hk)
      simp [calls, Gen.reaperCall, Gen.Default.reaperCall, h1, this]

/-- a stream that cannot be loaded: the calls either all return (the failing file has not been reached) or raise that
exception and leave the chain exhausted -/
theorem calls_err (load : Int → Except PyErr (List β)) :
    ∀ (k : Nat) (buf : List β) (files : List Int) (e : PyErr), Gen.chainTuple load buf files = .error e →
      (∃ vs buf' files', calls load k buf files = (.ok vs, (buf', files')) ∧ Gen.chainTuple load buf' files' = .error e) ∨
      calls load k buf files = (.error e, ([], [])) := by
  intro k
  induction k with
  | zero => intro buf files e h; left; exact ⟨[], buf, files, by simp [calls], h⟩
  | succ k ih =>
    intro buf files e h
    rcases chainNext_err load files buf e h with ⟨v, b1, f1, h1, h2⟩ | h1
    · rcases ih b1 f1 e h2 with ⟨vs, b2, f2, h3, h4⟩ | h3
      · left; exact ⟨v :: vs, b2, f2, by simp [calls, Gen.reaperCall, Gen.Default.reaperCall, h1, h3], h4⟩
      · right; simp [calls, Gen.reaperCall, Gen.Default.reaperCall, h1, h3]
    · right; simp [calls, Gen.reaperCall, Gen.Default.reaperCall, h1]

/-! ### theorems stated on the translated `__call__` / `__exit__` -/

/-- **the `k`-th call returns element `k` of the concatenation** of what the files contribute -/
theorem reaper_kth_call (load : Int → Except PyErr (List β)) (files : List Int) (s : List β)
    (hs : Gen.chainRest load files = .ok s) (k : Nat) (hk : k < s.length) :
    ∃ buf fl, (calls load k [] files).2 = (buf, fl) ∧ (Gen.reaperCall load buf fl).1 = .ok s[k] := by
  rw [← chainTuple_nil] at hs
  obtain ⟨b, f, h1, h2⟩ := calls_ok load k [] files s hs (by omega)
  refine ⟨b, f, by rw [h1], ?_⟩
  have hd : s.drop k = s[k] :: s.drop (k + 1) := List.drop_eq_getElem_cons hk
  rw [hd] at h2
  obtain ⟨b', f', h3, _⟩ := chainNext_ok load f b _ _ h2
  simp [Gen.reaperCall, Gen.Default.reaperCall, h3]

/-- **the exit check fails iff fewer calls were made than there are results** -/
theorem reaper_exit_iff (load : Int → Except PyErr (List β)) (files : List Int) (s : List β)
    (hs : Gen.chainRest load files = .ok s) (k : Nat) (hk : k ≤ s.length) :
    ∃ buf fl, (calls load k [] files).2 = (buf, fl) ∧
      exit load buf fl = if k < s.length then .error .xyzError else .ok () := by
  rw [← chainTuple_nil] at hs
  obtain ⟨b, f, h1, h2⟩ := calls_ok load k [] files s hs hk
  refine ⟨b, f, by rw [h1], ?_⟩
  simp only [exit, h2, Gen.reaperExit, Gen.Default.reaperExit]
  by_cases h : k < s.length
  · have : (s.drop k).isEmpty = false := by
      cases hd : s.drop k with
      | nil => have := congrArg List.length hd; simp at this; omega
      | cons a t => rfl
    simp [h, this]
  · have : s.drop k = [] := List.drop_eq_nil_of_le (by omega)
    simp [h, this]

/-- **a session is the whole stream, gated by its length** (the laziness of the chain does not show): the first
exception of a file that cannot be loaded; "Not all results reaped!" if there are more results than calls;
`StopIteration` if there are fewer; otherwise the stream itself -/
theorem session_eq (load : Int → Except PyErr (List β)) (files : List Int) (n : Nat) :
    session load files n = (Gen.chainRest load files).bind (lengthGate n) := by
  cases hs : Gen.chainRest load files with
  | error e =>
    have hs' := hs; rw [← chainTuple_nil] at hs'
    simp only [Except.bind]
    rcases calls_err load n [] files e hs' with ⟨vs, b, f, h1, h2⟩ | h1
    · simp [session, h1, exit, h2]
    · simp [session, h1, exit, Gen.chainTuple, Gen.chainRest, Gen.reaperExit, Gen.Default.reaperExit]
  | ok s =>
    have hs' := hs; rw [← chainTuple_nil] at hs'
    simp only [Except.bind, lengthGate]
    by_cases h1 : n < s.length
    · obtain ⟨b, f, hc, _⟩ := calls_ok load n [] files s hs' (by omega)
      obtain ⟨b', f', hst, hex⟩ := reaper_exit_iff load files s hs n (by omega)
      rw [hc] at hst; cases hst
      simp [session, hc, hex, h1]
    · by_cases h2 : s.length < n
      · have hc := calls_stop load n [] files s hs' h2
        simp [session, hc, exit, Gen.chainTuple, Gen.chainRest, Gen.reaperExit, Gen.Default.reaperExit, h1, h2]
      · have hn : n = s.length := by omega
        subst hn
        obtain ⟨b, f, hc, _⟩ := calls_ok load s.length [] files s hs' (by omega)
        obtain ⟨b', f', hst, hex⟩ := reaper_exit_iff load files s hs s.length (by omega)
        rw [hc] at hst; cases hst
        simp [session, hc, hex]

/-! Non-vacuity: files 1, 2, 3 holding two, two and one results; five calls get them all, four leave one over, six run
out; an unreadable file 2 fails the session whatever the number of calls -/
example : session (fun x => if x = 3 then .ok [x * 10] else .ok [x * 10, x * 10 + 1]) [1, 2, 3] 5 = .ok [10, 11, 20, 21, 30] := by
  decide
example : session (fun x => if x = 3 then .ok [x * 10] else .ok [x * 10, x * 10 + 1]) [1, 2, 3] 4 = .error .xyzError := by
  decide
example : session (fun x => if x = 3 then .ok [x * 10] else .ok [x * 10, x * 10 + 1]) [1, 2, 3] 6 = .error .stopIteration := by
  decide
example : session (fun x => if x = 2 then .error .other else .ok [x * 10, x * 10 + 1]) [1, 2, 3] 1 = .error .other := by
  decide

end Reaper
