import XyzModel.Crop
/-!
# The Reaper: the hand-written stream (`Crop.reapStep` / `Crop.reapStream` / the length checks of `Crop.reorder`) is the
# translated source

`Gen.reaperFiles`, `Gen.reaperLoad`, `Gen.reaperWaitToLoad`, `Gen.reaperLoadFn`, `Gen.reaperCall`, `Gen.reaperExit` are
translated from `Reaper.__init__` (the generator `files`, the closures `_load` and `wait_to_load`, what is chained),
`Reaper.__call__` and `Reaper.__exit__` on every run (harness/anchors_reaper.py).  They are functions over abstract
directory operations; `Reaper.isFileOf` / `readResultOf` / `readBatchOf` answer those operations from the model's
directory `Crop.Dir`.

Assumptions stated here, not proved: `Gen.chainNext` / `Gen.chainTuple` are what `next` / `tuple` do on
`itertools.chain.from_iterable(map(load, files))`; the runner calls the Reaper once per setting, one call after the other
(`calls`; C01's subject); Python's `with` runs `__exit__` also when the body raised and an exception raised by
`__exit__` replaces the body's (`session`); a waiting loop is observed for `fuel` polls (`Gen.pollUntil`), and once a
result file exists it is complete (C10 / C11: result names appear by an atomic rename) — so `isFile` / `readResult` are
not indexed by time.
-/
set_option linter.unusedSimpArgs false
set_option linter.unusedVariables false
namespace Reaper
open Gen

variable {β γ : Type}

/-! the length of a non-empty sequence compared with 0 / 1, in the spellings a source may use (`== 0`, `< 1`, `<= 0`,
`> 0`, `>= 1`, `!= 0`): the proofs below `simp` with these so that they hold for each such spelling -/
theorem pos_eq (n : Nat) : ((n : Int) + 1 = 0) = False := by
  first | (simp; done) | (simp; omega) | (apply propext; constructor <;> intro h <;> first | trivial | omega)
theorem pos_eq' (n : Nat) : (0 = (n : Int) + 1) = False := by
  first | (simp; done) | (simp; omega) | (apply propext; constructor <;> intro h <;> first | trivial | omega)
theorem pos_lt (n : Nat) : ((n : Int) + 1 < 1) = False := by
  first | (simp; done) | (simp; omega) | (apply propext; constructor <;> intro h <;> first | trivial | omega)
theorem pos_le (n : Nat) : ((n : Int) + 1 ≤ 0) = False := by
  first | (simp; done) | (simp; omega) | (apply propext; constructor <;> intro h <;> first | trivial | omega)
theorem pos_gt (n : Nat) : (0 < (n : Int) + 1) = True := by
  first | (simp; done) | (simp; omega) | (apply propext; constructor <;> intro h <;> first | trivial | omega)
theorem pos_ge (n : Nat) : (1 ≤ (n : Int) + 1) = True := by
  first | (simp; done) | (simp; omega) | (apply propext; constructor <;> intro h <;> first | trivial | omega)
theorem zero_lt_one_int : ((0 : Int) < 1) = True := by simp

/-! ### sessions: what the runner does with a Reaper -/

/-- `k` calls of the Reaper, one after the other: the values returned, or the first exception; and the chain's state -/
def calls (load : Int → Except PyErr (List β)) : Nat → List β → List Int → Except PyErr (List β) × (List β × List Int)
  | 0, buf, files => (.ok [], (buf, files))
  | k + 1, buf, files =>
    match Gen.reaperCall load buf files with
    | (.error e, st) => (.error e, st)
    | (.ok v, (buf', files')) =>
      match calls load k buf' files' with
      | (.error e, st) => (.error e, st)
      | (.ok vs, st) => (.ok (v :: vs), st)

/-- `Reaper.__exit__` in chain state `(buf, files)`: `tuple(self.results)` is evaluated first (it may raise) -/
def exit (load : Int → Except PyErr (List β)) (buf : List β) (files : List Int) : Except PyErr Unit :=
  match Gen.chainTuple load buf files with
  | .error e => .error e
  | .ok rest => Gen.reaperExit rest

/-- `with Reaper(...) as fn: [fn() for _ in range(n)]` -/
def session (load : Int → Except PyErr (List β)) (files : List Int) (n : Nat) : Except PyErr (List β) :=
  match calls load n [] files with
  | (r, (buf, fl)) =>
    match exit load buf fl with
    | .error e => .error e
    | .ok () => r

/-- what the length of the stream means for a runner that makes `n` calls -/
def lengthGate (n : Nat) (s : List β) : Except PyErr (List β) :=
  if n < s.length then .error .xyzError else if s.length < n then .error .stopIteration else .ok s

/-! ### the chain -/

theorem chainTuple_nil (load : Int → Except PyErr (List β)) (files : List Int) :
    Gen.chainTuple load [] files = Gen.chainRest load files := by
  unfold Gen.chainTuple
  cases Gen.chainRest load files <;> simp

theorem chainTuple_cons_file (load : Int → Except PyErr (List β)) (f : Int) (files : List Int) (rs : List β)
    (h : load f = .ok rs) : Gen.chainTuple load [] (f :: files) = Gen.chainTuple load rs files := by
  simp only [Gen.chainTuple, Gen.chainRest, h]
  cases Gen.chainRest load files <;> simp

/-- one `next` on a chain whose remaining content is `v :: s` returns `v` and leaves `s` -/
theorem chainNext_ok (load : Int → Except PyErr (List β)) (files : List Int) :
    ∀ (buf : List β) (v : β) (s : List β), Gen.chainTuple load buf files = .ok (v :: s) →
      ∃ buf' files', Gen.chainNext load buf files = (.ok v, (buf', files')) ∧ Gen.chainTuple load buf' files' = .ok s := by
  induction files with
  | nil =>
    intro buf v s h
    simp only [Gen.chainTuple, Gen.chainRest, List.append_nil, Except.ok.injEq] at h
    subst h
    exact ⟨s, [], by simp [Gen.chainNext], by simp [Gen.chainTuple, Gen.chainRest]⟩
  | cons f files ih =>
    intro buf v s h
    cases buf with
    | cons x buf =>
      refine ⟨buf, f :: files, ?_, ?_⟩
      · have : x = v := by
          unfold Gen.chainTuple at h
          split at h
          · cases h
          · simp only [List.cons_append, Except.ok.injEq, List.cons.injEq] at h; exact h.1
        simp [Gen.chainNext, this]
      · unfold Gen.chainTuple at h ⊢
        split at h
        · cases h
        · rename_i more hm
          simp only [List.cons_append, Except.ok.injEq, List.cons.injEq] at h
          simp [hm, h.2]
    | nil =>
      cases hl : load f with
      | error e => simp [Gen.chainTuple, Gen.chainRest, hl] at h
      | ok rs =>
        rw [chainTuple_cons_file load f files rs hl] at h
        obtain ⟨b', f', h1, h2⟩ := ih rs v s h
        exact ⟨b', f', by simp [Gen.chainNext, hl, h1], h2⟩

/-- `next` on an exhausted chain is `StopIteration` -/
theorem chainNext_stop (load : Int → Except PyErr (List β)) (files : List Int) :
    ∀ (buf : List β), Gen.chainTuple load buf files = .ok [] →
      Gen.chainNext load buf files = (.error .stopIteration, ([], [])) := by
  induction files with
  | nil =>
    intro buf h
    simp only [Gen.chainTuple, Gen.chainRest, List.append_nil, Except.ok.injEq] at h
    subst h
    simp [Gen.chainNext]
  | cons f files ih =>
    intro buf h
    cases buf with
    | cons x buf =>
      unfold Gen.chainTuple at h
      split at h <;> simp at h
    | nil =>
      cases hl : load f with
      | error e => simp [Gen.chainTuple, Gen.chainRest, hl] at h
      | ok rs =>
        rw [chainTuple_cons_file load f files rs hl] at h
        simp [Gen.chainNext, hl, ih rs h]

/-- a chain whose remaining content cannot be loaded: `next` either still returns a value (and the rest still cannot be
loaded) or raises that exception and leaves the chain exhausted -/
theorem chainNext_err (load : Int → Except PyErr (List β)) (files : List Int) :
    ∀ (buf : List β) (e : PyErr), Gen.chainTuple load buf files = .error e →
      (∃ v buf' files', Gen.chainNext load buf files = (.ok v, (buf', files')) ∧ Gen.chainTuple load buf' files' = .error e) ∨
      Gen.chainNext load buf files = (.error e, ([], [])) := by
  induction files with
  | nil => intro buf e h; simp [Gen.chainTuple, Gen.chainRest] at h
  | cons f files ih =>
    intro buf e h
    cases buf with
    | cons x buf =>
      left
      refine ⟨x, buf, f :: files, by simp [Gen.chainNext], ?_⟩
      unfold Gen.chainTuple at h ⊢
      split at h
      · rename_i e' he; cases h; simp [he]
      · cases h
    | nil =>
      cases hl : load f with
      | error e' =>
        right
        simp only [Gen.chainTuple, Gen.chainRest, hl, Except.error.injEq] at h
        simp [Gen.chainNext, hl, h]
      | ok rs =>
        rw [chainTuple_cons_file load f files rs hl] at h
        rcases ih rs e h with ⟨v, b', f', h1, h2⟩ | h1
        · left; exact ⟨v, b', f', by simp [Gen.chainNext, hl, h1], h2⟩
        · right; simp [Gen.chainNext, hl, h1]

/-! ### calls -/

/-- on a chain whose remaining content is `s`, `k ≤ |s|` calls return the first `k` elements and leave the rest -/
theorem calls_ok (load : Int → Except PyErr (List β)) :
    ∀ (k : Nat) (buf : List β) (files : List Int) (s : List β), Gen.chainTuple load buf files = .ok s → k ≤ s.length →
      ∃ buf' files', calls load k buf files = (.ok (s.take k), (buf', files')) ∧
        Gen.chainTuple load buf' files' = .ok (s.drop k) := by
  intro k
  induction k with
  | zero => intro buf files s h _; exact ⟨buf, files, by simp [calls], by simpa using h⟩
  | succ k ih =>
    intro buf files s h hk
    cases s with
    | nil => simp at hk
    | cons v s =>
      obtain ⟨b1, f1, h1, h2⟩ := chainNext_ok load files buf v s h
      obtain ⟨b2, f2, h3, h4⟩ := ih b1 f1 s h2 (by simpa using hk)
      exact ⟨b2, f2, by simp [calls, Gen.reaperCall, Gen.Default.reaperCall, h1, h3], by simpa using h4⟩

/-- more calls than there are results: `StopIteration`, the chain is exhausted -/
theorem calls_stop (load : Int → Except PyErr (List β)) :
    ∀ (k : Nat) (buf : List β) (files : List Int) (s : List β), Gen.chainTuple load buf files = .ok s → s.length < k →
      calls load k buf files = (.error .stopIteration, ([], [])) := by
  intro k
  induction k with
  | zero => intro buf files s _ hk; simp at hk
  | succ k ih =>
    intro buf files s h hk
    cases s with
    | nil => simp [calls, Gen.reaperCall, Gen.Default.reaperCall, chainNext_stop load files buf h]
    | cons v s =>
      obtain ⟨b1, f1, h1, h2⟩ := chainNext_ok load files buf v s h
      have := ih b1 f1 s h2 (by simpa using hk)
      simp [calls, Gen.reaperCall, Gen.Default.reaperCall, h1, this]

/-- a stream that cannot be loaded: the calls either all return (the failing file has not been reached) or raise that
exception and leave the chain exhausted -/
theorem calls_err (load : Int → Except PyErr (List β)) :
    ∀ (k : Nat) (buf : List β) (files : List Int) (e : PyErr), Gen.chainTuple load buf files = .error e →
      (∃ vs buf' files', calls load k buf files = (.ok vs, (buf', files')) ∧ Gen.chainTuple load buf' files' = .error e) ∨
      calls load k buf files = (.error e, ([], [])) := by
  intro k
  induction k with
  | zero => intro buf files e h; left; exact ⟨[], buf, files, by simp [calls], h⟩
  | succ k ih =>
    intro buf files e h
    rcases chainNext_err load files buf e h with ⟨v, b1, f1, h1, h2⟩ | h1
    · rcases ih b1 f1 e h2 with ⟨vs, b2, f2, h3, h4⟩ | h3
      · left; exact ⟨v :: vs, b2, f2, by simp [calls, Gen.reaperCall, Gen.Default.reaperCall, h1, h3], h4⟩
      · right; simp [calls, Gen.reaperCall, Gen.Default.reaperCall, h1, h3]
    · right; simp [calls, Gen.reaperCall, Gen.Default.reaperCall, h1]

/-! ### theorems stated on the translated `__call__` / `__exit__` -/

/-- **the `k`-th call returns element `k` of the concatenation** of what the files contribute -/
theorem reaper_kth_call (load : Int → Except PyErr (List β)) (files : List Int) (s : List β)
    (hs : Gen.chainRest load files = .ok s) (k : Nat) (hk : k < s.length) :
    ∃ buf fl, (calls load k [] files).2 = (buf, fl) ∧ (Gen.reaperCall load buf fl).1 = .ok s[k] := by
  rw [← chainTuple_nil] at hs
  obtain ⟨b, f, h1, h2⟩ := calls_ok load k [] files s hs (by omega)
  refine ⟨b, f, by rw [h1], ?_⟩
  have hd : s.drop k = s[k] :: s.drop (k + 1) := List.drop_eq_getElem_cons hk
  rw [hd] at h2
  obtain ⟨b', f', h3, _⟩ := chainNext_ok load f b _ _ h2
  simp [Gen.reaperCall, Gen.Default.reaperCall, h3]

/-- **the exit check fails iff fewer calls were made than there are results** -/
theorem reaper_exit_iff (load : Int → Except PyErr (List β)) (files : List Int) (s : List β)
    (hs : Gen.chainRest load files = .ok s) (k : Nat) (hk : k ≤ s.length) :
    ∃ buf fl, (calls load k [] files).2 = (buf, fl) ∧
      exit load buf fl = if k < s.length then .error .xyzError else .ok () := by
  rw [← chainTuple_nil] at hs
  obtain ⟨b, f, h1, h2⟩ := calls_ok load k [] files s hs hk
  refine ⟨b, f, by rw [h1], ?_⟩
  simp only [exit, h2]
  cases hd : s.drop k with
  | nil =>
    have : ¬ k < s.length := by
      have := congrArg List.length hd; simp at this; omega
    simp [this, Gen.reaperExit, Gen.Default.reaperExit]
  | cons a t =>
    have : k < s.length := by
      have := congrArg List.length hd; simp at this; omega
    simp [this, Gen.reaperExit, Gen.Default.reaperExit, pos_eq, pos_eq', pos_lt, pos_le, pos_gt, pos_ge]

/-- **a session is the whole stream, gated by its length** (the laziness of the chain does not show): the first
exception of a file that cannot be loaded; "Not all results reaped!" if there are more results than calls;
`StopIteration` if there are fewer; otherwise the stream itself -/
theorem session_eq (load : Int → Except PyErr (List β)) (files : List Int) (n : Nat) :
    session load files n = (Gen.chainRest load files).bind (lengthGate n) := by
  cases hs : Gen.chainRest load files with
  | error e =>
    have hs' := hs; rw [← chainTuple_nil] at hs'
    simp only [Except.bind]
    rcases calls_err load n [] files e hs' with ⟨vs, b, f, h1, h2⟩ | h1
    · simp [session, h1, exit, h2]
    · simp [session, h1, exit, Gen.chainTuple, Gen.chainRest, Gen.reaperExit, Gen.Default.reaperExit]
  | ok s =>
    have hs' := hs; rw [← chainTuple_nil] at hs'
    simp only [Except.bind, lengthGate]
    by_cases h1 : n < s.length
    · obtain ⟨b, f, hc, _⟩ := calls_ok load n [] files s hs' (by omega)
      obtain ⟨b', f', hst, hex⟩ := reaper_exit_iff load files s hs n (by omega)
      rw [hc] at hst; cases hst
      simp [session, hc, hex, h1]
    · by_cases h2 : s.length < n
      · have hc := calls_stop load n [] files s hs' h2
        simp [session, hc, exit, Gen.chainTuple, Gen.chainRest, Gen.reaperExit, Gen.Default.reaperExit, h1, h2]
      · have hn : n = s.length := by omega
        subst hn
        obtain ⟨b, f, hc, _⟩ := calls_ok load s.length [] files s hs' (by omega)
        obtain ⟨b', f', hst, hex⟩ := reaper_exit_iff load files s hs s.length (by omega)
        rw [hc] at hst; cases hst
        simp [session, hc, hex]

/-! Non-vacuity: files 1, 2, 3 holding two, two and one results; five calls get them all, four leave one over, six run
out; an unreadable file 2 fails the session whatever the number of calls -/
example : session (fun x => if x = 3 then .ok [x * 10] else .ok [x * 10, x * 10 + 1]) [1, 2, 3] 5 = .ok [10, 11, 20, 21, 30] := by
  decide
example : session (fun x => if x = 3 then .ok [x * 10] else .ok [x * 10, x * 10 + 1]) [1, 2, 3] 4 = .error .xyzError := by
  decide
example : session (fun x => if x = 3 then .ok [x * 10] else .ok [x * 10, x * 10 + 1]) [1, 2, 3] 6 = .error .stopIteration := by
  decide
example : session (fun x => if x = 2 then .error .other else .ok [x * 10, x * 10 + 1]) [1, 2, 3] 1 = .error .other := by
  decide

/-! ### the translated loader on the model's directory -/

/-- `os.path.isfile(<results>/RSLT_NM.format(i))` on the model's directory -/
def isFileOf (d : Crop.Dir β) (i : Int) : Bool := (Crop.lookup d.results i.toNat).isSome

/-- `read_from_disk` of result file `i`: its content, an unpickling error, or no such file -/
def readResultOf (d : Crop.Dir β) (i : Int) : Except PyErr (Option (List β)) :=
  match Crop.lookup d.results i.toNat with
  | some (.good rs) => .ok (some rs)
  | some .bad => .error .other
  | none => .error .fileNotFound

/-- `read_from_disk` of batch file `i` -/
def readBatchOf (d : Crop.Dir β) (i : Int) : Except PyErr (List (List Nat)) :=
  match Crop.lookup d.batches i.toNat with
  | some b => .ok b
  | none => .error .fileNotFound

/-- the function the translated `Reaper.__init__` maps over the files, with the directory operations answered by `d`.
`dflt = none` stands for `_NO_DEFAULT`; `junk` is whatever value the sentinel is (the theorems hold for every `junk`);
`bs` is `crop.batchsize` (not read by the source as it stands). -/
def loadOf (d : Crop.Dir β) (wait : Bool) (dflt : Option β) (junk : β) (bs : Int) (fuel : Nat)
    (existsAt : Nat → Int → Bool) (x : Int) : Except PyErr (List β) :=
  Gen.reaperLoadFn dflt.isSome wait (dflt.getD junk) bs (isFileOf d) (readResultOf d) (readBatchOf d) fuel existsAt x

theorem pollUntil_const (fuel : Nat) (b : Bool) (hfuel : 0 < fuel) :
    Gen.pollUntil fuel (fun _ => b) = if b then some 0 else none := by
  obtain ⟨k, rfl⟩ : ∃ k, fuel = k + 1 := ⟨fuel - 1, by omega⟩
  cases b
  · simp [Gen.pollUntil]
  · simp [Gen.pollUntil, List.range_succ_eq_map]

/-- the files the translated generator yields for `nb` batches: `1, …, nb` in this order -/
theorem reaperFiles_eq (nb : Nat) : Gen.reaperFiles (nb : Int) = (List.range nb).map (fun (i : Nat) => (i : Int) + 1) := by
  simp only [Gen.reaperFiles, Gen.Default.reaperFiles, Gen.pyRange]
  apply List.ext_getElem
  · simp
  · intro i h1 h2
    simp
    try omega

theorem foldl_reapStep_error (o : Crop.Obj) (d : Crop.Dir β) (dflt : Option β) (e : Crop.Err) (is : List Nat) :
    is.foldl (Crop.reapStep o d dflt) (.error e) = .error e := by
  induction is with
  | nil => rfl
  | cons i is ih => simpa [Crop.reapStep] using ih

/-- **one file**: `Crop.reapStep` appends exactly what the translated loader returns for file `i0 + 1`, and fails when
it raises.  The directory is static while the reap runs (`hstatic`: the model's reap is one atomic operation), a waiting
loop is observed for at least one poll, and batch files are non-empty (C07). -/
theorem reapStep_refines (o : Crop.Obj) (d : Crop.Dir β) (wait : Bool) (dflt : Option β) (junk : β) (bs : Int)
    (fuel : Nat) (existsAt : Nat → Int → Bool) (hfuel : 0 < fuel) (hstatic : ∀ t x, existsAt t x = isFileOf d x)
    (hbne : ∀ i b, Crop.lookup d.batches i = some b → b ≠ []) (stream : List β) (i0 : Nat) :
    match loadOf d wait dflt junk bs fuel existsAt ((i0 : Int) + 1) with
    | .ok rs => Crop.reapStep o d (if wait then none else dflt) (.ok stream) i0 = .ok (stream ++ rs)
    | .error _ => ∃ e, Crop.reapStep o d (if wait then none else dflt) (.ok stream) i0 = .error e := by
  have hnat : ((i0 : Int) + 1).toNat = i0 + 1 := by omega
  have hpoll := pollUntil_const fuel (isFileOf d ((i0 : Int) + 1)) hfuel
  simp only [loadOf, Gen.reaperLoadFn, Gen.Default.reaperLoadFn, Gen.reaperWaitToLoad, Gen.Default.reaperWaitToLoad,
    Gen.reaperLoad, Gen.Default.reaperLoad, Gen.stillWaiting, Crop.reapStep, hstatic, Bool.not_not, hpoll]
  simp only [isFileOf, readResultOf, readBatchOf, hnat]
  cases hres : Crop.lookup d.results (i0 + 1) with
  | none =>
    cases wait <;> cases dflt <;> simp
    cases hb : Crop.lookup d.batches (i0 + 1) with
    | none => simp
    | some b =>
      have := hbne _ _ hb
      cases b with
      | nil => exact absurd rfl this
      | cons a t => simp [pos_eq, pos_eq', pos_lt, pos_le, pos_gt, pos_ge]
  | some r =>
    cases r with
    | bad => cases wait <;> cases dflt <;> simp
    | good rs =>
      cases rs with
      | nil => cases wait <;> cases dflt <;> simp
      | cons a t => cases wait <;> cases dflt <;> simp [pos_eq, pos_eq', pos_lt, pos_le, pos_gt, pos_ge]

/-- the model's left fold over the batch numbers is the chain over the translated loader -/
theorem foldl_reapStep_refines (o : Crop.Obj) (d : Crop.Dir β) (wait : Bool) (dflt : Option β) (junk : β) (bs : Int)
    (fuel : Nat) (existsAt : Nat → Int → Bool) (hfuel : 0 < fuel) (hstatic : ∀ t x, existsAt t x = isFileOf d x)
    (hbne : ∀ i b, Crop.lookup d.batches i = some b → b ≠ []) :
    ∀ (is : List Nat) (acc : List β),
      (is.foldl (Crop.reapStep o d (if wait then none else dflt)) (.ok acc)).toOption =
        (Gen.chainRest (loadOf d wait dflt junk bs fuel existsAt) (is.map fun (i : Nat) => (i : Int) + 1)).toOption.map
          (acc ++ ·) := by
  intro is
  induction is with
  | nil => intro acc; simp [Gen.chainRest, Except.toOption]
  | cons i is ih =>
    intro acc
    have h := reapStep_refines o d wait dflt junk bs fuel existsAt hfuel hstatic hbne acc i
    simp only [List.foldl_cons, List.map_cons, Gen.chainRest]
    cases hl : loadOf d wait dflt junk bs fuel existsAt ((i : Int) + 1) with
    | error e =>
      simp only [hl] at h
      obtain ⟨e', he⟩ := h
      rw [he, foldl_reapStep_error]
      simp [Except.toOption]
    | ok rs =>
      simp only [hl] at h
      rw [h, ih]
      cases Gen.chainRest (loadOf d wait dflt junk bs fuel existsAt) (is.map fun (i : Nat) => (i : Int) + 1) <;>
        simp [Except.toOption, List.append_assoc]

/-- **the stream**: `Crop.reapStream` succeeds exactly when loading the translated files `Gen.reaperFiles nb` in order
with the translated loader succeeds, and then with the same stream — for every number of batches, every directory
(every subset of finished batches, readable or not), waiting or not, with or without a stand-in -/
theorem reapStream_refines (o : Crop.Obj) (d : Crop.Dir β) (wait : Bool) (dflt : Option β) (junk : β) (bs : Int)
    (fuel : Nat) (existsAt : Nat → Int → Bool) (hfuel : 0 < fuel) (hstatic : ∀ t x, existsAt t x = isFileOf d x)
    (hbne : ∀ i b, Crop.lookup d.batches i = some b → b ≠ []) (nb : Nat) :
    (Crop.reapStream o d nb (if wait then none else dflt)).toOption =
      (Gen.chainRest (loadOf d wait dflt junk bs fuel existsAt) (Gen.reaperFiles (nb : Int))).toOption := by
  rw [reaperFiles_eq]
  unfold Crop.reapStream
  have := foldl_reapStep_refines o d wait dflt junk bs fuel existsAt hfuel hstatic hbne (List.range nb) []
  rw [this]
  cases Gen.chainRest (loadOf d wait dflt junk bs fuel existsAt) ((List.range nb).map fun (i : Nat) => (i : Int) + 1) <;>
    simp [Except.toOption]

theorem reapStream_ok_iff (o : Crop.Obj) (d : Crop.Dir β) (wait : Bool) (dflt : Option β) (junk : β) (bs : Int)
    (fuel : Nat) (existsAt : Nat → Int → Bool) (hfuel : 0 < fuel) (hstatic : ∀ t x, existsAt t x = isFileOf d x)
    (hbne : ∀ i b, Crop.lookup d.batches i = some b → b ≠ []) (nb : Nat) (s : List β) :
    Crop.reapStream o d nb (if wait then none else dflt) = .ok s ↔
      Gen.chainRest (loadOf d wait dflt junk bs fuel existsAt) (Gen.reaperFiles (nb : Int)) = .ok s := by
  have h := reapStream_refines o d wait dflt junk bs fuel existsAt hfuel hstatic hbne nb
  cases hA : Crop.reapStream o d nb (if wait then none else dflt) <;>
    cases hB : Gen.chainRest (loadOf d wait dflt junk bs fuel existsAt) (Gen.reaperFiles (nb : Int)) <;>
    simp [hA, hB, Except.toOption] at h ⊢
  rw [h]

/-- **the session**: what a runner making `n` calls gets from the translated Reaper (calls, then the exit check) is what
the model's stream followed by the length checks of `Crop.reorder` gives — the results when the stream has exactly `n`
elements, a failure otherwise -/
theorem session_refines (P : Crop.Perms) (o : Crop.Obj) (d : Crop.Dir β) (wait : Bool) (dflt : Option β) (junk : β)
    (bs : Int) (fuel : Nat) (existsAt : Nat → Int → Bool) (hfuel : 0 < fuel)
    (hstatic : ∀ t x, existsAt t x = isFileOf d x)
    (hbne : ∀ i b, Crop.lookup d.batches i = some b → b ≠ []) (nb n : Nat) :
    (session (loadOf d wait dflt junk bs fuel existsAt) (Gen.reaperFiles (nb : Int)) n).toOption =
      ((Crop.reapStream o d nb (if wait then none else dflt)).bind (Crop.reorder P 0 n)).toOption := by
  rw [session_eq]
  have h := reapStream_refines o d wait dflt junk bs fuel existsAt hfuel hstatic hbne nb
  cases hA : Crop.reapStream o d nb (if wait then none else dflt) with
  | error e =>
    cases hB : Gen.chainRest (loadOf d wait dflt junk bs fuel existsAt) (Gen.reaperFiles (nb : Int)) with
    | error e' => simp [Except.bind, Except.toOption]
    | ok s => simp [hA, hB, Except.toOption] at h
  | ok s =>
    cases hB : Gen.chainRest (loadOf d wait dflt junk bs fuel existsAt) (Gen.reaperFiles (nb : Int)) with
    | error e' => simp [hA, hB, Except.toOption] at h
    | ok s' =>
      simp [hA, hB, Except.toOption] at h
      subst h
      simp only [Except.bind, lengthGate, Crop.reorder]
      by_cases h1 : n < s.length
      · have : ¬ s.length < n := by omega
        simp [h1, this, Except.toOption]
      · by_cases h2 : s.length < n
        · simp [h1, h2, Except.toOption]
        · simp [h1, h2, Except.toOption]

/-! ### theorems stated on the translated `_load` / `wait_to_load` -/

theorem pollUntil_some (fuel : Nat) (p : Nat → Bool) (h : ∃ t, t < fuel ∧ p t = true) :
    ∃ t, Gen.pollUntil fuel p = some t := by
  obtain ⟨t, ht, hp⟩ := h
  have : (Gen.pollUntil fuel p).isSome = true := by
    simp only [Gen.pollUntil, List.find?_isSome]
    exact ⟨t, by simpa using ht, hp⟩
  exact Option.isSome_iff_exists.mp this

theorem pollUntil_none (fuel : Nat) (p : Nat → Bool) (h : ∀ t, t < fuel → p t = false) :
    Gen.pollUntil fuel p = none := by
  simp only [Gen.pollUntil, List.find?_eq_none]
  intro t ht
  simp [h t (by simpa using ht)]

/-- **with a stand-in and not waiting, a missing result file never raises**: it contributes one stand-in per setting of
the batch file it belongs to -/
theorem reaperLoad_missing_default (dflt : β) (bs : Int) (isFile : Int → Bool)
    (readResult : Int → Except PyErr (Option (List β))) (readBatch : Int → Except PyErr (List γ)) (x : Int) (b : List γ)
    (hmiss : isFile x = false) (hb : readBatch x = .ok b) (hne : b ≠ []) :
    Gen.reaperLoad true false dflt bs isFile readResult readBatch x = .ok (List.replicate b.length dflt) := by
  cases b with
  | nil => exact absurd rfl hne
  | cons a t =>
    simp [Gen.reaperLoad, Gen.Default.reaperLoad, hmiss, hb, pos_eq, pos_eq', pos_lt, pos_le, pos_gt, pos_ge]

/-- **a result file that holds `None`** is refused with the "contains no data" ValueError -/
theorem reaperLoad_none (hasDefault wait : Bool) (dflt : β) (bs : Int) (isFile : Int → Bool)
    (readResult : Int → Except PyErr (Option (List β))) (readBatch : Int → Except PyErr (List γ)) (x : Int)
    (hfile : isFile x = true) (hr : readResult x = .ok none) :
    Gen.reaperLoad hasDefault wait dflt bs isFile readResult readBatch x = .error .valueError := by
  simp [Gen.reaperLoad, Gen.Default.reaperLoad, hfile, hr]

/-- **an empty result file** likewise -/
theorem reaperLoad_empty (hasDefault wait : Bool) (dflt : β) (bs : Int) (isFile : Int → Bool)
    (readResult : Int → Except PyErr (Option (List β))) (readBatch : Int → Except PyErr (List γ)) (x : Int)
    (hfile : isFile x = true) (hr : readResult x = .ok (some [])) :
    Gen.reaperLoad hasDefault wait dflt bs isFile readResult readBatch x = .error .valueError := by
  simp [Gen.reaperLoad, Gen.Default.reaperLoad, hfile, hr]

/-- the same for the function that is actually chained when `wait` is false -/
theorem reaperLoadFn_missing_default (dflt : β) (bs : Int) (isFile : Int → Bool)
    (readResult : Int → Except PyErr (Option (List β))) (readBatch : Int → Except PyErr (List γ)) (fuel : Nat)
    (existsAt : Nat → Int → Bool) (x : Int) (b : List γ)
    (hmiss : isFile x = false) (hb : readBatch x = .ok b) (hne : b ≠ []) :
    Gen.reaperLoadFn true false dflt bs isFile readResult readBatch fuel existsAt x =
      .ok (List.replicate b.length dflt) := by
  cases b with
  | nil => exact absurd rfl hne
  | cons a t =>
    simp [Gen.reaperLoadFn, Gen.Default.reaperLoadFn, Gen.reaperLoad, Gen.Default.reaperLoad, hmiss, hb, pos_eq, pos_eq', pos_lt, pos_le, pos_gt, pos_ge]

/-- **a result file that is there, readable and non-empty is loaded as it is** — waiting (once the loop has seen it) or
not, with or without a stand-in: a stand-in never replaces an existing result -/
theorem reaperLoadFn_present (hasDefault wait : Bool) (dflt : β) (bs : Int) (isFile : Int → Bool)
    (readResult : Int → Except PyErr (Option (List β))) (readBatch : Int → Except PyErr (List γ)) (fuel : Nat)
    (existsAt : Nat → Int → Bool) (x : Int) (rs : List β)
    (hfile : isFile x = true) (hex : wait = true → ∃ t, t < fuel ∧ existsAt t x = true)
    (hr : readResult x = .ok (some rs)) (hne : rs ≠ []) :
    Gen.reaperLoadFn hasDefault wait dflt bs isFile readResult readBatch fuel existsAt x = .ok rs := by
  cases rs with
  | nil => exact absurd rfl hne
  | cons a t =>
    cases wait with
    | false =>
      simp [Gen.reaperLoadFn, Gen.Default.reaperLoadFn, Gen.reaperLoad, Gen.Default.reaperLoad, hfile, hr, pos_eq, pos_eq', pos_lt, pos_le, pos_gt, pos_ge]
    | true =>
      obtain ⟨t0, ht0⟩ := pollUntil_some fuel (fun t => existsAt t x) (by simpa using hex rfl)
      simp [Gen.reaperLoadFn, Gen.Default.reaperLoadFn, Gen.reaperWaitToLoad, Gen.Default.reaperWaitToLoad,
        Gen.reaperLoad, Gen.Default.reaperLoad, hfile, hr, pos_eq, pos_eq', pos_lt, pos_le, pos_gt, pos_ge, ht0]

/-- **a waiting Reaper whose file does not show up is still waiting**: it neither raises nor uses a stand-in -/
theorem reaperLoadFn_waiting (hasDefault : Bool) (dflt : β) (bs : Int) (isFile : Int → Bool)
    (readResult : Int → Except PyErr (Option (List β))) (readBatch : Int → Except PyErr (List γ)) (fuel : Nat)
    (existsAt : Nat → Int → Bool) (x : Int) (hnever : ∀ t, t < fuel → existsAt t x = false) :
    Gen.reaperLoadFn hasDefault true dflt bs isFile readResult readBatch fuel existsAt x = Gen.stillWaiting := by
  have := pollUntil_none fuel (fun t => existsAt t x) (by simpa using hnever)
  simp [Gen.reaperLoadFn, Gen.Default.reaperLoadFn, Gen.reaperWaitToLoad, Gen.Default.reaperWaitToLoad, this]

/-- **the stream over files that are all there** is the concatenation of their contents in the order of
`Gen.reaperFiles` — waiting or not, with or without a stand-in -/
theorem reaperStream_full (hasDefault wait : Bool) (dflt : β) (bs : Int) (isFile : Int → Bool)
    (readResult : Int → Except PyErr (Option (List β))) (readBatch : Int → Except PyErr (List γ)) (fuel : Nat)
    (existsAt : Nat → Int → Bool) (content : Int → List β) :
    ∀ (files : List Int),
      (∀ x ∈ files, isFile x = true ∧ (wait = true → ∃ t, t < fuel ∧ existsAt t x = true) ∧
        readResult x = .ok (some (content x)) ∧ content x ≠ []) →
      Gen.chainRest (Gen.reaperLoadFn hasDefault wait dflt bs isFile readResult readBatch fuel existsAt) files =
        .ok (files.flatMap content) := by
  intro files
  induction files with
  | nil => intro _; simp [Gen.chainRest]
  | cons f files ih =>
    intro h
    obtain ⟨h1, h2, h3, h4⟩ := h f (by simp)
    have := reaperLoadFn_present hasDefault wait dflt bs isFile readResult readBatch fuel existsAt f _ h1 h2 h3 h4
    simp [Gen.chainRest, this, ih (fun x hx => h x (by simp [hx]))]

/-- **with a stand-in and not waiting the stream never fails on a missing result**: if every result file that is there
is readable and non-empty, and every batch file is readable and non-empty, the whole stream loads -/
theorem reaperStream_default_total (dflt : β) (bs : Int) (isFile : Int → Bool)
    (readResult : Int → Except PyErr (Option (List β))) (readBatch : Int → Except PyErr (List γ)) (fuel : Nat)
    (existsAt : Nat → Int → Bool) :
    ∀ (files : List Int),
      (∀ x ∈ files, (isFile x = true → ∃ rs, readResult x = .ok (some rs) ∧ rs ≠ []) ∧
        (∃ b, readBatch x = .ok b ∧ b ≠ [])) →
      ∃ s, Gen.chainRest (Gen.reaperLoadFn true false dflt bs isFile readResult readBatch fuel existsAt) files = .ok s := by
  intro files
  induction files with
  | nil => intro _; exact ⟨[], by simp [Gen.chainRest]⟩
  | cons f files ih =>
    intro h
    obtain ⟨h1, b, hb, hbne⟩ := h f (by simp)
    obtain ⟨s, hs⟩ := ih (fun x hx => h x (by simp [hx]))
    cases hf : isFile f with
    | true =>
      obtain ⟨rs, hr, hne⟩ := h1 hf
      have := reaperLoadFn_present true false dflt bs isFile readResult readBatch fuel existsAt f rs hf (by simp) hr hne
      exact ⟨rs ++ s, by simp [Gen.chainRest, this, hs]⟩
    | false =>
      have h2 := reaperLoadFn_missing_default dflt bs isFile readResult readBatch fuel existsAt f b hf hb hbne
      exact ⟨List.replicate b.length dflt ++ s, by simp [Gen.chainRest, h2, hs]⟩

/-- **how `reap_combos` makes its Reaper**: for the stored number of batches, with the caller's `wait`, and with a
stand-in exactly when `allow_incomplete` is given (`calc_clean_up_default_res`) — the arguments `Crop.reapLinear` hands
to `Crop.reapStream` -/
theorem reapCombos_reaper_args (wait : Bool) (cleanUp : Option Bool) (allowIncomplete : Bool) (infoNb : Int) :
    Gen.reapCombosReaper wait cleanUp allowIncomplete infoNb = .ok (infoNb, wait, allowIncomplete) := by
  cases cleanUp <;> cases allowIncomplete <;>
    simp [Gen.reapCombosReaper, Gen.Default.reapCombosReaper, Gen.calcCleanUp, Gen.Default.calcCleanUp]

/-! Non-vacuity: a two-batch directory with batch 2 missing; with the stand-in 99 the stream is the result of batch 1
followed by one stand-in per setting of batch 2; without it the reap fails -/
example : Gen.chainRest (loadOf (β := Nat) { batches := [(1, [[0], [1]]), (2, [[2]])], results := [(1, .good [10, 11])] }
    false (some 99) 0 2 1 (fun _ _ => true)) (Gen.reaperFiles 2) = .ok [10, 11, 99] := by decide
example : Gen.chainRest (loadOf (β := Nat) { batches := [(1, [[0], [1]]), (2, [[2]])], results := [(1, .good [10, 11])] }
    false none 0 2 1 (fun _ _ => true)) (Gen.reaperFiles 2) = .error .fileNotFound := by decide
example : Gen.reapCombosReaper true none true 3 = .ok (3, true, true) := by decide

end Reaper
