import XyzProofs.Props.C04Lifecycle
import XyzProofs.Props.C04
/-!
# The operation-level crop model (`XyzModel/Crop.lean`) and the translated `sow_combos`

`Crop.opSow` — the model about which `c04_reap_eq_direct`, `c04_history_reap_eq_direct`, `runnerShuffle_eq_recorded` are
proved — is tied here to `Gen.sowCombosLc`, the body of `sow_combos` translated from the source: at the instance `swOps`
(combos and cases are the two halves of a `Core.Sweep`, the parsers are the identity on already parsed values,
`sorted(combos, key=name)` is `Crop.sortByName`) a sow that the model accepts is a sow the translated body completes, the
info file the translated body writes holds the model's `Info` (sweep in name order, the chosen batch settings, the
recorded shuffle), the runner driving the Sower is handed that sweep and the shuffle `Crop.runnerShuffle` says, and the
reap methods read exactly these back (`c04_lc_reaper_replays_combos`).
-/
set_option linter.unusedSimpArgs false
set_option linter.unusedVariables false
namespace Lc
open Gen Crop Core Refine

/-- combos and cases as the two halves of a sweep; values already parsed -/
def swOps : LcOps Sweep Sweep Unit Unit where
  noneC := {}
  noneK := {}
  noneA := ()
  parseCombos := id
  parseCases := fun k _ => k
  parseFnArgs := id
  parseConstants := id
  sortByName := Crop.sortByName
  combosTruthy := fun _ => true
  combosProd := fun s => ((product s.comboVals).length : Nat)
  casesTruthy := fun _ => true
  casesLen := fun s => ((s.caseRows.getD [[]]).length : Nat)
  genFnArgs := fun _ _ => ()
  genCases := fun _ c => c

theorem locs_length (s : Sweep) : s.locs.length = (s.caseRows.getD [[]]).length * (product s.comboVals).length := by
  unfold Sweep.locs
  induction (s.caseRows.getD [[]]) with
  | nil => simp
  | cons r rs ih => simp [List.flatMap_cons, ih, Nat.succ_mul, Nat.add_comm]

theorem sortByName_caseRows (s : Sweep) : (Crop.sortByName s).caseRows = s.caseRows := rfl

theorem headAttr_sowAttrs (o : Obj) (shArg bs nb : Option Nat) :
    headAttr (ofNat? bs) (ofNat? o.bs) = ofNat? (sowAttrs o true shArg bs nb).bs ∧
    headAttr (ofNat? nb) (ofNat? o.nb) = ofNat? (sowAttrs o true shArg bs nb).nb ∧
    headAttr (ofNat? shArg) (some (o.shuffle : Int)) = some (((sowAttrs o true shArg bs nb).shuffle : Nat) : Int) ∧
    (sowAttrs o true shArg bs nb).rem = o.rem := by
  cases shArg <;> cases bs <;> cases nb <;> simp [headAttr, sowAttrs, ofNat?]

/-- **`Crop.opSow` is the translated `sow_combos`** (for a sweep with at least one case row, nothing failing): when the
model's sow is accepted, the translated body returns; the batch settings it leaves on the object and writes to the info
file are the model's `Info` (read as naturals), the combos written and handed to the Sower's runner are the model's sweep
in name order, and the shuffle written and handed to the runner is the model's recorded shuffle. -/
theorem opSow_refines_lc {β} (P : Perms) (s s' : St β) (sw : Sweep) (shArg bs nb : Option Nat) (saveFn fIN : Bool)
    (h : opSow P s sw true shArg bs nb = .ok s') :
    ∃ (d : Dir β) (info : Info) (bs' nb' : Int) (rem' : Option Int),
      s'.dir = some d ∧ d.info = some info ∧ info.sweep = Crop.sortByName sw ∧
      info.bs = bs'.toNat ∧ info.nb = nb'.toNat ∧ info.rem = (rem'.getD 0).toNat ∧
      info.shuffle = (sowAttrs s.obj true shArg bs nb).shuffle ∧
      sowCombosLc swOps (fun _ => false) sw sw [] (ofNat? shArg) (ofNat? bs) (ofNat? nb) saveFn fIN false [] []
          (ofNat? s.obj.bs) (ofNat? s.obj.nb) (ofNat? s.obj.rem) (some (s.obj.shuffle : Int)) none [] =
        (([.parse .combos, .parse .cases, .parse .constants] ++
            sowWrites saveFn fIN
              (infoOf (Crop.sortByName sw) sw () (some bs') (some nb') rem' (some (info.shuffle : Int)) (some []))
              { runner := .comboRunnerCore, combos := Crop.sortByName sw, cases := sw, fnArgs := (), constants := [],
                shuffle := some ((runnerShuffle true shArg (sowAttrs s.obj true shArg bs nb) : Nat) : Int), parse := true },
          some bs', some nb', rem', some (info.shuffle : Int), some []), none) := by
  obtain ⟨hb, hn, hs, hr⟩ := headAttr_sowAttrs s.obj shArg bs nb
  unfold opSow at h
  simp only [if_true] at h
  -- the model's choice is the translated choose_batch_settings
  have hch := chooseBatch_refines true (product (Crop.sortByName sw).comboVals).length true
    ((Crop.sortByName sw).caseRows.getD [[]]).length (sowAttrs s.obj true shArg bs nb).bs (sowAttrs s.obj true shArg bs nb).nb
    (sowAttrs s.obj true shArg bs nb).rem
  simp only [if_true] at hch
  rw [← locs_length] at hch
  rw [hch] at h
  -- the translated body
  have hlc := sowCombos_refines swOps (fun _ => false) sw sw [] (ofNat? shArg) (ofNat? bs) (ofNat? nb) saveFn fIN false [] []
    (ofNat? s.obj.bs) (ofNat? s.obj.nb) (ofNat? s.obj.rem) (some (s.obj.shuffle : Int)) none []
  rw [hlc]
  unfold sowCombosSpec
  rw [thenK_ok _ _ _ _ _ (by simp)]
  simp only [swOps, id, hb, hn, hs, sortByName_caseRows] at h ⊢
  rw [← hr]
  cases hc : chooseBatchSettings true (↑(product (Crop.sortByName sw).comboVals).length) true (↑(sw.caseRows.getD [[]]).length)
      (ofNat? (sowAttrs s.obj true shArg bs nb).bs) (ofNat? (sowAttrs s.obj true shArg bs nb).nb)
      (ofNat? (sowAttrs s.obj true shArg bs nb).rem) with
  | error e => rw [hc] at h; cases e <;> simp [cfgOf] at h
  | ok v =>
    obtain ⟨b, k, r⟩ := v
    rw [hc] at h
    cases b with
    | none => simp [cfgOf] at h
    | some b =>
      cases k with
      | none => simp [cfgOf] at h
      | some k =>
        simp only [cfgOf] at h
        cases h
        refine ⟨_, _, b, k, r, rfl, rfl, rfl, rfl, rfl, rfl, rfl, ?_⟩
        simp only [sowTail, sowKwargs, Bool.false_eq_true, if_false, runnerShuffle_eq_recorded]
        rw [thenK_ok _ _ _ _ _ (by intro e _; rfl)]
        simp [sowWrites]

/-- non-vacuity: the model accepts a sow of 2 × 3 combos with batchsize 4 under shuffle seed 3 -/
example : (match opSow Crop.exP ({} : St Nat) Crop.exSw true (some 3) (some 4) none with
    | .ok s' => s'.obj.nb == some 2
    | .error _ => false) = true := by decide

end Lc
