import XyzProofs.Refine.Harvest
import XyzProofs.Lemmas.TwoMode
/-!
# `save_merge_ds`, `Harvester.delete_ds / full_ds / expand_dims / drop_sel / harvest_combos / harvest_cases`:
# the hand-written models ARE the translated source (state skeletons, harness/anchors_storeio.py)

`Gen.saveMergeDs`, `Gen.hvDeleteDs`, `Gen.hvFullDs`, `Gen.hvExpandDims`, `Gen.hvDropSel`, `Gen.hvHarvestCombos`,
`Gen.hvHarvestCases` are regenerated on every run from the bodies of the library functions, as functions over an abstract
state, the operations `Gen.StoreOps` (instance `Harvest.ops`, Refine/Harvest.lean) and the further operations
`Gen.StoreExt` (instance `Harvest.ext` below).  Here `Harvest.saveMerge`, `Harvest.deleteDs`, `Harvest.fullDs`,
`Harvest.rewrite` (= `expandDims` / `dropSel`) are shown to be these functions at the instance, and the tails of the two
harvest methods are shown to hand `sync`, `overwrite` and `engine` on to `add_ds` unchanged.
-/
namespace Harvest
open DS StoreIO Gen

/-- the engine a string literal of the source names (an unknown literal: some engine that no theorem below accepts) -/
def engineOfKey (s : String) : Engine :=
  if s = "h5netcdf" then .h5netcdf else if s = "netcdf4" then .netcdf4 else if s = "joblib" then .joblib else .zarr

/-- the backup copy next to a path -/
def bakOf (p : String) : String := p ++ ".BAK"

/-- the further operations of `Gen.StoreExt` on the model's store -/
def ext : StoreExt HS Dataset Engine Err where
  engineLit := engineOfKey
  emptyData := {}
  noneAttr := .noData
  copyBak := fun s r =>
    match alookup s.1 (refPath s.2.name s.2.engine r) with
    | none => (s, some .io)
    | some f => ((sset s.1 (bakOf (refPath s.2.name s.2.engine r)) f, s.2), none)

/-! ## `save_merge_ds` -/

theorem saveMergeKind_owKind (pol : Policy) : saveMergeKind pol = owKind (polArg pol) := by
  rw [saveMergeKind_eq]; cases pol <;> rfl

/-- the body of `save_merge_ds` in one line, for any operations: probe the name with the extension of the engine in
`kwargs` (default: the literal of the source), load the bare name WITH THAT ENGINE or take the empty dataset, merge as
`overwrite` says, save under the bare name with the engine of `kwargs` (default: `save_ds`' own) -/
def saveMergeSpec {S D G E : Type} (o : StoreOps S D G E) (x : StoreExt S D G E) (ow : Option Bool) (N : D)
    (g g' : G) (st : S) : S × Option E :=
  match (if o.pathExists st (.ext (some g)) then o.loadData st .bare (some g) else .ok x.emptyData) with
  | .error e => (st, some e)
  | .ok old =>
    match o.merge (owKind ow) old N with
    | .error e => (st, some e)
    | .ok M => o.saveData st M .bare (some g')

theorem stBind_pure' {S E : Type} (r : S × Option E) : stBind r (fun s => (s, none)) = r := stBind_pure r

/-- **the translated body of `save_merge_ds` is `saveMergeSpec`** with both engines the one in `kwargs` (the default
`"h5netcdf"` when there is none) — for any state type and any operations -/
theorem saveMergeDs_eq_spec {S D G E : Type} (o : StoreOps S D G E) (x : StoreExt S D G E) (ow : Option Bool) (N : D)
    (kw : Option G) (st : S) :
    Gen.saveMergeDs o x ow N kw st =
      saveMergeSpec o x ow N (kw.getD (x.engineLit "h5netcdf")) (kw.getD (x.engineLit "h5netcdf")) st := by
  simp only [Gen.saveMergeDs, Gen.Default.saveMergeDs, saveMergeSpec, stBind_pure]
  by_cases hx : o.pathExists st (.ext (some (kw.getD (x.engineLit "h5netcdf")))) = true
  · simp only [hx, if_true]
    cases o.loadData st .bare (some (kw.getD (x.engineLit "h5netcdf"))) with
    | error e => rfl
    | ok old =>
      rcases ow with _ | _ | _ <;> simp [owKind] <;> rfl
  · simp only [hx]
    rcases ow with _ | _ | _ <;> simp [owKind] <;> rfl

/-- **`save_merge_ds(N, name, overwrite, engine=e)` as translated, at the model's instance, is `Harvest.saveMerge`**:
same store, same error — for every name, engine, policy and store; the session part of the state is not touched -/
theorem saveMergeDs_refines (store : Store) (s : Session) (e : Engine) (N : Dataset) (pol : Policy) :
    Gen.saveMergeDs ops ext (polArg pol) N (some e) (store, s) =
      (((saveMerge store s.name e N pol).1, s), (saveMerge store s.name e N pol).2) := by
  obtain ⟨_, _, _, _, _, _, _, h8, h9, _⟩ := c05_name_consistent s.name e
  rw [saveMergeDs_eq_spec]
  simp only [saveMergeSpec, saveMerge, smOld, h8, h9, Option.getD_some, saveMergeKind_owKind]
  simp only [ops, ext, refPath, Option.getD_some]
  by_cases hx : shas store (autoAddExt s.name e) = true
  · simp only [hx, if_true]
    cases hl : load store s.name e with
    | error er => rfl
    | ok old =>
      simp only []
      cases hm : mergeBy (owKind (polArg pol)) old N <;> rfl
  · have hx' : shas store (autoAddExt s.name e) = false := by simpa using hx
    simp only [hx', Bool.false_eq_true, if_false]
    cases hm : mergeBy (owKind (polArg pol)) ({} : Dataset) N <;> rfl

/-- without `engine=` in `kwargs` everything happens with h5netcdf (the literal in `save_merge_ds` and the default of
`save_ds` agree) -/
theorem saveMergeDs_default_engine (store : Store) (s : Session) (N : Dataset) (ow : Option Bool) :
    Gen.saveMergeDs ops ext ow N none (store, s) = Gen.saveMergeDs ops ext ow N (some .h5netcdf) (store, s) := by
  simp only [saveMergeDs_eq_spec, Option.getD_none, Option.getD_some]
  rfl

-- non-vacuity: a second call merges into the file the first one wrote (name without extension, joblib)
example : (Gen.saveMergeDs ops ext none { vars := [("x", ⟨[], [([], .v 2)]⟩)] } (some .joblib)
    ([("h.dmp", ⟨.joblib, { vars := [("x", ⟨[], [([], .v 1)]⟩)] }⟩)], { name := "h", engine := .joblib })).2 = some .conflict := by
  have h := saveMergeDs_refines ([("h.dmp", ⟨.joblib, { vars := [("x", ⟨[], [([], .v 1)]⟩)] }⟩)]) { name := "h", engine := .joblib }
    .joblib { vars := [("x", ⟨[], [([], .v 2)]⟩)] } .none
  simp only [polArg] at h
  rw [h]
  decide

/-! ## `Harvester.delete_ds` -/

theorem setSession_self (st : St) (sid : Nat) (s : Session) (hs : st.sessions[sid]? = some s) : setSession st sid s = st := by
  simp [setSession, set_self _ _ _ hs]

/-- **`Harvester.delete_ds()` as translated, at the model's instance, is `Harvest.deleteDs`**: the file under the data
name WITH the extension of the Harvester's engine is removed (a zarr store: the directory), an absent file is an error
and nothing changes; memory is not touched -/
theorem hvDeleteDs_refines (st : St) (sid : Nat) (s : Session) (hs : st.sessions[sid]? = some s) :
    Gen.hvDeleteDs ops ext false (st.store, s) = (((deleteDs st sid).1.store, s), (deleteDs st sid).2) ∧
    (deleteDs st sid).1.sessions = st.sessions := by
  obtain ⟨_, _, _, _, _, _, h7, _⟩ := c05_name_consistent s.name s.engine
  simp only [Gen.hvDeleteDs, Gen.Default.hvDeleteDs, deleteDs, hs, h7, stBind_pure, Bool.false_eq_true, if_false, stBind_ok]
  simp only [ops, refPath, Option.getD_some]
  by_cases hx : shas st.store (autoAddExt s.name s.engine) = true
  · simp [hx]
  · simp [hx]

/-- which remover: for ANY operations, `delete_ds()` is `shutil.rmtree` for a zarr store and `os.remove` otherwise, on the
data name with the extension of the Harvester's own engine, and nothing else -/
theorem hvDeleteDs_dispatch {S D G E : Type} (o : StoreOps S D G E) (x : StoreExt S D G E) (st : S) :
    Gen.hvDeleteDs o x false st =
      if o.isZarr (some (o.selfEngine st)) then o.rmtree st (.ext (some (o.selfEngine st)))
      else o.remove st (.ext (some (o.selfEngine st))) := by
  simp only [Gen.hvDeleteDs, Gen.Default.hvDeleteDs, stBind_pure, Bool.false_eq_true, if_false, stBind_ok] <;>
    cases o.isZarr (some (o.selfEngine st)) <;> simp

/-- with `backup=True` the file is first copied aside; the copy stays when the file is removed -/
theorem hvDeleteDs_backup (store : Store) (s : Session) (f : File)
    (hf : alookup store (autoAddExt s.name s.engine) = some f)
    (hne : bakOf (autoAddExt s.name s.engine) ≠ autoAddExt s.name s.engine) :
    (Gen.hvDeleteDs ops ext true (store, s)).2 = none ∧
    alookup (Gen.hvDeleteDs ops ext true (store, s)).1.1 (bakOf (autoAddExt s.name s.engine)) = some f ∧
    alookup (Gen.hvDeleteDs ops ext true (store, s)).1.1 (autoAddExt s.name s.engine) = none := by
  have hne' : ¬ autoAddExt s.name s.engine = bakOf (autoAddExt s.name s.engine) := fun h => hne h.symm
  simp only [Gen.hvDeleteDs, Gen.Default.hvDeleteDs, stBind_pure, if_true]
  simp only [ops, ext, refPath, Option.getD_some, hf, stBind_ok]
  have hx : shas (sset store (bakOf (autoAddExt s.name s.engine)) f) (autoAddExt s.name s.engine) = true := by
    simp [shas, alookup_sset, hne, hf]
  simp [hx, alookup_sset, alookup_serase, hne, hne']

example : bakOf (autoAddExt "h" .joblib) ≠ autoAddExt "h" .joblib := by
  intro h
  have := congrArg String.length h
  simp [bakOf, String.length_append] at this

/-! ## the `full_ds` property -/

/-- **`Harvester.full_ds` as translated, at the model's instance, is `Harvest.fullDs`**: the file is read only when
nothing is in memory; the store is never touched; the value returned is what the object then holds -/
theorem hvFullDs_refines (st : St) (sid : Nat) (s : Session) (hs : st.sessions[sid]? = some s) :
    (Gen.hvFullDs ops ext (st.store, s)).1.1 = st.store ∧
    (fullDs st sid).1 = setSession st sid (Gen.hvFullDs ops ext (st.store, s)).1.2 ∧
    (fullDs st sid).2 = (match (Gen.hvFullDs ops ext (st.store, s)).2 with
      | none => .ok (Gen.hvFullDs ops ext (st.store, s)).1.2.mem
      | some e => .error e) := by
  have key : Gen.hvFullDs ops ext (st.store, s) =
      if s.mem.isNone then Gen.hvLoadFull ops none (st.store, s) else ((st.store, s), none) := by
    have hmn : ops.memIsNone (st.store, s) = s.mem.isNone := rfl
    -- (the case split also covers the body written with an early return of what is in memory)
    first
    | (simp only [Gen.hvFullDs, stBind_pure, hmn] <;> cases s.mem.isNone <;> simp
       done)
    | (have e1 : @Gen.hvLoadFull = @Gen.Default.hvLoadFull := by same_gen [Gen.hvLoadFull, Gen.Default.hvLoadFull]
       simp only [Gen.hvFullDs, Gen.Default.hvFullDs, stBind_pure, e1, hmn] <;> cases s.mem.isNone <;> simp
       done)
  rw [key, hvLoadFull_refines]
  unfold fullDs
  simp only [hs]
  cases hm : s.mem with
  | some d => simp [setSession_self st sid s hs, hm]
  | none =>
    simp only [Option.isNone_none, if_true]
    cases hl : loadFull st.store s with
    | error e => simp [setSession_self st sid s hs]
    | ok s1 => simp

/-- a dataset in memory is returned as it is: the file is not even looked at -/
theorem hvFullDs_mem (o : StoreOps HS Dataset Engine Err) (x : StoreExt HS Dataset Engine Err) (st : HS)
    (h : o.memIsNone st = false) : Gen.hvFullDs o x st = (st, none) := by
  simp [Gen.hvFullDs, Gen.Default.hvFullDs, h, stBind_pure]

/-! ## `expand_dims` / `drop_sel` -/

/-- load-if-none → transform → `save_full_ds(new)` (or, without a data name, set memory) — for any operations -/
def rewriteSpec {S D G E : Type} (o : StoreOps S D G E) (x : StoreExt S D G E) (dataNameNone : Bool)
    (xf : D → Except E D) (g : Option G) (st : S) : S × Option E :=
  stBind (Gen.hvFullDs o x st) fun st =>
    match (if o.memIsNone st then Except.error x.noneAttr else xf (o.mem st)) with
    | .error e => (st, some e)
    | .ok M => if dataNameNone then (o.setMem st M, none) else Gen.hvSaveFull o dataNameNone true M g st

theorem hvExpandDims_eq_spec {S D G E : Type} (o : StoreOps S D G E) (x : StoreExt S D G E) (dn : Bool)
    (xf : D → Except E D) (g : Option G) (st : S) :
    Gen.hvExpandDims o x dn xf g st = rewriteSpec o x dn xf g st := by
  first
  | (simp only [Gen.hvExpandDims, rewriteSpec, stBind_pure]
     first
     | rfl
     | (congr 1; done)
     | (congr 1; funext st1
        cases (if o.memIsNone st1 then Except.error x.noneAttr else xf (o.mem st1)) <;> cases dn <;> (try simp))
     done)
  | (have e1 : @Gen.hvFullDs = @Gen.Default.hvFullDs := by same_gen [Gen.hvFullDs, Gen.Default.hvFullDs]
     have e2 : @Gen.hvSaveFull = @Gen.Default.hvSaveFull := by same_gen [Gen.hvSaveFull, Gen.Default.hvSaveFull]
     simp only [Gen.hvExpandDims, Gen.Default.hvExpandDims, rewriteSpec, stBind_pure, e1, e2]
     first
     | rfl
     | (congr 1; done)
     | (congr 1; funext st1
        cases (if o.memIsNone st1 then Except.error x.noneAttr else xf (o.mem st1)) <;> cases dn <;> (try simp))
     done)

theorem hvDropSel_eq_spec {S D G E : Type} (o : StoreOps S D G E) (x : StoreExt S D G E) (dn : Bool)
    (xf : D → Except E D) (g : Option G) (st : S) :
    Gen.hvDropSel o x dn xf g st = rewriteSpec o x dn xf g st := by
  first
  | (simp only [Gen.hvDropSel, rewriteSpec, stBind_pure]
     first
     | rfl
     | (congr 1; done)
     | (congr 1; funext st1
        cases (if o.memIsNone st1 then Except.error x.noneAttr else xf (o.mem st1)) <;> cases dn <;> (try simp))
     done)
  | (have e1 : @Gen.hvFullDs = @Gen.Default.hvFullDs := by same_gen [Gen.hvFullDs, Gen.Default.hvFullDs]
     have e2 : @Gen.hvSaveFull = @Gen.Default.hvSaveFull := by same_gen [Gen.hvSaveFull, Gen.Default.hvSaveFull]
     simp only [Gen.hvDropSel, Gen.Default.hvDropSel, rewriteSpec, stBind_pure, e1, e2]
     first
     | rfl
     | (congr 1; done)
     | (congr 1; funext st1
        cases (if o.memIsNone st1 then Except.error x.noneAttr else xf (o.mem st1)) <;> cases dn <;> (try simp))
     done)

/-- a partial transformation of the model as the operation handed to the skeleton -/
def xfOf (f : Dataset → Option Dataset) (onNone : Err) : Dataset → Except Err Dataset :=
  fun d => match f d with
    | some d' => .ok d'
    | none => .error onNone

/-- **load-if-none → transform → save, at the model's instance, is `Harvest.rewrite`**: same error (or none), same
session afterwards, a store representing the same finite map -/
theorem rewriteSpec_refines (st : St) (sid : Nat) (s : Session) (f : Dataset → Option Dataset) (onNone : Err)
    (hs : st.sessions[sid]? = some s) (hz : s.engine ≠ .zarr)
    (ht : alookup st.store (tmpOf (autoAddExt s.name s.engine)) = none) :
    (rewriteSpec ops ext false (xfOf f onNone) none (st.store, s)).2 = (rewrite st sid f onNone).2 ∧
    (rewrite st sid f onNone).1.sessions = st.sessions.set sid (rewriteSpec ops ext false (xfOf f onNone) none (st.store, s)).1.2 ∧
    SameMap (rewriteSpec ops ext false (xfOf f onNone) none (st.store, s)).1.1 (rewrite st sid f onNone).1.store := by
  obtain ⟨h1, h2, h3⟩ := hvFullDs_refines st sid s hs
  unfold rewrite rewriteSpec
  -- what `full_ds` leaves: the state `(st.store, s1)`
  rcases hg : Gen.hvFullDs ops ext (st.store, s) with ⟨⟨store1, s1⟩, oe⟩
  rw [hg] at h1 h2 h3
  simp only at h1 h2 h3
  subst h1
  rcases hfd : fullDs st sid with ⟨st1, r⟩
  rw [hfd] at h2 h3
  simp only at h2 h3
  subst h2
  cases oe with
  | some e =>
    simp only at h3; subst h3
    simp [stBind, setSession, SameMap]
  | none =>
    simp only at h3; subst h3
    -- the session keeps its name and engine through the load
    have hfields : s1.name = s.name ∧ s1.engine = s.engine := by
      obtain ⟨_, hsp⟩ := fullDs_spec st sid s hs
      rw [hfd] at hsp
      obtain ⟨s1', hs1', _, hn, he⟩ := hsp s1.mem rfl
      simp only [setSession] at hs1'
      rw [set_get _ _ _ _ hs] at hs1'
      injection hs1' with hs1'; subst hs1'; exact ⟨hn, he⟩
    have hs1 : (setSession st sid s1).sessions[sid]? = some s1 := by simp [setSession, set_get _ _ _ _ hs]
    simp only [stBind_ok]
    cases hm : s1.mem with
    | none => simp [ops, ext, hm, setSession, SameMap]
    | some d =>
      have hmem : ops.memIsNone (st.store, s1) = false := by simp [ops, hm]
      have hmemv : ops.mem (st.store, s1) = d := by simp [ops, hm]
      simp only [hmem, hmemv, Bool.false_eq_true, if_false, xfOf]
      cases hf : f d with
      | none => simp [setSession, SameMap]
      | some d' =>
        obtain ⟨store', hr, store'', hm', hsame⟩ := hvSaveFull_refines st.store s1 d' (by rw [hfields.2]; exact hz)
          (by rw [hfields.1, hfields.2]; exact ht)
        have hst1 : (setSession st sid s1).store = st.store := rfl
        simp only [hs1, hst1, hr, hm']
        simp [setSession, hsame]

/-- **`Harvester.expand_dims` as translated is `Harvest.expandDims`** (up to the finite map the store represents) -/
theorem hvExpandDims_refines (st : St) (sid : Nat) (s : Session) (dim : String) (value : Coord)
    (hs : st.sessions[sid]? = some s) (hz : s.engine ≠ .zarr)
    (ht : alookup st.store (tmpOf (autoAddExt s.name s.engine)) = none) :
    let r := Gen.hvExpandDims ops ext false (xfOf (fun d => d.expandDims dim value) .value) none (st.store, s)
    r.2 = (expandDims st sid dim value).2 ∧ (expandDims st sid dim value).1.sessions = st.sessions.set sid r.1.2 ∧
    SameMap r.1.1 (expandDims st sid dim value).1.store := by
  simp only [hvExpandDims_eq_spec, expandDims]
  exact rewriteSpec_refines st sid s _ _ hs hz ht

/-- **`Harvester.drop_sel` as translated is `Harvest.dropSel`** (up to the finite map the store represents) -/
theorem hvDropSel_refines (st : St) (sid : Nat) (s : Session) (dim : String) (values : List Coord)
    (hs : st.sessions[sid]? = some s) (hz : s.engine ≠ .zarr)
    (ht : alookup st.store (tmpOf (autoAddExt s.name s.engine)) = none) :
    let r := Gen.hvDropSel ops ext false (xfOf (fun d => d.dropSel dim values) .key) none (st.store, s)
    r.2 = (dropSel st sid dim values).2 ∧ (dropSel st sid dim values).1.sessions = st.sessions.set sid r.1.2 ∧
    SameMap r.1.1 (dropSel st sid dim values).1.store := by
  simp only [hvDropSel_eq_spec, dropSel]
  exact rewriteSpec_refines st sid s _ _ hs hz ht

/-- for ANY operations: a transformation that fails (or no dataset at all) writes nothing — the state is the one the
`full_ds` read left -/
theorem hvDropSel_error_no_write {S D G E : Type} (o : StoreOps S D G E) (x : StoreExt S D G E) (dn : Bool)
    (xf : D → Except E D) (g : Option G) (st st1 : S) (e : E)
    (hl : Gen.hvFullDs o x st = (st1, none)) (hmem : o.memIsNone st1 = false) (hx : xf (o.mem st1) = .error e) :
    Gen.hvDropSel o x dn xf g st = (st1, some e) ∧ Gen.hvExpandDims o x dn xf g st = (st1, some e) := by
  simp [hvDropSel_eq_spec, hvExpandDims_eq_spec, rewriteSpec, hl, hmem, hx]

-- non-vacuity of the rewrite theorems: a Harvester with a file, nothing in memory, dropping a label
example : ∃ (st : St) (s : Session), st.sessions[0]? = some s ∧ s.engine ≠ .zarr ∧
    alookup st.store (tmpOf (autoAddExt s.name s.engine)) = none ∧ (dropSel st 0 "a" [1]).2 = none := by
  refine ⟨{ store := [("h.dmp", ⟨.joblib, { coords := [("a", [1, 2])] }⟩)], sessions := [{ name := "h", engine := .joblib }] },
    { name := "h", engine := .joblib }, rfl, by decide, by decide, by decide⟩

/-! ## the tails of `harvest_combos` / `harvest_cases` -/

/-- **`harvest_combos` (no `...` values) and `harvest_cases` as translated**: run the runner — if that raises nothing
else happens — then `add_ds(result, sync, overwrite, engine)` with the call's own `sync`, `overwrite` and `engine`;
for any operations -/
theorem hvHarvest_eq_addDs {S D G E : Type} (o : StoreOps S D G E) (x : StoreExt S D G E) (dn sync : Bool)
    (ow : Option Bool) (run : Except E D) (g : Option G) (st : S) :
    Gen.hvHarvestCombos o x dn false sync ow run g st =
      (match run with | .error e => (st, some e) | .ok N => Gen.hvAddDs o dn sync ow N g st) ∧
    Gen.hvHarvestCases o x dn sync ow run g st =
      (match run with | .error e => (st, some e) | .ok N => Gen.hvAddDs o dn sync ow N g st) := by
  first
  | (constructor <;> cases run <;> simp [Gen.hvHarvestCombos, Gen.hvHarvestCases, stBind_pure]; done)
  | (have e1 : @Gen.hvAddDs = @Gen.Default.hvAddDs := by same_gen [Gen.hvAddDs, Gen.Default.hvAddDs]
     constructor <;> cases run <;>
       simp [Gen.hvHarvestCombos, Gen.Default.hvHarvestCombos, Gen.hvHarvestCases, Gen.Default.hvHarvestCases, stBind_pure, e1]
     done)

/-- with `...` among the values the `full_ds` property is read first (a file is loaded when nothing is in memory) -/
theorem hvHarvestCombos_ellipsis {S D G E : Type} (o : StoreOps S D G E) (x : StoreExt S D G E) (dn sync : Bool)
    (ow : Option Bool) (run : Except E D) (g : Option G) (st : S) :
    Gen.hvHarvestCombos o x dn true sync ow run g st =
      stBind (Gen.hvFullDs o x st) fun st => Gen.hvHarvestCombos o x dn false sync ow run g st := by
  first
  | (simp [Gen.hvHarvestCombos, stBind_pure]; done)
  | (have e1 : @Gen.hvFullDs = @Gen.Default.hvFullDs := by same_gen [Gen.hvFullDs, Gen.Default.hvFullDs]
     simp [Gen.hvHarvestCombos, Gen.Default.hvHarvestCombos, stBind_pure, e1]; done)

/-- `chunks` is handed on to `add_ds` by both methods -/
theorem hvHarvest_chunks : Gen.hvHarvestCombosChunks = true ∧ Gen.hvHarvestCasesChunks = true := by
  simp only [Gen.hvHarvestCombosChunks, Gen.Default.hvHarvestCombosChunks, Gen.hvHarvestCasesChunks,
    Gen.Default.hvHarvestCasesChunks, and_self]

/-- **`harvest_combos` / `harvest_cases` at the model's instance are `Harvest.addDs`** of the dataset the run returned
(composition of `hvHarvest_eq_addDs` and `hvAddDs_refines`) -/
theorem hvHarvest_refines (st : St) (sid : Nat) (s : Session) (N : Dataset) (pol : Policy) (sync : Bool)
    (hs : st.sessions[sid]? = some s) (hz : s.engine ≠ .zarr)
    (ht : alookup st.store (tmpOf (autoAddExt s.name s.engine)) = none) :
    let r := Gen.hvHarvestCases ops ext false sync (polArg pol) (.ok N) none (st.store, s)
    Gen.hvHarvestCombos ops ext false false sync (polArg pol) (.ok N) none (st.store, s) = r ∧
    r.2 = (addDs st sid N pol sync).2 ∧ (addDs st sid N pol sync).1.sessions = st.sessions.set sid r.1.2 ∧
    SameMap r.1.1 (addDs st sid N pol sync).1.store := by
  obtain ⟨h1, h2⟩ := hvHarvest_eq_addDs ops ext false sync (polArg pol) (.ok N) none (st.store, s)
  simp only [h1, h2, true_and]
  exact hvAddDs_refines st sid s N pol sync hs hz ht

end Harvest
