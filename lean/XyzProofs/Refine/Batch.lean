import XyzModel.Batch
/-!
# The hand-written batching model is the translated source (function-level refinement)

`Gen.chooseBatchSettings`, `Gen.sowerInit`, `Gen.sowerCall`, `Gen.sowerExit` are the *whole bodies* of
`Crop.choose_batch_settings`, `Sower.__init__`, `Sower.__call__` (+ the inlined `save_batch`) and `Sower.__exit__`,
translated from the repository source on every run (harness/pyfn2lean.py).  The theorems below say that the
hand-written `Batch.chooseBatch`, `Batch.step`, `Batch.finish`, `Batch.sow` — about which C04/C07/C08/C09 are proved —
compute exactly what those translated bodies compute.
-/
set_option linter.unusedSimpArgs false
namespace Refine
open Batch

/-- how a result of the translated `choose_batch_settings` is read as the model's `Cfg` -/
def cfgOf : Except Gen.PyErr (Option Int × Option Int × Option Int) → Except Batch.Err Batch.Cfg
  | .ok (some b, some k, r) => .ok ⟨b.toNat, k.toNat, (r.getD 0).toNat⟩
  | .ok _ => .error .type
  | .error .typeError => .error .type
  | .error _ => .error .value

def ofNat? (o : Option Nat) : Option Int := o.map Int.ofNat

theorem cfgOf_ite (c : Prop) [Decidable c] (x y) : cfgOf (if c then x else y) = if c then cfgOf x else cfgOf y := by
  split <;> rfl

/-- `Crop.choose_batch_settings`, as translated from the source, is `Batch.chooseBatch` for
`n = (len(cases) or 1) * (product of the combo lengths, or 1)`; the three attributes it leaves behind are the
model's `Cfg` (an absent remainder reads as 0). -/
theorem chooseBatch_refines (ct : Bool) (cp : Nat) (cst : Bool) (cl : Nat) (bs nb rem : Option Nat) :
    Batch.chooseBatch ((if cst then cl else 1) * (if ct then cp else 1)) bs nb rem
      = cfgOf (Gen.chooseBatchSettings ct cp cst cl (ofNat? bs) (ofNat? nb) (ofNat? rem)) := by
  have hn : (((if cst then cl else 1) * (if ct then cp else 1) : Nat) : Int)
      = (if cst then (cl : Int) else 1) * (if ct then (cp : Int) else 1) := by
    cases cst <;> cases ct <;> simp
  generalize hN : ((if cst then cl else 1) * (if ct then cp else 1) : Nat) = N at hn
  rcases bs with _ | bs <;> rcases nb with _ | nb <;> rcases rem with _ | rem <;>
    simp only [Batch.chooseBatch, Gen.chooseBatchSettings, Gen.Default.chooseBatchSettings, ofNat?, Option.map,
      Option.isSome, Option.isNone, Option.getD, Bool.and_true, Bool.and_false, Bool.false_and, Bool.true_and,
      Gen.bothOk, Gen.Default.bothOk, Gen.nbFromBs, Gen.Default.nbFromBs, Gen.capNb, Gen.Default.capNb,
      Gen.bsOfNb, Gen.Default.bsOfNb, Gen.remOfNb, Gen.Default.remOfNb, ← hn]
  all_goals clear hN hn
  all_goals simp [cfgOf_ite]
  all_goals simp [cfgOf]
  all_goals (split <;> split <;> first | rfl | (exfalso; omega) | (simp; try omega) | skip)
  all_goals (have hm : max (min (N:Int) (nb:Int)) 0 = min (N:Int) (nb:Int) := by omega)
  all_goals (rw [hm]; exact ⟨rfl, rfl⟩)

/-! ## The Sower -/

/-- batch files as the Sower numbers them: the `i`-th batch written (0-based) is file `i + 1` -/
def numbered {β} : Nat → List β → List (Int × β)
  | _, [] => []
  | k, b :: bs => ((k : Int) + 1, b) :: numbered (k + 1) bs

theorem numbered_append {β} (k : Nat) (l : List β) (b : β) :
    numbered k (l ++ [b]) = numbered k l ++ [(((k + l.length : Nat) : Int) + 1, b)] := by
  induction l generalizing k with
  | nil => simp [numbered]
  | cons x xs ih =>
    simp only [List.cons_append, numbered, ih, List.length_cons]
    have : k + 1 + xs.length = k + (xs.length + 1) := by omega
    rw [this]

/-- the Sower object that stands for a model state: `_batch_cases`, `_counter`, `_batch_counter`, files written -/
def conc {α} (s : St α) : List α × Int × Int × List (Int × List α) :=
  (s.cur, (s.cur.length : Int), (s.out.length : Int), numbered 0 s.out)

theorem sowerInit_refines {α} : (Gen.sowerInit : Except Gen.PyErr (List α × Int × Int)) = .ok ([], 0, 0) := by
  simp [Gen.sowerInit, Gen.Default.sowerInit]

/-- `Sower.__call__` (with `save_batch` inlined), as translated from the source, is `Batch.step` -/
theorem sowerCall_refines {α} (c : Cfg) (s : St α) (x : α) :
    Gen.sowerCall (c.batchsize : Int) (c.remainder : Int) s.cur s.cur.length s.out.length (numbered 0 s.out) x
      = .ok (conc (Batch.step c s x)) := by
  simp only [Gen.sowerCall, Gen.Default.sowerCall, Batch.step, conc, Gen.sowerFlush, Gen.Default.sowerFlush,
    Gen.sowerGetsExtra, Gen.Default.sowerGetsExtra, List.length_append, List.length_cons, List.length_nil]
  by_cases h : (s.cur.length : Int) + 1 = (c.batchsize : Int) + if s.out.length < c.remainder then 1 else 0
  · simp [h, numbered_append]
  · simp [h]

/-- `Sower.__exit__`, as translated from the source, writes the overfill exactly as `Batch.finish` says -/
theorem sowerExit_refines {α} (s : St α) :
    ∃ a b c, Gen.sowerExit s.cur (s.cur.length : Int) (s.out.length : Int) (numbered 0 s.out)
      = .ok (a, b, c, numbered 0 (Batch.finish s)) := by
  simp only [Gen.sowerExit, Gen.Default.sowerExit, Batch.finish]
  cases hc : s.cur.isEmpty
  · simp [numbered_append]
  · simp

/-- a Sower driven the way `combo_runner_core` drives it: enter, one call per setting, exit; the value is the list
of batch files written -/
def runSower {α} (batchsize remainder : Int) (l : List α) : Except Gen.PyErr (List (Int × List α)) :=
  match (Gen.sowerInit : Except Gen.PyErr (List α × Int × Int)) with
  | .error e => .error e
  | .ok (bc, cnt, k) =>
    match l.foldlM (fun (st : List α × Int × Int × List (Int × List α)) x =>
        Gen.sowerCall batchsize remainder st.1 st.2.1 st.2.2.1 st.2.2.2 x) (bc, cnt, k, []) with
    | .error e => .error e
    | .ok st =>
      match Gen.sowerExit st.1 st.2.1 st.2.2.1 st.2.2.2 with
      | .error e => .error e
      | .ok r => .ok r.2.2.2

theorem foldlM_sowerCall {α} (c : Cfg) (l : List α) (s : St α) :
    l.foldlM (fun (st : List α × Int × Int × List (Int × List α)) x =>
        Gen.sowerCall (c.batchsize : Int) (c.remainder : Int) st.1 st.2.1 st.2.2.1 st.2.2.2 x) (conc s)
      = .ok (conc (l.foldl (Batch.step c) s)) := by
  induction l generalizing s with
  | nil => simp [pure, Except.pure]
  | cons x xs ih =>
    simp only [List.foldlM_cons, List.foldl_cons]
    have := sowerCall_refines c s x
    simp only [conc] at this ih ⊢
    simp only [this, bind, Except.bind]
    exact ih _

/-- **The Sower, as translated from the source, writes exactly the batch files `Batch.sow` describes**, numbered
from 1 in the order written — for every batch configuration and every stream of settings. -/
theorem sower_refines {α} (c : Cfg) (l : List α) :
    runSower (c.batchsize : Int) (c.remainder : Int) l = .ok (numbered 0 (Batch.sow c l)) := by
  unfold runSower
  rw [sowerInit_refines]
  have h := foldlM_sowerCall c l { cur := [], out := [] }
  simp only [conc, List.length_nil, numbered] at h
  have h0 : ((0 : Nat) : Int) = 0 := rfl
  rw [h0] at h
  dsimp only
  rw [h]
  dsimp only
  obtain ⟨a, b, d, he⟩ := sowerExit_refines (l.foldl (Batch.step c) { cur := [], out := [] })
  rw [he]
  rfl

end Refine
