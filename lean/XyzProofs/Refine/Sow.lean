import XyzModel.Crop
import XyzProofs.Refine.Batch
/-!
# The attribute updates of `sow_combos` / `sow_cases`: the hand-written `Crop.sowAttrs` is the translated source

`Gen.sowCombosHead` / `Gen.sowCasesHead` are the leading `if <arg> is not None: self.<attr> = <arg>` statements of
the two methods, translated from the repository source on every run.
-/
set_option linter.unusedSimpArgs false
namespace Refine
open Crop

/-- the head of `sow_combos` leaves exactly the attributes `Crop.sowAttrs … true …` describes -/
theorem sowAttrs_combos_refines (o : Obj) (shArg bs nb : Option Nat) :
    Gen.sowCombosHead (ofNat? bs) (ofNat? nb) (ofNat? shArg) (ofNat? o.bs) (ofNat? o.nb) (some (o.shuffle : Int))
      = .ok (ofNat? (sowAttrs o true shArg bs nb).bs, ofNat? (sowAttrs o true shArg bs nb).nb,
             some ((sowAttrs o true shArg bs nb).shuffle : Int)) := by
  cases shArg <;> cases bs <;> cases nb <;>
    simp [Gen.sowCombosHead, Gen.Default.sowCombosHead, sowAttrs, ofNat?]

/-- the head of `sow_cases` leaves exactly the attributes `Crop.sowAttrs … false …` describes (the crop's own
shuffle setting is untouched whatever `shArg` says: the method has no such argument) -/
theorem sowAttrs_cases_refines (o : Obj) (shArg bs nb : Option Nat) :
    Gen.sowCasesHead (ofNat? bs) (ofNat? nb) (ofNat? o.bs) (ofNat? o.nb) (some (o.shuffle : Int))
      = .ok (ofNat? (sowAttrs o false shArg bs nb).bs, ofNat? (sowAttrs o false shArg bs nb).nb,
             some ((sowAttrs o false shArg bs nb).shuffle : Int)) := by
  cases shArg <;> cases bs <;> cases nb <;>
    simp [Gen.sowCasesHead, Gen.Default.sowCasesHead, sowAttrs, ofNat?]

end Refine
