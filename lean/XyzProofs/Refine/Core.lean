import XyzProofs.Props.C02
import XyzModel.Gen.Extracted
/-!
# The hand-written sweep model is the translated source (`combo_runner_core`, `_unflatten`, `_run_linear_*`)

`Gen.coreEnum`, `Gen.coreRunSeq`, `Gen.coreRunExec`, `Gen.coreRun`, `Gen.unflatten`, `Gen.coreProcess` are translated
from xyzpy/gen/combo_runner.py on every run (harness/pyloop2lean.py, harness/anchors_core.py).  This file proves that
`Core.Sweep.locs`, `Core.runShuffled` / `Core.runLinear`, `Core.unflatten` and `Core.processNested` — about which C01 and
C02 are proved — compute what those translated loops compute.
-/
set_option linter.unusedSimpArgs false
namespace CoreRefine
open Core Gen List

variable {V α β φ : Type}

/-! ## folds that only append -/

theorem foldl_append_one {γ δ : Type} (g : γ → δ) (l : List γ) (acc : List δ) :
    l.foldl (fun acc x => acc ++ [g x]) acc = acc ++ l.map g := by
  induction l generalizing acc with
  | nil => simp
  | cons x xs ih => simp [ih]

theorem foldl_append_two {γ δ ε : Type} (g : γ → δ) (h : γ → ε) (l : List γ) (a : List δ) (b : List ε) :
    l.foldl (fun (acc : List δ × List ε) x => (acc.1 ++ [g x], acc.2 ++ [h x])) (a, b) = (a ++ l.map g, b ++ l.map h) := by
  induction l generalizing a b with
  | nil => simp
  | cons x xs ih => simp [ih]

/-! ## the linear runs -/

/-- a loop that appends one value per item is a `map` (whatever the body looks like: a comprehension, a loop with
`append`, with or without a named local for the value — the function `g` is found by unification) -/
theorem foldl_snoc {γ δ : Type} (g : γ → δ) (l : List γ) (acc : List δ) :
    l.foldl (fun acc x => acc ++ [g x]) acc = acc ++ l.map g := by
  induction l generalizing acc with
  | nil => simp
  | cons a t ih => simp [ih]

/-- `_run_linear_sequential`: the function's values in the order of the settings -/
theorem coreRunSeq_refines (f : α → β) (settings : List α) :
    Gen.coreRunSeq f settings = .ok (settings.map f) := by
  simp only [Gen.coreRunSeq, Gen.Default.coreRunSeq, foldl_snoc, List.nil_append]
  try rfl

/-- `_run_linear_executor`: the `i`-th collected result is the result of the future of the `i`-th submitted setting
(submission order = collection order) -/
theorem coreRunExec_refines (submit : α → φ) (getResult : φ → β) (settings : List α) :
    Gen.coreRunExec submit getResult settings = .ok (settings.map fun kws => getResult (submit kws)) := by
  simp only [Gen.coreRunExec, Gen.Default.coreRunExec, foldl_snoc, List.nil_append]
  congr 1
  induction settings with
  | nil => rfl
  | cons a t ih => simpa using ih

example : Gen.coreRunSeq (fun n : Nat => n * 2) [3, 1, 2] = .ok [6, 2, 4] := by rfl
example : Gen.coreRunExec (fun n : Nat => (n, n + 1)) (fun p : Nat × Nat => p.1 * p.2) [3, 1] = .ok [12, 2] := by rfl


/-! ## (a) the enumeration loop -/

theorem foldl_pair_spec {γ δ ε : Type} (F : List δ × List ε → γ → List δ × List ε) (g : γ → δ) (h : γ → ε)
    (hF : ∀ acc x, F acc x = (acc.1 ++ [g x], acc.2 ++ [h x])) (l : List γ) (a : List δ) (b : List ε) :
    l.foldl F (a, b) = (a ++ l.map g, b ++ l.map h) := by
  induction l generalizing a b with
  | nil => simp
  | cons x xs ih => simp [hF, ih]

theorem foldl_flat_spec {γ δ ε : Type} (F : List δ × List ε → γ → List δ × List ε) (G : γ → List δ) (H : γ → List ε)
    (hF : ∀ acc x, F acc x = (acc.1 ++ G x, acc.2 ++ H x)) (l : List γ) (a : List δ) (b : List ε) :
    l.foldl F (a, b) = (a ++ l.flatMap G, b ++ l.flatMap H) := by
  induction l generalizing a b with
  | nil => simp
  | cons x xs ih => simp [hF, ih]

/-- the keyword arguments of the call at `loc`: `dict(zip(fn_args, loc))`, then `.update(constants)` -/
def mkKws [BEq V] (fnArgs : List String) (consts : List (String × V)) (loc : List V) : List (String × V) :=
  Py.dictUpdate (Py.dictOfList (fnArgs.zip loc)) consts

theorem overlap_eq (s : Sweep) : (!Py.isDisjoint s.caseArgs s.comboArgs) = s.overlap := by
  simp [Py.isDisjoint, Sweep.overlap]

/-- **enumeration**: the translated loop of `combo_runner_core` rejects overlapping argument names, and otherwise
yields `fn_args = case_args + combo_args`, the locations `Sweep.locs` (cases outermost, `itertools.product` of the combo
values inside, location = case values ++ combo values) and, for every location in that order, the keyword arguments
`dict(zip(fn_args, loc))` updated with the constants -/
theorem coreEnum_refines (s : Sweep) (consts : List (String × Nat)) :
    Gen.coreEnum s.caseArgs s.comboArgs (s.caseRows.getD [[]]) s.comboVals consts
      = if s.overlap then .error .valueError
        else .ok (s.fnArgs, s.locs, s.locs.map (mkKws s.fnArgs consts)) := by
  simp only [Gen.coreEnum, Gen.Default.coreEnum, overlap_eq]
  split
  · rfl
  · rw [foldl_flat_spec (G := fun cp => (product s.comboVals).map (cp ++ ·))
        (H := fun cp => (product s.comboVals).map fun combo => mkKws s.fnArgs consts (cp ++ combo))]
    · simp [Sweep.locs, Sweep.fnArgs, List.map_flatMap, Function.comp_def]
    · rintro ⟨a, b⟩ cp
      rw [foldl_pair_spec (g := (cp ++ ·)) (h := fun combo => mkKws s.fnArgs consts (cp ++ combo))]
      rintro ⟨a', b'⟩ combo
      rfl


/-! ## (b) the shuffle bookkeeping -/

theorem enumerate_getElem? (l : List α) (i : Nat) (h : i < l.length) (d : α) :
    (Py.enumerate l)[i]? = some (i, l.getD i d) := by
  simp [Py.enumerate, List.getElem?_zip_eq_some, h, List.getD_eq_getElem?_getD]

theorem permute_enumerate (σ : List Nat) (l : List α) (d : α) (hσ : ∀ i ∈ σ, i < l.length) :
    Py.permute σ (Py.enumerate l) = σ.map fun i => (i, l.getD i d) := by
  induction σ with
  | nil => rfl
  | cons i t ih =>
    have hi := hσ i List.mem_cons_self
    have ht := ih fun j hj => hσ j (List.mem_cons_of_mem _ hj)
    simp only [Py.permute, List.filterMap_cons, enumerate_getElem? l i hi d, List.map_cons] at ht ⊢
    rw [ht]

theorem unzip_map_pair {γ : Type} (σ : List Nat) (g : Nat → γ) :
    (σ.map fun i => (i, g i)).unzip = (σ, σ.map g) := by
  induction σ with
  | nil => rfl
  | cons i t ih => simp [ih]

/-- without `shuffle` the settings are run as enumerated — by the pool when an executor was given or a pool asked for,
else sequentially — and the results are returned as collected -/
theorem coreRun_plain (leR : β → β → Bool) (σ : List Nat) (fl eg pa : Bool) (runSeq runExec : List α → List β)
    (settings : List α) :
    Gen.coreRun leR σ false fl eg pa runSeq runExec settings
      = .ok (settings, (if eg || pa then runExec else runSeq) settings) := by
  simp only [Gen.coreRun, Gen.Default.coreRun]
  cases eg <;> cases pa <;> rfl

/-- **shuffle**: with `shuffle`, the list that is run is the list of settings permuted by what `random.shuffle` did
to `list(enumerate(settings))`, and the results are put back by sorting the (index, result) pairs on the index:
exactly `Core.applyPerm` / `Core.runShuffled` — for every index list `σ` within range, every way of running -/
theorem coreRun_shuffled (leR : β → β → Bool) (f : α → β) (settings : List α) (σ : List Nat) (d : α) (fl eg pa : Bool)
    (hσ : ∀ i ∈ σ, i < settings.length) (hne : σ ≠ []) :
    Gen.coreRun leR σ true fl eg pa (List.map f) (List.map f) settings
      = .ok (applyPerm σ settings d, runShuffled f settings σ d) := by
  have hkey : (fun (a b : Nat × β) => Py.leNat a.1 b.1) = keyLE := by funext a b; rfl
  have hsort : ∀ l : List (Nat × β), l ≠ [] →
      (if (l.mergeSort keyLE).isEmpty then none else some (l.mergeSort keyLE).unzip) = some (l.mergeSort keyLE).unzip := by
    intro l hl
    have : (l.mergeSort keyLE) ≠ [] := by
      intro h; apply hl; have := List.length_mergeSort (le := keyLE) l; rw [h] at this; exact List.length_eq_zero_iff.mp this.symm
    simp [this]
  have hz : σ.zip (List.map f (applyPerm σ settings d)) ≠ [] := by
    cases σ with
    | nil => exact absurd rfl hne
    | cons i t => simp [applyPerm]
  have hperm : (if (σ.map fun i => (i, settings.getD i d)).isEmpty then none
      else some (σ.map fun i => (i, settings.getD i d)).unzip) = some (σ, applyPerm σ settings d) := by
    cases σ with
    | nil => exact absurd rfl hne
    | cons i t => simp [unzip_map_pair, applyPerm]
  simp only [Gen.coreRun, Gen.Default.coreRun, permute_enumerate σ settings d hσ, Py.sortedOn, hkey, if_true, hperm,
    hsort _ hz]
  cases eg <;> cases pa <;> simp [runShuffled]

/-- `shuffle` with nothing to run: Python has nothing to unpack in `enum, settings = zip(*enum_settings)` -/
theorem coreRun_shuffled_empty (leR : β → β → Bool) (σ : List Nat) (fl eg pa : Bool) (runSeq runExec : List α → List β) :
    Gen.coreRun leR σ true fl eg pa runSeq runExec [] = .error .valueError := by
  simp only [Gen.coreRun, Gen.Default.coreRun]
  have : Py.permute σ (Py.enumerate ([] : List α)) = [] := by
    induction σ with
    | nil => rfl
    | cons i t ih => simp [Py.permute, Py.enumerate]
  simp [this]

/-- the translated run with the flags a `Strategy` stands for: what is run and what comes back -/
def stShuffle : Strategy → Option (List Nat)
  | .seq => none | .executor _ => none | .shuffled σ => some σ | .shuffledExecutor σ _ => some σ

def stExec : Strategy → Bool
  | .seq => false | .shuffled _ => false | _ => true

/-- **the linear run of the model is the translated run**: results of `Core.runLinear` are the results of the
translated slice, and the list the translated slice hands to the runner is the model's call log before an executor
reorders it -/
theorem coreRun_runLinear (leR : β → β → Bool) (f : List Nat → β) (locs : List (List Nat)) (st : Strategy) (fl : Bool)
    (hwf : st.WF locs.length) (hne : locs ≠ []) :
    Gen.coreRun leR ((stShuffle st).getD []) (stShuffle st).isSome fl (stExec st) false (List.map f) (List.map f) locs
      = .ok (match stShuffle st with | none => locs | some σ => applyPerm σ locs [], (runLinear f locs st).2) := by
  have hr : ∀ σ : List Nat, σ ~ List.range locs.length → (∀ i ∈ σ, i < locs.length) ∧ σ ≠ [] := by
    intro σ h
    refine ⟨fun i hi => by simpa using h.mem_iff.mp hi, ?_⟩
    intro h0; subst h0
    have := h.length_eq; simp at this
    exact hne (List.length_eq_zero_iff.mp this.symm)
  cases st with
  | seq => simp [stShuffle, stExec, coreRun_plain, runLinear]
  | executor π => simp [stShuffle, stExec, coreRun_plain, runLinear]
  | shuffled σ =>
    obtain ⟨h1, h2⟩ := hr σ hwf
    simp only [stShuffle, stExec, Option.getD_some, Option.isSome_some, runLinear]
    exact coreRun_shuffled leR f locs σ [] fl false false h1 h2
  | shuffledExecutor σ π =>
    obtain ⟨h1, h2⟩ := hr σ hwf.1
    simp only [stShuffle, stExec, Option.getD_some, Option.isSome_some, runLinear]
    exact coreRun_shuffled leR f locs σ [] fl true false h1 h2


/-! ## dictionaries as association lists -/
section dict
variable {κ ν : Type} [BEq κ] [LawfulBEq κ]

theorem dictGet_cons (e : κ × ν) (t : List (κ × ν)) (k : κ) :
    Py.dictGet (e :: t) k = if e.1 == k then some e.2 else Py.dictGet t k := by
  simp only [Py.dictGet, List.find?_cons]
  by_cases h : e.1 = k
  · simp [h]
  · have : (e.1 == k) = false := by simpa using h
    simp [h, this]

theorem dictGet_nil (k : κ) : Py.dictGet ([] : List (κ × ν)) k = none := rfl

theorem dictErase_cons (e : κ × ν) (t : List (κ × ν)) (k : κ) :
    Py.dictErase (e :: t) k = if e.1 == k then Py.dictErase t k else e :: Py.dictErase t k := by
  simp only [Py.dictErase, List.filter_cons]
  by_cases h : e.1 = k
  · simp [h]
  · have : (e.1 == k) = false := by simpa using h
    simp [h, this]

theorem get_erase (s : List (κ × ν)) (k k' : κ) :
    Py.dictGet (Py.dictErase s k) k' = if k' == k then none else Py.dictGet s k' := by
  induction s with
  | nil => simp [Py.dictErase, dictGet_nil]
  | cons e t ih =>
    rw [dictErase_cons, dictGet_cons]
    by_cases h1 : e.1 = k
    · rw [if_pos (by simpa using h1), ih]
      by_cases h2 : k' = k
      · simp [h2]
      · have : ¬ e.1 = k' := by rw [h1]; exact fun h => h2 h.symm
        simp [h2, this]
    · rw [if_neg (by simpa using h1), dictGet_cons, ih]
      by_cases h3 : e.1 = k'
      · have : ¬ k' = k := by rw [← h3]; exact h1
        simp [h3, this]
      · simp [h3]

theorem get_map_replace (s : List (κ × ν)) (k k' : κ) (v : ν) :
    Py.dictGet (s.map fun e => if e.1 == k then (e.1, v) else e) k'
      = if k' == k then (if s.any (fun e => e.1 == k) then some v else none) else Py.dictGet s k' := by
  induction s with
  | nil => simp [dictGet_nil]
  | cons e t ih =>
    rw [List.map_cons, dictGet_cons, ih, dictGet_cons, List.any_cons]
    by_cases h1 : e.1 = k
    · by_cases h2 : k' = k
      · have : e.1 = k' := by rw [h1, h2]
        simp [h1, h2]
      · have : ¬ e.1 = k' := by rw [h1]; exact fun h => h2 h.symm
        have h1' : (e.1 == k) = true := by simpa using h1
        simp [h1', h2, this]
    · have h1' : (e.1 == k) = false := by simpa using h1
      by_cases h3 : e.1 = k'
      · have : ¬ k' = k := by rw [← h3]; exact h1
        simp [h1', h3, this]
      · simp only [h1', h3, Bool.false_or, if_false]
        simp [h3]

theorem get_none_of_not_any (s : List (κ × ν)) (k : κ) (h : s.any (fun e => e.1 == k) = false) :
    Py.dictGet s k = none := by
  induction s with
  | nil => rfl
  | cons e t ih =>
    rw [List.any_cons, Bool.or_eq_false_iff] at h
    have : ¬ e.1 = k := by simpa using h.1
    rw [dictGet_cons, if_neg (by simpa using this), ih h.2]

theorem get_append_one (s : List (κ × ν)) (k k' : κ) (v : ν) :
    Py.dictGet (s ++ [(k, v)]) k' = match Py.dictGet s k' with | some x => some x | none => if k == k' then some v else none := by
  induction s with
  | nil => simp [dictGet_cons, dictGet_nil]
  | cons e t ih =>
    rw [List.cons_append, dictGet_cons, dictGet_cons, ih]
    by_cases h : e.1 = k' <;> simp [h]

theorem get_set (s : List (κ × ν)) (k k' : κ) (v : ν) :
    Py.dictGet (Py.dictSet s k v) k' = if k' == k then some v else Py.dictGet s k' := by
  unfold Py.dictSet
  by_cases h : s.any (fun e => e.1 == k) = true
  · rw [if_pos h, get_map_replace, h]; simp
  · have h' : s.any (fun e => e.1 == k) = false := Bool.eq_false_iff.mpr h
    rw [if_neg h, get_append_one]
    by_cases h2 : k' = k
    · subst h2
      simp [get_none_of_not_any s k' h']
    · have e1 : (k == k') = false := by simpa using fun h : k = k' => h2 h.symm
      have e2 : (k' == k) = false := by simpa using h2
      simp only [e1, e2, Bool.false_eq_true, if_false]
      cases Py.dictGet s k' <;> rfl

theorem get_mapVal {γ : Type} (g : ν → γ) (s : List (κ × ν)) (k : κ) :
    Py.dictGet (Py.dictMapVal g s) k = (Py.dictGet s k).map g := by
  induction s with
  | nil => rfl
  | cons e t ih =>
    have : Py.dictMapVal g (e :: t) = (e.1, g e.2) :: Py.dictMapVal g t := rfl
    rw [this, dictGet_cons, dictGet_cons, ih]
    by_cases h : e.1 = k <;> simp [h]

/-- `dict(zip(keys, values))` when the value is a function of the key -/
theorem get_ofList_fn (f : κ → ν) (l : List (κ × ν)) (hl : ∀ e ∈ l, e.2 = f e.1) (d : List (κ × ν)) (k : κ) :
    Py.dictGet (l.foldl (fun d e => Py.dictSet d e.1 e.2) d) k
      = if k ∈ l.map Prod.fst then some (f k) else Py.dictGet d k := by
  induction l generalizing d with
  | nil => simp
  | cons e t ih =>
    rw [List.foldl_cons, ih (fun x hx => hl x (List.mem_cons_of_mem _ hx)), get_set]
    have he := hl e List.mem_cons_self
    by_cases h1 : k ∈ t.map Prod.fst
    · simp [h1]
    · by_cases h2 : k = e.1
      · subst h2
        simp [he]
      · simp [h1, h2]

end dict


/-! ## (c) `_unflatten` -/

theorem length_of_mem_product (vals : List (List V)) (p : List V) (h : p ∈ product vals) : p.length = vals.length := by
  induction vals generalizing p with
  | nil => simp [product] at h; subst h; rfl
  | cons vs rest ih =>
    simp only [product, List.mem_flatMap, List.mem_map] at h
    obtain ⟨v, _, q, hq, rfl⟩ := h
    simp [ih q hq]

theorem mem_product_snoc (init : List (List V)) (last p : List V) (v : V) (hp : p ∈ product init) (hv : v ∈ last) :
    p ++ [v] ∈ product (init ++ [last]) := by
  induction init generalizing p with
  | nil =>
    simp [product] at hp; subst hp
    simp [product, hv]
  | cons vs rest ih =>
    simp only [product, List.mem_flatMap, List.mem_map, List.cons_append] at hp ⊢
    obtain ⟨x, hx, q, hq, rfl⟩ := hp
    exact ⟨x, hx, q ++ [v], ih q hq, rfl⟩

theorem product_nodup (vals : List (List V)) (h : ∀ vs ∈ vals, vs.Nodup) : (product vals).Nodup := by
  induction vals with
  | nil => simp [product]
  | cons vs rest ih =>
    have hr := ih fun x hx => h x (List.mem_cons_of_mem _ hx)
    have hv : vs.Nodup := h vs List.mem_cons_self
    simp only [product, List.Nodup, List.pairwise_flatMap, List.pairwise_map]
    refine ⟨fun a _ => hr.imp (fun hxy h' => hxy (List.cons.inj h').2), hv.imp ?_⟩
    intro a b hab x hx y hy
    simp only [List.mem_map] at hx hy
    obtain ⟨x', _, rfl⟩ := hx
    obtain ⟨y', _, rfl⟩ := hy
    exact fun h' => hab (List.cons.inj h').1

theorem nest_congr (vals : List (List V)) (g g' : List V → Nest β) (h : ∀ p ∈ product vals, g p = g' p) :
    nest vals g = nest vals g' := by
  induction vals generalizing g g' with
  | nil => simp only [nest]; exact h [] (by simp [product])
  | cons vs rest ih =>
    simp only [nest]
    congr 1
    apply List.map_congr_left
    intro v hv
    apply ih
    intro p hp
    apply h
    simp only [product, List.mem_flatMap, List.mem_map]
    exact ⟨v, hv, p, hp, rfl⟩

section unflat
variable [BEq V] [LawfulBEq V]

/-- the stateful comprehension `tuple(store.pop(p + (v,), all_nan) for v in last)`: (store afterwards, items) -/
def popAll (dflt : Nest β) (p last : List V) (s : List (List V × Nest β)) : List (List V × Nest β) × List (Nest β) :=
  last.foldl (fun acc v => (Py.dictErase acc.1 (p ++ [v]), acc.2 ++ [(Py.dictGet acc.1 (p ++ [v])).getD dflt])) (s, [])

/-- one `store[p] = tuple(...)` -/
def stepP (dflt : Nest β) (last : List V) (s : List (List V × Nest β)) (p : List V) : List (List V × Nest β) :=
  Py.dictSet (popAll dflt p last s).1 p (.node (popAll dflt p last s).2)

theorem popAll_aux (dflt : Nest β) (p t : List V) (ht : t.Nodup) (s : List (List V × Nest β)) (items : List (Nest β)) :
    (t.foldl (fun (acc : List (List V × Nest β) × List (Nest β)) v =>
        (Py.dictErase acc.1 (p ++ [v]), acc.2 ++ [(Py.dictGet acc.1 (p ++ [v])).getD dflt])) (s, items)).2
      = items ++ t.map (fun v => (Py.dictGet s (p ++ [v])).getD dflt) ∧
    ∀ k, Py.dictGet (t.foldl (fun (acc : List (List V × Nest β) × List (Nest β)) v =>
        (Py.dictErase acc.1 (p ++ [v]), acc.2 ++ [(Py.dictGet acc.1 (p ++ [v])).getD dflt])) (s, items)).1 k
      = if k ∈ t.map (p ++ [·]) then none else Py.dictGet s k := by
  induction t generalizing s items with
  | nil => simp
  | cons v t ih =>
    have hv : v ∉ t := (List.nodup_cons.mp ht).1
    obtain ⟨h1, h2⟩ := ih (List.nodup_cons.mp ht).2 (Py.dictErase s (p ++ [v])) (items ++ [(Py.dictGet s (p ++ [v])).getD dflt])
    rw [List.foldl_cons]
    refine ⟨?_, ?_⟩
    · rw [h1, List.map_cons, List.append_assoc]
      congr 1
      simp only [List.singleton_append]
      congr 1
      apply List.map_congr_left
      intro w hw
      rw [get_erase]
      have : ¬ (p ++ [w] == p ++ [v]) = true := by
        simp only [beq_iff_eq, List.append_cancel_left_eq, List.cons.injEq, and_true]
        rintro rfl; exact hv hw
      rw [if_neg this]
    · intro k
      rw [h2 k, get_erase]
      by_cases hk : k ∈ t.map (p ++ [·])
      · simp [hk]
      · by_cases hk2 : k = p ++ [v]
        · simp [hk2]
        · simp [hk, hk2]

theorem get_stepP (dflt : Nest β) (last : List V) (hl : last.Nodup) (s : List (List V × Nest β)) (p k : List V) :
    Py.dictGet (stepP dflt last s p) k
      = if k == p then some (.node (last.map fun v => (Py.dictGet s (p ++ [v])).getD dflt))
        else if k ∈ last.map (p ++ [·]) then none else Py.dictGet s k := by
  obtain ⟨h1, h2⟩ := popAll_aux dflt p last hl s []
  simp only [stepP, popAll, get_set, h1, h2, List.nil_append]

theorem fold_stepP (dflt : Nest β) (last : List V) (hl : last.Nodup) (n : Nat) (s0 : List (List V × Nest β))
    (ps : List (List V)) (hnd : ps.Nodup) (hlen : ∀ p ∈ ps, p.length = n) (s : List (List V × Nest β))
    (H3 : ∀ p ∈ ps, ∀ v, Py.dictGet s (p ++ [v]) = Py.dictGet s0 (p ++ [v])) :
    (∀ k ∈ ps, Py.dictGet (ps.foldl (stepP dflt last) s) k
        = some (.node (last.map fun v => (Py.dictGet s0 (k ++ [v])).getD dflt))) ∧
    (∀ k, k.length = n → k ∉ ps → Py.dictGet (ps.foldl (stepP dflt last) s) k = Py.dictGet s k) := by
  induction ps generalizing s with
  | nil => simp
  | cons p t ih =>
    have hp : p ∉ t := (List.nodup_cons.mp hnd).1
    have hpl : p.length = n := hlen p List.mem_cons_self
    have hnot : ∀ k : List V, k.length = n → k ∉ last.map (p ++ [·]) := by
      intro k hk hmem
      simp only [List.mem_map] at hmem
      obtain ⟨v, _, rfl⟩ := hmem
      simp at hk; omega
    have H3' : ∀ q ∈ t, ∀ v, Py.dictGet (stepP dflt last s p) (q ++ [v]) = Py.dictGet s0 (q ++ [v]) := by
      intro q hq v
      rw [get_stepP dflt last hl]
      have hql : q.length = n := hlen q (List.mem_cons_of_mem _ hq)
      have e1 : ¬ (q ++ [v] == p) = true := by
        simp only [beq_iff_eq]; intro h; have := congrArg List.length h; simp at this; omega
      have e2 : q ++ [v] ∉ last.map (p ++ [·]) := by
        simp only [List.mem_map, not_exists, not_and]
        intro w _ h
        have := List.append_inj_left' h (by simp)
        exact hp (this ▸ hq)
      rw [if_neg e1, if_neg e2]
      exact H3 q (List.mem_cons_of_mem _ hq) v
    obtain ⟨ih1, ih2⟩ := ih (List.nodup_cons.mp hnd).2 (fun q hq => hlen q (List.mem_cons_of_mem _ hq)) _ H3'
    rw [List.foldl_cons]
    refine ⟨?_, ?_⟩
    · intro k hk
      rcases List.mem_cons.mp hk with rfl | hk
      · rw [ih2 k hpl hp, get_stepP dflt last hl]
        simp only [beq_self_eq_true, if_true]
        congr 2
        apply List.map_congr_left
        intro v _
        rw [H3 k List.mem_cons_self v]
      · exact ih1 k hk
    · intro k hk hkn
      have hk1 : k ≠ p := fun h => hkn (h ▸ List.mem_cons_self)
      have hk2 : k ∉ t := fun h => hkn (List.mem_cons_of_mem _ h)
      rw [ih2 k hk hk2, get_stepP dflt last hl]
      have e1 : ¬ (k == p) = true := by simpa using hk1
      rw [if_neg e1, if_neg (hnot k hk)]

/-- one round of the `while` loop: every `p` of the remaining product now maps to the tuple of what was stored (or the
default) at `p + (v,)`, `v` running over the popped argument's values -/
theorem step_spec (dflt : Nest β) (init : List (List V)) (last : List V) (hnd : ∀ vs ∈ init, vs.Nodup) (hl : last.Nodup)
    (s : List (List V × Nest β)) (p : List V) (hp : p ∈ product init) :
    Py.dictGet ((product init).foldl (stepP dflt last) s) p
      = some (.node (last.map fun v => (Py.dictGet s (p ++ [v])).getD dflt)) :=
  (fold_stepP dflt last hl init.length s (product init) (product_nodup init hnd)
    (fun q hq => length_of_mem_product init q hq) s (fun _ _ _ => rfl)).1 p hp

/-- the loop body as a function of (remaining arguments, popped argument, store) -/
def body (dflt : Nest β) (init : List (List V)) (last : List V) (s : List (List V × Nest β)) : List (List V × Nest β) :=
  (product init).foldl (stepP dflt last) s

theorem while_full (dflt : Nest β) (rvals : List (List V)) (hnd : ∀ vs ∈ rvals, vs.Nodup) (s : List (List V × Nest β))
    (g : List V → Nest β) (hs : ∀ p ∈ product rvals.reverse, Py.dictGet s p = some (g p)) :
    Py.dictGet (Py.whilePopLastAux (body dflt) rvals s) [] = some (nest rvals.reverse g) := by
  induction rvals generalizing s g with
  | nil => simpa [Py.whilePopLastAux, nest, product] using hs
  | cons last rinit ih =>
    have hl : last.Nodup := hnd last List.mem_cons_self
    have hi : ∀ vs ∈ rinit.reverse, vs.Nodup := fun vs h => hnd vs (List.mem_cons_of_mem _ (List.mem_reverse.mp h))
    simp only [Py.whilePopLastAux, List.reverse_cons]
    rw [ih (fun vs h => hnd vs (List.mem_cons_of_mem _ h)) _ (fun p => .node (last.map fun v => g (p ++ [v])))]
    · rw [nest_snoc]
    · intro p hp
      rw [body, step_spec dflt rinit.reverse last hi hl s p hp]
      congr 2
      apply List.map_congr_left
      intro v hv
      rw [hs (p ++ [v]) (by rw [List.reverse_cons]; exact mem_product_snoc _ _ _ _ hp hv)]
      rfl

theorem while_sparse (dflt : Nest β) (last : List V) (rinit : List (List V)) (hnd : ∀ vs ∈ last :: rinit, vs.Nodup)
    (s : List (List V × Nest β)) :
    Py.dictGet (Py.whilePopLastAux (body dflt) (last :: rinit) s) []
      = some (nest (rinit.reverse ++ [last]) (fun p => (Py.dictGet s p).getD dflt)) := by
  have hl : last.Nodup := hnd last List.mem_cons_self
  have hi : ∀ vs ∈ rinit.reverse, vs.Nodup := fun vs h => hnd vs (List.mem_cons_of_mem _ (List.mem_reverse.mp h))
  simp only [Py.whilePopLastAux]
  rw [while_full dflt rinit (fun vs h => hnd vs (List.mem_cons_of_mem _ h)) _
    (fun p => .node (last.map fun v => (Py.dictGet s (p ++ [v])).getD dflt))]
  · rw [nest_snoc]
  · intro p hp
    exact step_spec dflt rinit.reverse last hi hl s p hp

/-- the translated `_unflatten` in terms of the loop body above -/
theorem unflatten_unfold (store : List (List V × Nest β)) (vals : List (List V)) (dflt : Nest β) :
    Gen.unflatten store vals dflt
      = match Py.dictGet (Py.whilePopLast vals store (body dflt)) [] with
        | none => .error .keyError
        | some x => .ok x := by
  simp only [Gen.unflatten, Gen.Default.unflatten]
  rfl

theorem unflatten_unfold_default (store : List (List V × Nest β)) (vals : List (List V)) (dflt : Nest β) :
    Gen.Default.unflatten store vals dflt
      = match Py.dictGet (Py.whilePopLast vals store (body dflt)) [] with
        | none => .error .keyError
        | some x => .ok x := by
  simp only [Gen.Default.unflatten]
  rfl

theorem unflatten_of_unfold (u : Except PyErr (Nest β)) (store : List (List V × Nest β)) (vals : List (List V))
    (dflt : Nest β)
    (hu : u = match Py.dictGet (Py.whilePopLast vals store (body dflt)) [] with
        | none => .error .keyError
        | some x => .ok x)
    (hnd : ∀ vs ∈ vals, vs.Nodup) (h0 : vals = [] → ∃ x, Py.dictGet store [] = some x) :
    u = .ok (Core.unflatten dflt vals (Py.dictGet store)) := by
  rw [hu, unflatten_eq, Py.whilePopLast]
  cases hr : vals.reverse with
  | nil =>
    have hv : vals = [] := by simpa using hr
    obtain ⟨x, hx⟩ := h0 hv
    subst hv
    simp [Py.whilePopLastAux, hx, nest]
  | cons last rinit =>
    have hv : vals = rinit.reverse ++ [last] := by
      have := congrArg List.reverse hr; simpa using this
    rw [while_sparse dflt last rinit (fun vs h => hnd vs (by rw [← List.mem_reverse, hr]; exact h)) store, hv]

/-- **`_unflatten`**: the translated loop (pop the last argument, for every remaining combination replace the entries
`p + (v,)` by the tuple of them, missing ones standing as `all_nan`; finally `store.pop(())`) returns the nested tuple
of the hand-written `Core.unflatten` over the dict's lookup function — provided no argument lists a value twice (a
popped key is gone: a repeated value would read the default the second time) and, when there is no argument at all,
the store has the entry `()` -/
theorem unflatten_refines (store : List (List V × Nest β)) (vals : List (List V)) (dflt : Nest β)
    (hnd : ∀ vs ∈ vals, vs.Nodup) (h0 : vals = [] → ∃ x, Py.dictGet store [] = some x) :
    Gen.unflatten store vals dflt = .ok (Core.unflatten dflt vals (Py.dictGet store)) :=
  unflatten_of_unfold _ store vals dflt (unflatten_unfold store vals dflt) hnd h0

/-- the same for the last-good text (a `process_results` that fell back calls it) -/
theorem unflatten_refines_default (store : List (List V × Nest β)) (vals : List (List V)) (dflt : Nest β)
    (hnd : ∀ vs ∈ vals, vs.Nodup) (h0 : vals = [] → ∃ x, Py.dictGet store [] = some x) :
    Gen.Default.unflatten store vals dflt = .ok (Core.unflatten dflt vals (Py.dictGet store)) :=
  unflatten_of_unfold _ store vals dflt (unflatten_unfold_default store vals dflt) hnd h0

end unflat


/-! ## (d) `process_results` -/

theorem get_resultsMapped (f : List Nat → β) (locs : List (List Nat)) (p : List Nat) :
    Py.dictGet (Py.dictMapVal Nest.leaf (Py.dictOfList (locs.zip (locs.map f)))) p
      = if p ∈ locs then some (.leaf (f p)) else none := by
  rw [get_mapVal, Py.dictOfList, get_ofList_fn f]
  · have : (locs.zip (locs.map f)).map Prod.fst = locs := by
      rw [List.map_fst_zip]; simp
    rw [this]
    by_cases h : p ∈ locs <;> simp [h, dictGet_nil]
  · intro e he
    have := List.of_mem_zip he
    induction locs with
    | nil => simp at he
    | cons a t ih =>
      simp only [List.map_cons, List.zip_cons_cons, List.mem_cons] at he
      rcases he with rfl | he
      · rfl
      · exact ih he (List.of_mem_zip he)

theorem lookup_table (f : List Nat → β) (locs : List (List Nat)) (p : List Nat) :
    lookup (locs.zip (locs.map f)) p = if p ∈ locs then some (f p) else none := by
  by_cases h : p ∈ locs
  · rw [lookup_zip_map f locs p h, if_pos h]
  · rw [lookup_zip_map_none f locs p h, if_neg h]

/-- `flat=True`: `tuple(r)` -/
theorem coreProcess_flat (pyNone : β) (nl : β → β) (cg : Bool) (locs cv acv : List (List Nat)) (r : List β) :
    Gen.coreProcess pyNone nl true cg locs cv acv r = .ok (.flat r) := by
  simp only [Gen.coreProcess, Gen.Default.coreProcess, Bool.false_eq_true, Bool.true_eq_false, if_false, if_true, Bool.not_false, Bool.not_true, reduceIte, ite_true, ite_false]
  try rfl

/-- **no cases**: `_unflatten(dict(zip(locs, r)), combo_values)` is the model's `processNested` (no slot is missing,
so neither Python's `None` default nor the model's placeholder shows) -/
theorem coreProcess_grid (pyNone : β) (nl : β → β) (s : Sweep) (hg : s.caseRows = none)
    (hnd : ∀ vs ∈ s.comboVals, vs.Nodup) (f : List Nat → β) (ph : β) (acv : List (List Nat)) :
    Gen.coreProcess pyNone nl false false s.locs s.comboVals acv (s.locs.map f)
      = .ok (.nested (processNested s (s.locs.map f) ph)) := by
  have hlocs : s.locs = product s.comboVals := locs_grid s hg
  simp only [Gen.coreProcess, Gen.Default.coreProcess, Bool.false_eq_true, Bool.true_eq_false, if_false, if_true, Bool.not_false, Bool.not_true, reduceIte, ite_true, ite_false]
  first | rw [unflatten_refines _ _ _ hnd] | rw [unflatten_refines_default _ _ _ hnd]
  · simp only [processNested, hg, unflatten_eq]
    congr 2
    apply nest_congr
    intro p hp
    rw [get_resultsMapped, lookup_table, hlocs, if_pos hp, if_pos hp]
    rfl
  · intro h0
    refine ⟨.leaf (f []), ?_⟩
    rw [get_resultsMapped, hlocs, h0]
    simp [product]

theorem caseCoords_nodup (s : Sweep) : ∀ vs ∈ s.caseCoords, vs.Nodup := by
  intro vs h
  unfold Sweep.caseCoords at h
  split at h
  · simp at h
  · simp only [List.mem_map] at h
    obtain ⟨j, _, rfl⟩ := h
    exact (sortedSet_spec _).2.imp (fun h => Nat.ne_of_lt h)

/-- **cases**: `all_nan = nan_like_result(r[0])` and `_unflatten(dict(zip(locs, r)), all_combo_values, all_nan)` is the
model's `processNested` with the placeholder made from the first result -/
theorem coreProcess_cases (pyNone : β) (nl : β → β) (s : Sweep) (rows : List (List Nat)) (hr : s.caseRows = some rows)
    (hnd : ∀ vs ∈ s.comboVals, vs.Nodup) (f : List Nat → β) (first : List Nat) (rest : List (List Nat))
    (hne : s.locs = first :: rest) (hc : s.coords = [] → [] ∈ s.locs) :
    Gen.coreProcess pyNone nl false true s.locs s.comboVals s.coords (s.locs.map f)
      = .ok (.nested (processNested s (s.locs.map f) (nl (f first)))) := by
  have hnd' : ∀ vs ∈ s.coords, vs.Nodup := by
    intro vs h
    rcases List.mem_append.mp h with h | h
    · exact caseCoords_nodup s vs h
    · exact hnd vs h
  have h0 : (s.locs.map f)[0]? = some (f first) := by rw [hne]; rfl
  simp only [Gen.coreProcess, Gen.Default.coreProcess, Bool.false_eq_true, Bool.true_eq_false, if_false, if_true, Bool.not_false, Bool.not_true, reduceIte, ite_true, ite_false, h0]
  first | rw [unflatten_refines _ _ _ hnd'] | rw [unflatten_refines_default _ _ _ hnd']
  · simp only [processNested, hr, unflatten_eq]
    congr 2
    apply nest_congr
    intro p _
    rw [get_resultsMapped, lookup_table]
    by_cases h : p ∈ s.locs <;> simp [h]
  · intro h0
    refine ⟨.leaf (f []), ?_⟩
    rw [get_resultsMapped, if_pos (hc h0)]


/-! ## the translated slices composed -/

/-- the value of a translated helper that cannot raise -/
def okOr {ε γ : Type} (x : Except ε (List γ)) : List γ := match x with | .ok r => r | .error _ => []

/-- the translated slices composed the way `combo_runner_core` composes them (`Gen.coreGlue`: nothing in between
rebinds what flows from one to the next, and `process_results(results_linear)` is what is returned), for a swept
function `g` of keyword arguments and one output.  The pool computes `g` too (`submit = g`, `_get_result = id`).
`s.coords` — the sorted union of the case coordinates — is the hand-written part that remains. -/
def translated (g : List (String × Nat) → β) (nl : β → β) (pyNone : β) (leR : β → β → Bool) (s : Sweep)
    (consts : List (String × Nat)) (st : Strategy) (flat : Bool) :
    Except PyErr (List (List (String × Nat)) × CoreOut β) :=
  match Gen.coreEnum s.caseArgs s.comboArgs (s.caseRows.getD [[]]) s.comboVals consts with
  | .error e => .error e
  | .ok (_, locs, settings) =>
    match Gen.coreRun leR ((stShuffle st).getD []) (stShuffle st).isSome flat (stExec st) false
        (fun l => okOr (Gen.coreRunSeq g l)) (fun l => okOr (Gen.coreRunExec g id l)) settings with
    | .error e => .error e
    | .ok (ran, results) =>
      match Gen.coreProcess pyNone nl flat s.caseRows.isSome locs s.comboVals s.coords results with
      | .error e => .error e
      | .ok out => .ok (ran, out)

theorem coreGlue_holds : Gen.coreGlue = true := by
  simp only [Gen.coreGlue, Gen.Default.coreGlue]

/-- **the model is the translated source**: on a well-formed request with something to run, the composed translated
slices succeed; the list of keyword arguments handed to the runner is the model's enumeration (permuted by `σ` under
`shuffle`), each being `dict(zip(fn_args, loc))` + constants; and what is returned is what `Core.core` returns for the
function `loc ↦ g(kwargs of loc)` — flat or nested -/
theorem translated_eq_core (g : List (String × Nat) → β) (nl : β → β) (pyNone : β) (leR : β → β → Bool) (s : Sweep)
    (consts : List (String × Nat)) (st : Strategy) (flat : Bool)
    (hov : s.overlap = false) (hwf : st.WF s.locs.length) (hnd : ∀ vs ∈ s.comboVals, vs.Nodup)
    (first : List Nat) (rest : List (List Nat)) (hne : s.locs = first :: rest) (hc : s.coords = [] → [] ∈ s.locs) :
    ∃ r, core (fun loc => g (mkKws s.fnArgs consts loc)) nl s st = .ok r ∧ r.log ~ s.locs ∧
      translated g nl pyNone leR s consts st flat
        = .ok ((match stShuffle st with | none => s.locs | some σ => applyPerm σ s.locs []).map (mkKws s.fnArgs consts),
               if flat then .flat r.flat else .nested r.nested) := by
  obtain ⟨r, h1, h2, h3, h4⟩ := core_ok (fun loc => g (mkKws s.fnArgs consts loc)) nl s st hov hwf
  refine ⟨r, h1, h2, ?_⟩
  have hseq : (fun l => okOr (Gen.coreRunSeq g l)) = List.map g := by
    funext l; rw [coreRunSeq_refines]; rfl
  have hexe : (fun l => okOr (Gen.coreRunExec g id l)) = List.map g := by
    funext l; rw [coreRunExec_refines]; rfl
  have hne' : s.locs.map (mkKws s.fnArgs consts) ≠ [] := by rw [hne]; simp
  have hlen : (s.locs.map (mkKws s.fnArgs consts)).length = s.locs.length := by simp
  -- the run
  have hrun : Gen.coreRun leR ((stShuffle st).getD []) (stShuffle st).isSome flat (stExec st) false
        (List.map g) (List.map g) (s.locs.map (mkKws s.fnArgs consts))
      = .ok ((match stShuffle st with | none => s.locs | some σ => applyPerm σ s.locs []).map (mkKws s.fnArgs consts),
             s.locs.map fun loc => g (mkKws s.fnArgs consts loc)) := by
    have hr : ∀ σ : List Nat, σ ~ List.range s.locs.length →
        Gen.coreRun leR σ true flat (stExec st) false (List.map g) (List.map g) (s.locs.map (mkKws s.fnArgs consts))
          = .ok ((applyPerm σ s.locs []).map (mkKws s.fnArgs consts), s.locs.map fun loc => g (mkKws s.fnArgs consts loc)) := by
      intro σ h
      have hin : ∀ i ∈ σ, i < (s.locs.map (mkKws s.fnArgs consts)).length := by
        intro i hi; rw [hlen]; simpa using h.mem_iff.mp hi
      have hσne : σ ≠ [] := by
        intro h0; subst h0
        have := h.length_eq; simp [hne] at this
      rw [coreRun_shuffled leR g _ σ (mkKws s.fnArgs consts []) flat (stExec st) false hin hσne,
        runShuffled_eq g _ σ _ (by rw [hlen]; exact h)]
      simp [applyPerm, List.getD_eq_getElem?_getD, List.getElem?_map]
    cases st with
    | seq => simp [stShuffle, stExec, coreRun_plain]
    | executor π => simp [stShuffle, stExec, coreRun_plain]
    | shuffled σ => simpa [stShuffle] using hr σ hwf
    | shuffledExecutor σ π => simpa [stShuffle] using hr σ hwf.1
  have hfirst : (match s.locs with | [] => g (mkKws s.fnArgs consts []) | l :: _ => g (mkKws s.fnArgs consts l))
      = g (mkKws s.fnArgs consts first) := by rw [hne]
  simp only [translated, coreEnum_refines, hov, Bool.false_eq_true, if_false, hseq, hexe, hrun]
  cases flat with
  | true => simp only [coreProcess_flat, h3, if_true]
  | false =>
    have h4' : r.nested = processNested s (s.locs.map fun loc => g (mkKws s.fnArgs consts loc))
        (nl (g (mkKws s.fnArgs consts first))) := by
      rw [h4]; congr 2
    rw [h4']
    cases hr : s.caseRows with
    | none =>
      have := coreProcess_grid pyNone nl s hr hnd (fun loc => g (mkKws s.fnArgs consts loc))
        (nl (g (mkKws s.fnArgs consts first))) s.coords
      simp only [Option.isSome_none, this, Bool.false_eq_true, if_false]
    | some rows =>
      have := coreProcess_cases pyNone nl s rows hr hnd (fun loc => g (mkKws s.fnArgs consts loc)) first rest hne hc
      simp only [Option.isSome_some, this, Bool.false_eq_true, if_false]

/-- **C01 on the translated source (own slot)**: for a grid without repeated values, under every strategy, the nested
tuple returned by the composed translated slices holds at index path `idx` the value of `g` on the keyword arguments
of precisely the combination `idx` selects; and the runner was handed a permutation of all combinations -/
theorem c01_slot_src (g : List (String × Nat) → β) (nl : β → β) (pyNone : β) (leR : β → β → Bool) (s : Sweep)
    (consts : List (String × Nat)) (st : Strategy)
    (hg : s.caseRows = none) (hov : s.overlap = false) (hwf : st.WF s.locs.length) (hnd : ∀ vs ∈ s.comboVals, vs.Nodup)
    (idx p : List Nat) (hp : pick s.comboVals idx = some p) :
    ∃ ran out, translated g nl pyNone leR s consts st false = .ok (ran, .nested out) ∧
      ran ~ (product s.comboVals).map (mkKws s.fnArgs consts) ∧
      out.get idx = some (.leaf (g (mkKws s.fnArgs consts p))) := by
  have hmem : p ∈ s.locs := by rw [locs_grid s hg]; exact mem_product_of_pick _ _ _ hp
  obtain ⟨first, rest, hne⟩ : ∃ first rest, s.locs = first :: rest := by
    cases h : s.locs with
    | nil => rw [h] at hmem; simp at hmem
    | cons a t => exact ⟨a, t, rfl⟩
  have hc : s.coords = [] → [] ∈ s.locs := by
    intro h
    have hcv : s.comboVals = [] := by
      have : s.caseCoords ++ s.comboVals = [] := h
      exact (List.append_eq_nil_iff.mp this).2
    rw [locs_grid s hg, hcv]; simp [product]
  obtain ⟨r, h1, _, h3⟩ := translated_eq_core g nl pyNone leR s consts st false hov hwf hnd first rest hne hc
  obtain ⟨r', h1', h2'⟩ := c01_slot (fun loc => g (mkKws s.fnArgs consts loc)) nl s st hg hov hwf idx p hp
  rw [h1] at h1'; cases h1'
  refine ⟨_, r.nested, by simpa using h3, ?_, h2'⟩
  rw [← locs_grid s hg]
  apply List.Perm.map
  cases st with
  | seq => exact List.Perm.refl _
  | executor π => exact List.Perm.refl _
  | shuffled σ => exact applyPerm_perm σ s.locs [] hwf
  | shuffledExecutor σ π => exact applyPerm_perm σ s.locs [] hwf.1

/-- **C02 on the translated source (own slot or placeholder)** -/
theorem c02_slot_src [DecidableEq β] (g : List (String × Nat) → β) (nl : β → β) (pyNone : β) (leR : β → β → Bool)
    (s : Sweep) (consts : List (String × Nat)) (st : Strategy) (rows : List (List Nat)) (hr : s.caseRows = some rows)
    (hov : s.overlap = false) (hwf : st.WF s.locs.length) (hnd : ∀ vs ∈ s.comboVals, vs.Nodup)
    (first : List Nat) (rest : List (List Nat)) (hne : s.locs = first :: rest) (hc : s.coords = [] → [] ∈ s.locs)
    (idx p : List Nat) (hp : pick s.coords idx = some p) :
    ∃ ran out, translated g nl pyNone leR s consts st false = .ok (ran, .nested out) ∧
      ran ~ (rows.flatMap fun cp => (product s.comboVals).map (cp ++ ·)).map (mkKws s.fnArgs consts) ∧
      out.get idx = some (.leaf (if p ∈ s.locs then g (mkKws s.fnArgs consts p)
                                 else nl (g (mkKws s.fnArgs consts first)))) := by
  obtain ⟨r, h1, _, h3⟩ := translated_eq_core g nl pyNone leR s consts st false hov hwf hnd first rest hne hc
  obtain ⟨r', h1', h2'⟩ := c02_slot (fun loc => g (mkKws s.fnArgs consts loc)) nl s st rows hr hov hwf first rest hne idx p hp
  rw [h1] at h1'; cases h1'
  refine ⟨_, r.nested, by simpa using h3, ?_, h2'⟩
  have : s.locs = rows.flatMap (fun cp => (product s.comboVals).map (cp ++ ·)) := by simp [Sweep.locs, hr]
  rw [← this]
  apply List.Perm.map
  cases st with
  | seq => exact List.Perm.refl _
  | executor π => exact List.Perm.refl _
  | shuffled σ => exact applyPerm_perm σ s.locs [] hwf
  | shuffledExecutor σ π => exact applyPerm_perm σ s.locs [] hwf.1

/-! Non-vacuity: the 2×3 grid of `Props/C01.lean` under its shuffle, the sparse cases of `Props/C02.lean`. -/
example : (translated (β := Nat) (fun kws => (kws.map Prod.snd).foldl (fun a x => 10 * a + x) 0) id 0 (fun _ _ => true)
    exSweep [] .seq true).toOption.map (·.2)
      = some (.flat [0, 1, 2, 10, 11, 12]) := by rfl
example : ∀ vs ∈ exSweep.comboVals, vs.Nodup := by decide
example : exCases.locs = [2, 0, 0] :: [[2, 0, 1], [0, 1, 0], [0, 1, 1]] ∧ exCases.coords ≠ [] := by decide
example : (Gen.unflatten [([0], Nest.leaf 7), ([2], .leaf 9)] [[0, 1, 2]] (.leaf 0)).toOption.bind (Nest.get [1])
    = some (.leaf 0) := by rfl

end CoreRefine
