import XyzProofs.Refine.Progress
/-!
# `Crop.__init__` / `load_crops`: when are the settings read from disk

`Gen.initAutoload autoload isPrepared` is the test under which `Crop.__init__` calls `_sync_info_from_disk()`, translated on
every run (harness/anchors_checkbad.py; the extractor also checks that the constructor reads nothing else from the crop
directory — the function is loaded on demand); `Gen.initAutoloadDefault` is the default of the `autoload` parameter;
`Gen.loadCropsAutoloads` says that `load_crops` makes every crop it finds by `Crop(name=…)` with `autoload` left alone.
The model's `Crop.opNew` (a new handle syncs from the info file if there is one) is this test at the default.
-/
set_option linter.unusedSimpArgs false
namespace Refine
open Crop

variable {β : Type}

/-- the settings are read exactly when `autoload` is on and the crop has been written to disk -/
theorem initAutoload_spec (autoload isPrepared : Bool) : Gen.initAutoload autoload isPrepared = (autoload && isPrepared) := by
  cases autoload <;> cases isPrepared <;> simp [Gen.initAutoload, Gen.Default.initAutoload]

/-- **`Crop(...)` as the model makes it is the translated constructor at the default `autoload`**: the new handle takes the
batch settings of the info file iff the crop is prepared, else keeps what it was given -/
theorem opNew_refines (s : St β) (bs nb : Option Nat) (sh : Nat) :
    opNew s bs nb sh =
      if Gen.initAutoload Gen.initAutoloadDefault (qInfoExists s) then
        syncFromDisk { s with obj := { bs := bs, nb := nb, rem := none, shuffle := sh } }
      else { s with obj := { bs := bs, nb := nb, rem := none, shuffle := sh } } := by
  rcases s with ⟨o, _ | ⟨_ | info, bsl, rs⟩⟩ <;>
    simp [opNew, syncFromDisk, qInfoExists, Gen.initAutoload, Gen.Default.initAutoload, Gen.initAutoloadDefault,
      Gen.Default.initAutoloadDefault]

/-- `load_crops` makes its crops the same way (by name, autoload on) -/
theorem loadCrops_autoloads : Gen.loadCropsAutoloads = true := by
  simp [Gen.loadCropsAutoloads, Gen.Default.loadCropsAutoloads]

/-! Non-vacuity: a handle asking for batch size 5 on a crop sown with batch size 2 reports 2; with no crop it keeps 5. -/
example : (opNew ({ dir := some { info := some { bs := 2, nb := 3, rem := 0, shuffle := 0, sweep := {} } } } : St Nat)
    (some 5) none 0).obj.bs = some 2 := by
  rw [opNew_refines]; simp [qInfoExists, initAutoload_spec, Gen.initAutoloadDefault, Gen.Default.initAutoloadDefault, syncFromDisk]
example : (opNew ({} : St Nat) (some 5) none 0).obj.bs = some 5 := by
  rw [opNew_refines]; simp [qInfoExists, initAutoload_spec, Gen.initAutoloadDefault, Gen.Default.initAutoloadDefault, syncFromDisk]

end Refine
