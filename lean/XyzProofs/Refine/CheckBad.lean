import XyzProofs.Props.C08
/-!
# `Crop.check_bad`: the hand-written model IS the translated source (state skeleton with a loop)

`Gen.checkBadSk` is the body of `Crop.check_bad(delete_bad)` translated on every run (harness/anchors_checkbad.py) to a
function over an abstract state and a record of operations `o : Gen.CbOps S E` — list the numbers of the files matching
a glob, read a file and take the length of what it holds, remove a file — with the `for` loop as `Gen.cbLoop`.

* `checkBadSk_eq_spec` — for ARBITRARY operations the translated body is `checkBadSpec`: for each listed RESULT file `i`,
  in listing order: read batch file `i` (an error ends the call); try to read result file `i`; the result is bad iff it
  could not be read or its length differs from the batch's; a bad one is removed (only with `delete_bad`) and reported.
* `cb_removed_are_bad` — for arbitrary operations: every file the call (tries to) remove is a result file `i` of the
  listing that was, in the state at that moment, unreadable or of another length than its batch — never a good result,
  never a batch file, never anything else.  `cb_no_delete_no_change`: with `delete_bad=False` nothing is removed.
  `cb_reported_listed`: only listed numbers are reported.
* `checkBadSk_refines` — at the model's directory (`cbOps`) the translated body is `Crop.checkBad`; `c08_check_bad_sk`
  restates `c08_check_bad` for the translated body.
-/
set_option linter.unusedSimpArgs false
set_option linter.unusedVariables false
namespace CheckBadSk
open Gen

variable {S E : Type}

/-! ## the specification, for arbitrary operations -/

/-- is the result of batch `i` (whose batch holds `lb` entries) bad in state `s`: unreadable, or of another length -/
def cbResultBad (o : CbOps S E) (s : S) (i : Nat) (lb : Int) : Bool :=
  match o.readLen s (.result i) with
  | .ok lr => decide (lr ≠ lb)
  | .error _ => true

/-- is result `i` bad in state `s`: its batch can be read, and the result cannot, or has another length -/
def cbIsBad (o : CbOps S E) (s : S) (i : Nat) : Bool :=
  match o.readLen s (.batch i) with
  | .error _ => false
  | .ok lb => cbResultBad o s i lb

/-- one turn of the loop -/
def cbBody (o : CbOps S E) (deleteBad : Bool) (i : Nat) (st : S) (bad : List Nat) : (S × List Nat) × Option E :=
  match o.readLen st (.batch i) with
  | .error e => ((st, []), some e)
  | .ok lb =>
    if cbResultBad o st i lb then
      (if deleteBad then cbBind (o.remove st (.result i)) [] (fun st => ((st, bad ++ [i]), none))
       else ((st, bad ++ [i]), none))
    else ((st, bad), none)

def checkBadSpec (o : CbOps S E) (deleteBad : Bool) (st : S) : (S × List Nat) × Option E :=
  cbLoop (cbBody o deleteBad) (o.list st .results) st []

/-- **the translated body of `check_bad` is `checkBadSpec`**, whatever the operations do -/
theorem checkBadSk_eq_spec (o : CbOps S E) (deleteBad : Bool) (st : S) :
    Gen.checkBadSk o deleteBad st = checkBadSpec o deleteBad st := by
  simp only [Gen.checkBadSk, Gen.Default.checkBadSk, checkBadSpec]
  congr 1
  funext i st bad
  simp only [cbBody, cbResultBad]
  split
  · rename_i h; rw [h]
  · rename_i h; rw [h]
    obtain ⟨r, hr⟩ : ∃ r, o.readLen st (.result i) = r := ⟨_, rfl⟩
    cases r <;> cases deleteBad <;> simp [hr] <;> (try grind)

/-! ## loop invariants -/

theorem cbLoop_inv {A : Type} (body : Nat → S → A → (S × A) × Option E) (P : S → A → Prop) (l : List Nat)
    (hbody : ∀ i ∈ l, ∀ s a, P s a → P (body i s a).1.1 (body i s a).1.2) :
    ∀ s a, P s a → P (cbLoop body l s a).1.1 (cbLoop body l s a).1.2 := by
  induction l with
  | nil => intro s a h; exact h
  | cons i is ih =>
    intro s a h
    have hb := hbody i (by simp) s a h
    have ih' := ih (fun j hj => hbody j (by simp [hj]))
    unfold cbLoop
    rcases hr : body i s a with ⟨⟨s', a'⟩, _ | e⟩
    · rw [hr] at hb; exact ih' s' a' hb
    · rw [hr] at hb; exact hb

/-- the operations with a log of every removal attempted: which file, in which state -/
def logOps (o : CbOps S E) : CbOps (S × List (CbFile × S)) E where
  list := fun s k => o.list s.1 k
  readLen := fun s f => o.readLen s.1 f
  remove := fun s f => (((o.remove s.1 f).1, s.2 ++ [(f, s.1)]), (o.remove s.1 f).2)

/-- **`check_bad` removes only bad results**: every removal the translated body attempts, whatever the operations do and
wherever one fails, is of a result file `i` that the listing named and that was bad in the state at that moment
(unreadable, or of another length than batch `i`, which could be read) — never a good result, never a batch file -/
theorem cb_removed_are_bad (o : CbOps S E) (deleteBad : Bool) (st : S) :
    ∀ x ∈ (Gen.checkBadSk (logOps o) deleteBad (st, [])).1.1.2,
      ∃ i ∈ o.list st .results, x.1 = .result i ∧ cbIsBad o x.2 i = true := by
  rw [checkBadSk_eq_spec]
  unfold checkBadSpec
  have hl : (logOps o).list (st, []) .results = o.list st .results := rfl
  rw [hl]
  refine cbLoop_inv (cbBody (logOps o) deleteBad)
    (fun s _ => ∀ x ∈ s.2, ∃ i ∈ o.list st .results, x.1 = .result i ∧ cbIsBad o x.2 i = true) _ ?_ (st, []) [] (by simp)
  intro i hi s a hP
  simp only [cbBody]
  rcases h1 : (logOps o).readLen s (.batch i) with e1 | lb <;> simp only []
  · exact hP
  · have h1' : o.readLen s.1 (.batch i) = .ok lb := h1
    have hbad : cbResultBad (logOps o) s i lb = cbIsBad o s.1 i := by
      simp [cbIsBad, h1', cbResultBad, logOps]
    rw [hbad]
    by_cases hb : cbIsBad o s.1 i = true
    · cases deleteBad
      · simpa [hb] using hP
      · simp only [hb, if_true]
        have hrm : (logOps o).remove s (.result i) = (((o.remove s.1 (.result i)).1, s.2 ++ [(.result i, s.1)]), (o.remove s.1 (.result i)).2) := rfl
        rw [hrm]
        rcases hr : (o.remove s.1 (.result i)).2 with _ | e <;>
          (simp only [cbBind]
           intro x hx
           rcases List.mem_append.mp hx with hx | hx
           · exact hP x hx
           · simp only [List.mem_singleton] at hx
             subst hx
             exact ⟨i, hi, rfl, hb⟩)
    · have hb' : cbIsBad o s.1 i = false := by simpa using hb
      simpa [hb'] using hP

/-- with `delete_bad=False` nothing is removed -/
theorem cb_no_delete_no_change (o : CbOps S E) (st : S) :
    (Gen.checkBadSk (logOps o) false (st, [])).1.1.2 = [] := by
  rw [checkBadSk_eq_spec]
  unfold checkBadSpec
  refine cbLoop_inv (cbBody (logOps o) false) (fun s _ => s.2 = []) _ ?_ (st, []) [] rfl
  intro i _ s a hP
  simp only [cbBody]
  rcases (logOps o).readLen s (.batch i) with e1 | lb <;> simp only []
  · exact hP
  · split <;> simpa using hP

/-- only numbers the listing named are reported -/
theorem cb_reported_listed (o : CbOps S E) (deleteBad : Bool) (st : S) :
    ∀ i ∈ (Gen.checkBadSk o deleteBad st).1.2, i ∈ o.list st .results := by
  rw [checkBadSk_eq_spec]
  unfold checkBadSpec
  refine cbLoop_inv (cbBody o deleteBad) (fun _ bad => ∀ i ∈ bad, i ∈ o.list st .results) _ ?_ st [] (by simp)
  intro i hi s a hP
  simp only [cbBody]
  rcases o.readLen s (.batch i) with e1 | lb <;> simp only []
  · simp
  · split
    · cases deleteBad
      · simp only [Bool.false_eq_true, if_false]
        intro j hj
        rcases List.mem_append.mp hj with hj | hj
        · exact hP j hj
        · simp only [List.mem_singleton] at hj; subst hj; exact hi
      · simp only [if_true]
        rcases o.remove s (.result i) with ⟨s', _ | e⟩ <;> simp only [cbBind]
        · intro j hj
          rcases List.mem_append.mp hj with hj | hj
          · exact hP j hj
          · simp only [List.mem_singleton] at hj; subst hj; exact hi
        · simp
    · exact hP

end CheckBadSk

/-! ## the model's directory as an instance -/
namespace Crop
open Gen CheckBadSk

variable {β : Type}

/-- the operations of `Gen.CbOps` on the model's directory: a listing is the key list of the files of that kind; reading
gives the length of the stored list (a missing file, or an unreadable result, raises); removing erases the entry -/
def cbOps : CbOps (Dir β) Err where
  list := fun d k => match k with
    | .results => keys d.results
    | .batches => keys d.batches
    | .other => []
  readLen := fun d f => match f with
    | .batch i => (match lookup d.batches i with
        | some b => .ok (b.length : Int)
        | none => .error .missingFile)
    | .result i => (match lookup d.results i with
        | some (.good rs) => .ok (rs.length : Int)
        | some .bad => .error .badFile
        | none => .error .missingFile)
    | .other => .error .missingFile
  remove := fun d f => match f with
    | .result i => if (lookup d.results i).isSome then ({ d with results := erase d.results i }, none) else (d, some .missingFile)
    | .batch i => if (lookup d.batches i).isSome then ({ d with batches := erase d.batches i }, none) else (d, some .missingFile)
    | .other => (d, some .missingFile)

theorem foldl_checkBadStep_error (d : Dir β) (l : List (Nat × ResFile β)) (e : Err) :
    l.foldl (checkBadStep d) (.error e) = .error e := by
  induction l with
  | nil => rfl
  | cons kv l ih => simpa [List.foldl_cons, checkBadStep] using ih

/-- the loop of the translated body on the model's directory is the model's fold, from any point of the listing on -/
theorem cbLoop_refines (d : Dir β) (l R : List (Nat × ResFile β)) (bad0 : List Nat)
    (hnd : (keys l).Nodup) (hR : ∀ kv ∈ l, lookup R kv.1 = some kv.2) :
    match l.foldl (checkBadStep d) (.ok ({ d with results := R }, bad0)) with
    | .ok (d', bad) => cbLoop (cbBody cbOps true) (keys l) { d with results := R } bad0 = ((d', bad), none)
    | .error e => (cbLoop (cbBody cbOps true) (keys l) { d with results := R } bad0).2 = some e := by
  induction l generalizing R bad0 with
  | nil => simp [keys, cbLoop]
  | cons kv l ih =>
    have hkv := hR kv (by simp)
    have hnd' : (keys l).Nodup := by
      simp only [keys, List.map_cons, List.nodup_cons] at hnd; exact hnd.2
    have hne : ∀ kv' ∈ l, kv'.1 ≠ kv.1 := by
      intro kv' hkv' heq
      simp only [keys, List.map_cons, List.nodup_cons, List.mem_map, not_exists, not_and] at hnd
      exact hnd.1 kv' hkv' heq
    have hR' : ∀ kv' ∈ l, lookup R kv'.1 = some kv'.2 := fun x hx => hR x (by simp [hx])
    have hRe : ∀ kv' ∈ l, lookup (erase R kv.1) kv'.1 = some kv'.2 := by
      intro kv' hkv'
      rw [lookup_erase_ne _ _ _ (hne kv' hkv')]
      exact hR' kv' hkv'
    simp only [List.foldl_cons, keys, List.map_cons]
    unfold cbLoop
    cases hb : lookup d.batches kv.1 with
    | none =>
      have hstep : checkBadStep d (.ok ({ d with results := R }, bad0)) kv = .error .missingFile := by
        simp [checkBadStep, hb]
      rw [hstep, foldl_checkBadStep_error]
      simp [cbBody, cbOps, hb]
    | some b =>
      rcases kv with ⟨k, rs | _⟩
      rotate_left
      · -- an unreadable result
        have hstep : checkBadStep d (.ok ({ d with results := R }, bad0)) (k, .bad) =
            .ok ({ d with results := erase R k }, bad0 ++ [k]) := by
          simp [checkBadStep, hb]
        have hbody : cbBody cbOps true k { d with results := R } bad0 = (({ d with results := erase R k }, bad0 ++ [k]), none) := by
          simp only at hkv hb
          simp [cbBody, cbResultBad, cbOps, hb, hkv]
        rw [hstep, hbody]
        exact ih (erase R k) (bad0 ++ [k]) hnd' hRe
      · by_cases hlen : rs.length = b.length
        · have hstep : checkBadStep d (.ok ({ d with results := R }, bad0)) (k, .good rs) =
              .ok ({ d with results := R }, bad0) := by
            simp [checkBadStep, hb, hlen]
          have hbody : cbBody cbOps true k { d with results := R } bad0 = (({ d with results := R }, bad0), none) := by
            simp only at hkv hb
            simp [cbBody, cbResultBad, cbOps, hb, hkv, hlen]
          rw [hstep, hbody]
          exact ih R bad0 hnd' hR'
        · have hstep : checkBadStep d (.ok ({ d with results := R }, bad0)) (k, .good rs) =
              .ok ({ d with results := erase R k }, bad0 ++ [k]) := by
            simp [checkBadStep, hb, hlen]
          have hlen' : ¬ ((rs.length : Int) = (b.length : Int)) := by omega
          have hbody : cbBody cbOps true k { d with results := R } bad0 = (({ d with results := erase R k }, bad0 ++ [k]), none) := by
            simp only at hkv hb
            simp [cbBody, cbResultBad, cbOps, hb, hkv, hlen']
          rw [hstep, hbody]
          exact ih (erase R k) (bad0 ++ [k]) hnd' hRe

theorem lookup_of_mem_nodup {γ} (l : List (Nat × γ)) (hnd : (keys l).Nodup) : ∀ kv ∈ l, lookup l kv.1 = some kv.2 := by
  intro kv hkv
  cases h : lookup l kv.1 with
  | none =>
    have : kv.1 ∈ keys l := List.mem_map.mpr ⟨kv, hkv, rfl⟩
    rw [mem_keys_iff, h] at this
    cases this
  | some v =>
    unfold lookup at h
    cases hf : l.find? (·.1 == kv.1) with
    | none => simp [hf] at h
    | some y =>
      simp only [hf, Option.map_some, Option.some.injEq] at h
      have hy := List.mem_of_find?_eq_some hf
      have hk : y.1 = kv.1 := by simpa using List.find?_some hf
      have := eq_of_key_eq l hnd y kv hy hkv hk
      subst this
      rw [← h]

/-- **`Crop.check_bad()` as translated, at the model's directory, is `Crop.checkBad`** (result files listed once each):
the same directory afterwards, the same ids reported in the same order, the same error -/
theorem checkBadSk_refines (d : Dir β) (hnd : (keys d.results).Nodup) :
    match checkBad d with
    | .ok (d', bad) => Gen.checkBadSk cbOps true d = ((d', bad), none)
    | .error e => (Gen.checkBadSk cbOps true d).2 = some e := by
  rw [checkBadSk_eq_spec, checkBad_eq_fold]
  have h := cbLoop_refines d d.results d.results [] hnd (lookup_of_mem_nodup d.results hnd)
  exact h

/-- **`c08_check_bad` for the translated body**: on a well-formed directory the translated `check_bad` never fails,
reports exactly the ids whose stored result is unreadable or of the wrong length (in listing order), removes exactly
those result files, leaves every batch file and the crop information alone, and keeps the directory well formed -/
theorem c08_check_bad_sk (d : Dir β) (B : Nat) (hwf : WF d B) :
    ∃ d' bad, Gen.checkBadSk cbOps true d = ((d', bad), none) ∧
      bad = keys (d.results.filter (badEntry d.batches)) ∧
      d'.results = d.results.filter (fun kv => !badEntry d.batches kv) ∧
      d'.batches = d.batches ∧ d'.info = d.info ∧ WF d' B := by
  obtain ⟨d', bad, hcb, h1, h2, h3, h4, h5⟩ := c08_check_bad d B hwf
  have h := checkBadSk_refines d hwf.rnodup
  rw [hcb] at h
  exact ⟨d', bad, h, h1, h2, h3, h4, h5⟩

/-! Non-vacuity: batch 1's result is short, batch 3's unreadable, batch 2's fine (the example of `c08_check_bad`). -/
def exDir : Dir Nat :=
  { batches := [(1, [[0], [1]]), (2, [[2], [3]]), (3, [[4]])], results := [(1, .good [7]), (3, .bad), (2, .good [8, 9])] }
example : Gen.checkBadSk cbOps true exDir
    = (({ exDir with results := [(2, .good [8, 9])] }, [1, 3]), none) :=
  checkBadSk_refines exDir (by decide)

/-- …and the removals attempted on it are exactly result files 1 and 3 -/
example : (Gen.checkBadSk (CheckBadSk.logOps cbOps) true (exDir, [])).1.1.2.map (·.1) = [.result 1, .result 3] := by
  decide

end Crop
