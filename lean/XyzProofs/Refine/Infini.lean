import XyzProofs.Lemmas.Infini
/-!
# infiniplot: the hand-written model (`XyzModel/Infini.lean`) equals the functions translated from the source (C18)

* `Gen.infInitMapped` (the body of `Infiniplotter.init_mapped_dim`, a state skeleton over `Gen.MapOps`) is instantiated
  on the model's state extended by the records the method keeps (`domains`, `sizes`, `values`): at that instance it
  computes exactly `Infini.initMappedDim`, and the domain / size / number of style values it records are those of the
  coordinates that SURVIVE `dropna` (`infInitMapped_spec`).
* `Gen.infIter` / `Gen.infRanges` (the product iterated by `plot_lines`) enumerate `Final.choices`.
* `Gen.infLineIdx` (what one iteration reads from `loc`) gives the model's panel and style indices.
* `Gen.infHistCall` (what is handed to `np.histogram`) is the model's `histY`.
-/
namespace Infini
open List PlotPrep

/-! ### init_mapped_dim -/

/-- the model's state together with what `init_mapped_dim` records on the plotter -/
structure PState where
  st : State
  /-- `self.domains[prop]`: the entries of the mapped dimension when the domain was read -/
  domains : List (String × List (List Nat)) := []
  /-- `self.sizes[prop]` -/
  sizes : List (String × Nat) := []
  /-- the argument `default_values` was called with -/
  ndefaults : Option Nat := none
  /-- number of style values in `self.values[prop]` (default values only) -/
  nvals : List (String × Nat) := []
  /-- properties given as constants (`self.base_style`) -/
  consts : List String := []
  /-- `setattr(self, prop, …)` -/
  attrs : List (String × Option String) := []
deriving Repr

abbrev dimName (m : Mapping) : String := ", ".intercalate m.dims

/-- `d[k]` of a dict built by successive item assignments -/
def lookupLast {α : Type} (l : List (String × α)) (k : String) : Option α := (l.reverse.find? (·.1 == k)).map (·.2)

theorem lookupLast_append_self {α : Type} (l : List (String × α)) (k : String) (v : α) :
    lookupLast (l ++ [(k, v)]) k = some v := by
  simp [lookupLast]

/-- the meaning of the operations of `init_mapped_dim` on the model, for property `prop` mapped as `m`
(`custom`: explicit style values were passed) -/
def mapOps (prop : String) (m : Mapping) (custom : Bool) : Gen.MapOps PState where
  isFused := decide (m.dims.length > 1)
  dimIsNone := fun _ => false
  hasDim := fun s d => match d with
    | .fused => (s.st.md? (dimName m)).isSome
    | .raw => !decide (m.dims.length > 1) && (s.st.md? (dimName m)).isSome
  hasParts := fun s => m.dims.all fun d => (s.st.md? d).isSome
  orderGiven := m.order.isSome
  heatInvalid := false
  customGiven := custom
  defaultGiven := true
  defaultCallable := true
  stack := fun s => { s with st := fuse s.st m.dims }
  sel := fun s _ => { s with st := match m.order, s.st.md? (dimName m) with
    | some o, some md => s.st.setEntries (dimName m) fun _ => applyOrder s.st.ds md o
    | _, _ => s.st }
  markMapped := fun s _ => { s with st := { s.st with propDim := s.st.propDim ++ [(prop, dimName m)] } }
  dropna := fun s _ => { s with st := match s.st.md? (dimName m) with
    | some md => s.st.setEntries (dimName m) fun es => es.filter (hasData s.st md)
    | none => s.st }
  recordDomain := fun s _ => { s with domains := s.domains ++ [(prop, ((s.st.md? (dimName m)).map (·.entries)).getD [])] }
  sizeFromDomain := fun s => { s with sizes := s.sizes ++ [(prop, ((lookupLast s.domains prop).getD []).length)] }
  sizeOne := fun s => { s with sizes := s.sizes ++ [(prop, 1)] }
  evalDefaults := fun s => { s with ndefaults := lookupLast s.sizes prop }
  valuesDefault := fun s => { s with nvals := s.nvals ++ [(prop, min (s.ndefaults.getD 0) ((lookupLast s.sizes prop).getD 0))] }
  valuesCustom := fun s => s
  setConstant := fun s _ => { s with consts := s.consts ++ [prop] }
  setAttr := fun s d => { s with attrs := s.attrs ++ [(prop, d.map fun _ => dimName m)] }

/-- the mapping names dimensions of the working dataset: one present dimension, or several present dimensions that
are not fused yet (whose fusion then exists) -/
def Valid (st : State) (m : Mapping) : Prop :=
  if m.dims.length > 1 then
    (st.md? (dimName m)).isSome = false ∧ (m.dims.all fun d => (st.md? d).isSome) = true ∧
      ((fuse st m.dims).md? (dimName m)).isSome = true
  else (st.md? (dimName m)).isSome = true

/-- what `init_mapped_dim` must leave behind: the model's state, and domain / size / number of values of the
coordinates that survived -/
def expected (prop : String) (m : Mapping) (custom : Bool) (ps : PState) : PState :=
  let st' := initMappedDim ps.st prop m
  let es := ((st'.md? (dimName m)).map (·.entries)).getD []
  { st := st', domains := ps.domains ++ [(prop, es)], sizes := ps.sizes ++ [(prop, es.length)],
    ndefaults := if custom then ps.ndefaults else some es.length,
    nvals := if custom then ps.nvals else ps.nvals ++ [(prop, es.length)],
    consts := ps.consts, attrs := ps.attrs ++ [(prop, some (dimName m))] }

theorem md?_propDim (st : State) (pd : List (String × String)) (n : String) :
    ({ st with propDim := pd } : State).md? n = st.md? n := rfl

theorem setEntries_propDim (st : State) (pd : List (String × String)) (n : String) (f) :
    ({ st with propDim := pd } : State).setEntries n f = { st.setEntries n f with propDim := pd } := rfl

theorem hasData_propDim (st : State) (pd : List (String × String)) (md : MDim) :
    hasData ({ st with propDim := pd } : State) md = hasData st md := rfl

/-- **`init_mapped_dim` = the model**: the translated body, at the model's operations, computes the model's
`initMappedDim`, and records as domain / size / number of default style values those of the coordinates that are left
after the explicit order and the removal of the all-NaN coordinates -/
theorem infInitMapped_spec (prop : String) (m : Mapping) (custom : Bool) (ps : PState) (hv : Valid ps.st m) :
    Gen.infInitMapped (mapOps prop m custom) ps = .ok (expected prop m custom ps) := by
  unfold Valid at hv
  simp only [dimName] at hv ⊢
  have c1 : (mapOps prop m custom).isFused = decide (m.dims.length > 1) := rfl
  have c2 : ∀ d, (mapOps prop m custom).dimIsNone d = false := fun _ => rfl
  have c3 : (mapOps prop m custom).heatInvalid = false := rfl
  have c4 : (mapOps prop m custom).customGiven = custom := rfl
  have c5 : (mapOps prop m custom).defaultGiven = true := rfl
  have c6 : (mapOps prop m custom).defaultCallable = true := rfl
  have c7 : ∀ s, (mapOps prop m custom).hasDim s .fused = (s.st.md? (dimName m)).isSome := fun _ => rfl
  have c8 : ∀ s, (mapOps prop m custom).hasDim s .raw =
      (!decide (m.dims.length > 1) && (s.st.md? (dimName m)).isSome) := fun _ => rfl
  have c9 : ∀ s, (mapOps prop m custom).hasParts s = m.dims.all fun d => (s.st.md? d).isSome := fun _ => rfl
  have c10 : ∀ s, ((mapOps prop m custom).stack s).st = fuse s.st m.dims := fun _ => rfl
  by_cases hl : m.dims.length > 1
  · simp only [hl, if_true] at hv
    obtain ⟨h1, h2, h3⟩ := hv
    simp only [Gen.infInitMapped, Gen.Default.infInitMapped, c1, c2, c3, c4, c5, c6, c7, c8, c9, c10, hl, h1, h2, h3,
      decide_true, if_true, Bool.not_false, Bool.not_true, Bool.and_false, Bool.false_eq_true, if_false, Bool.and_true,
      Bool.true_and]
    obtain ⟨st, domains, sizes, ndefaults, nvals, consts, attrs⟩ := ps
    simp only [mapOps, expected, initMappedDim, dimName, hl, if_true, md?_propDim, setEntries_propDim, hasData_propDim,
      lookupLast_append_self]
    generalize fuse st m.dims = st1 at h3 ⊢
    obtain ⟨md, hmd⟩ := Option.isSome_iff_exists.mp h3
    cases ho : m.order with
    | none => cases custom <;> simp only [hmd, lookupLast_append_self, md?_propDim, setEntries_propDim, hasData_propDim, Option.isSome_some, Option.isSome_none, if_true, if_false, Bool.false_eq_true, Bool.not_true, Bool.not_false, Option.getD_some, Option.map_some, Nat.min_self] <;> rfl
    | some o =>
      cases custom <;> simp only [hmd, lookupLast_append_self, md?_propDim, setEntries_propDim, hasData_propDim, Option.isSome_some, Option.isSome_none, if_true, if_false, Bool.false_eq_true, Bool.not_true, Bool.not_false, Option.getD_some, Option.map_some, Nat.min_self] <;>
      (generalize (State.setEntries st1 (", ".intercalate m.dims) fun _ => applyOrder (State.ds st1) md o) = st2
       cases hq : st2.md? (", ".intercalate m.dims) <;> simp only [hq, md?_propDim] <;> try rfl)
  · simp only [hl, if_false] at hv
    simp only [Gen.infInitMapped, Gen.Default.infInitMapped, c1, c2, c3, c4, c5, c6, c7, c8, c9, c10, hl, hv,
      decide_false, if_true, Bool.not_false, Bool.not_true, Bool.and_false, Bool.false_eq_true, if_false, Bool.and_true,
      Bool.true_and]
    obtain ⟨st, domains, sizes, ndefaults, nvals, consts, attrs⟩ := ps
    simp only [mapOps, expected, initMappedDim, dimName, hl, if_false, md?_propDim, setEntries_propDim, hasData_propDim,
      lookupLast_append_self]
    obtain ⟨md, hmd⟩ := Option.isSome_iff_exists.mp hv
    cases ho : m.order with
    | none => cases custom <;> simp only [hmd, lookupLast_append_self, md?_propDim, setEntries_propDim, hasData_propDim, Option.isSome_some, Option.isSome_none, if_true, if_false, Bool.false_eq_true, Bool.not_true, Bool.not_false, Option.getD_some, Option.map_some, Nat.min_self] <;> rfl
    | some o =>
      cases custom <;> simp only [hmd, lookupLast_append_self, md?_propDim, setEntries_propDim, hasData_propDim, Option.isSome_some, Option.isSome_none, if_true, if_false, Bool.false_eq_true, Bool.not_true, Bool.not_false, Option.getD_some, Option.map_some, Nat.min_self] <;>
      (generalize (State.setEntries st (", ".intercalate m.dims) fun _ => applyOrder (State.ds st) md o) = st2
       cases hq : st2.md? (", ".intercalate m.dims) <;> simp only [hq, md?_propDim] <;> try rfl)

/-- the model's `initMappedDim` is the state the translated `init_mapped_dim` reaches -/
theorem initMappedDim_refines (prop : String) (m : Mapping) (custom : Bool) (ps : PState) (hv : Valid ps.st m) :
    (Gen.infInitMapped (mapOps prop m custom) ps).map (·.st) = .ok (initMappedDim ps.st prop m) := by
  rw [infInitMapped_spec prop m custom ps hv]; rfl

/-! ### the loop of plot_lines -/

theorem prod_eq_pyProduct (ns : List Nat) : PlotPrep.prod ns = Gen.pyProduct (ns.map List.range) := by
  induction ns with
  | nil => rfl
  | cons n rest ih => simp only [PlotPrep.prod, Gen.pyProduct, map_cons, ih]

/-- the product iterated by `plot_lines` enumerates the model's choices, in the same order -/
theorem choices_refines (f : Final) :
    f.choices = Gen.infIter (Gen.infRanges (f.remaining.map (·.entries.length))) := by
  simp only [Gen.infIter, Gen.Default.infIter, Gen.infRanges, Gen.Default.infRanges, Final.choices, choicesOf,
    prod_eq_pyProduct]

/-- `self.<prop>` after initialisation: the name of the dimension mapped to the property -/
def Final.attr (f : Final) (p : String) : Option String := (f.st.propDim.find? (·.1 == p)).map (·.2)

/-- `self.remaining_dims` -/
def Final.remNames (f : Final) : List String := f.remaining.map (·.name)

theorem locGet_zip (mds : List MDim) (ch : List Nat) (n : String) :
    Gen.locGet ((mds.map (·.name)).zip ch) (some n) = ((posOf n mds).map fun p => ch.getD p 0).getD 0 := by
  induction mds generalizing ch with
  | nil => simp [Gen.locGet, posOf]
  | cons md rest ih =>
    cases ch with
    | nil =>
      simp only [Gen.locGet, map_cons, zip_nil_right, find?_nil, Option.map_none, Option.getD_none]
      cases posOf n (md :: rest) <;> simp
    | cons c cs =>
      have ih' := ih cs
      simp only [Gen.locGet] at ih' ⊢
      simp only [map_cons, zip_cons_cons, find?_cons, posOf]
      by_cases h : md.name == n
      · simp [h]
      · simp only [h, Bool.false_eq_true, if_false, ih']
        cases posOf n rest <;> simp

/-- `loc[self.<prop>]` is the model's index of the property (0 when the property is not mapped) -/
theorem propIdx_eq_locGet (f : Final) (p : String) (ch : List Nat) :
    (f.propIdx p ch).getD 0 = Gen.locGet (f.remNames.zip ch) (f.attr p) := by
  unfold Final.propIdx Final.propPos Final.attr Final.remNames
  cases h : (f.st.propDim.find? (·.1 == p)).map (·.2) with
  | none => simp [Gen.locGet]
  | some n => simp only [locGet_zip]

/-- the look-up of property `p` among the recorded (property, index) pairs -/
def idxOf (l : List (String × Nat)) (p : String) : Option Nat := (l.find? (·.1 == p)).map (·.2)

theorem idxOf_ite_append (c : Bool) (k : String) (v : Nat) (rest : List (String × Nat)) (p : String) :
    idxOf ((if c = true then [(k, v)] else []) ++ rest) p = if (c && k == p) = true then some v else idxOf rest p := by
  cases c
  · simp [idxOf]
  · by_cases h : k == p
    · simp [idxOf, find?_cons, h]
    · simp only [idxOf, if_true, cons_append, nil_append, find?_cons, h, Bool.and_false]; rfl

theorem idxOf_ite_single (c : Bool) (k : String) (v : Nat) (p : String) :
    idxOf (if c = true then [(k, v)] else []) p = if (c && k == p) = true then some v else none := by
  have := idxOf_ite_append c k v [] p
  simpa [idxOf] using this

theorem ite_isSome_map (a : Option String) (v : Nat) :
    (if a.isSome = true then some v else none) = a.map fun _ => v := by cases a <;> rfl

/-- **panel and selection of one iteration** (translated loop body): the axes are `[index of the row coordinate,
index of the column coordinate]` and `isel` receives the current coordinates of all iterated dimensions -/
theorem lineIdx_panel (f : Final) (ch : List Nat) :
    (Gen.infLineIdx f.remNames f.attr ch).i = (f.propIdx "row" ch).getD 0 ∧
    (Gen.infLineIdx f.remNames f.attr ch).j = (f.propIdx "col" ch).getD 0 ∧
    (Gen.infLineIdx f.remNames f.attr ch).isel = f.remNames.zip ch := by
  simp only [Gen.infLineIdx, Gen.Default.infLineIdx, propIdx_eq_locGet]
  refine ⟨?_, ?_, trivial⟩
  · cases f.attr "row" <;> simp [Gen.locGet]
  · cases f.attr "col" <;> simp [Gen.locGet]

/-- **style index of one iteration** (translated loop body): the index used into the style values of a mapped
property — and into its domain — is the coordinate index of the dimension mapped to it; an unmapped property uses none -/
theorem lineIdx_style (f : Final) (ch : List Nat) (p : String)
    (hp : p ∈ ["color", "marker", "markersize", "markeredgecolor", "linewidth", "linestyle"]) :
    idxOf (Gen.infLineIdx f.remNames f.attr ch).vals p = (f.attr p).map (fun _ => (f.propIdx p ch).getD 0) ∧
    idxOf (Gen.infLineIdx f.remNames f.attr ch).doms p = idxOf (Gen.infLineIdx f.remNames f.attr ch).vals p := by
  simp only [mem_cons, not_mem_nil, or_false] at hp
  rcases hp with rfl | rfl | rfl | rfl | rfl | rfl <;>
    simp only [Gen.infLineIdx, Gen.Default.infLineIdx, propIdx_eq_locGet, idxOf_ite_append, idxOf_ite_single,
      append_assoc] <;>
    (refine ⟨?_, ?_⟩ <;> first | trivial | simp [ite_isSome_map])

/-- the hue index is only read when a colour dimension is mapped as well -/
theorem lineIdx_hue (f : Final) (ch : List Nat) :
    idxOf (Gen.infLineIdx f.remNames f.attr ch).vals "hue" =
      (if (f.attr "color").isSome then (f.attr "hue").map (fun _ => (f.propIdx "hue" ch).getD 0) else none) ∧
    idxOf (Gen.infLineIdx f.remNames f.attr ch).doms "hue" = idxOf (Gen.infLineIdx f.remNames f.attr ch).vals "hue" := by
  simp only [Gen.infLineIdx, Gen.Default.infLineIdx, propIdx_eq_locGet, idxOf_ite_append, idxOf_ite_single,
    append_assoc]
  refine ⟨?_, ?_⟩ <;> first | trivial | (cases f.attr "color" <;> simp [ite_isSome_map])

/-- the model's index of a property is the index the translated loop body uses, whenever the dimension mapped to the
property is one of the iterated ones -/
theorem propIdx_refines (f : Final) (ch : List Nat) (p : String)
    (hp : p ∈ ["color", "marker", "markersize", "markeredgecolor", "linewidth", "linestyle"])
    (hrem : (f.propPos p).isSome = (f.attr p).isSome) :
    f.propIdx p ch = idxOf (Gen.infLineIdx f.remNames f.attr ch).vals p := by
  rw [(lineIdx_style f ch p hp).1]
  unfold Final.propIdx at *
  cases h1 : f.propPos p <;> cases h2 : f.attr p <;> simp_all

/-! ### histogram -/

def evalDensity : Gen.HistDensity → Bool → Bool
  | .flag, b => b
  | .notFlag, b => !b
  | .const c, _ => c

/-- the meaning of the re-binning call on the finite values of a slice (NaN samples fall in no bin): what
`np.histogram(…, bins=edges, density=…)[…]` returns -/
def histOf (c : Gen.HistCall) (flag : Bool) (edges vals : List Rat) : List YVal :=
  match c.kept with
  | .counts => histY (evalDensity c.density flag) edges vals
  | .edges => edges.map .dens

/-- the re-binning call of the source is the model's `histY`: counts, or counts / (total counted · width) exactly when
`bins_density` is set -/
theorem histCall_refines (flag : Bool) (edges vals : List Rat) :
    histOf Gen.infHistCall flag edges vals = histY flag edges vals := by
  simp only [Gen.infHistCall, Gen.Default.infHistCall, histOf, evalDensity]

/-! ### the calls in `__init__` -/

/-- the properties are initialised in the model's order (hue before colour, …, column before row) -/
theorem initOrder_refines : Gen.infInitCalls.map (·.1) = PROPS := by
  simp only [Gen.infInitCalls, Gen.Default.infInitCalls]; decide

/-- the model's initialisation of all mapped dimensions follows the translated sequence of calls -/
theorem initAll_refines (st : State) (maps : List (String × Mapping)) :
    initAll st maps = (Gen.infInitCalls.map (·.1)).foldl (fun st p => match lookupMap maps p with
      | some m => initMappedDim st p m
      | none => st) st := by
  rw [initOrder_refines]; rfl

/-- the kind of default style values `__init__` hands to `init_mapped_dim` for a property -/
def defaultOf (p : String) : Option Gen.StyleDefault := (Gen.infInitCalls.find? (·.1 == p)).map (·.2)

theorem styleDefaults_refines :
    defaultOf "marker" = some (.cycle "_MARKERS_DEFAULT") ∧ defaultOf "linestyle" = some (.cycle "_LINESTYLES_DEFAULT") ∧
    defaultOf "markersize" = some (.linspace 3 9) ∧ defaultOf "linewidth" = some (.linspace 1 3) := by
  simp only [defaultOf, Gen.infInitCalls, Gen.Default.infInitCalls]; decide

end Infini
