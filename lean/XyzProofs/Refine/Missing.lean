import XyzModel.Missing
import XyzModel.Gen.Extracted
import XyzProofs.Props.C13
/-!
# C13 — the hand-written missing-data model IS the translated source

`Gen.isCaseMissing`, `Gen.findMissing`, `Gen.parseIntoCases` are the bodies of `is_case_missing`, `find_missing_cases`,
`parse_into_cases` (xyzpy/gen/case_runner.py), translated on every run over abstract dataset operations
`o : Gen.MissOps D M R V` (`harness/anchors_missing.py`).  Here:

* theorems for ARBITRARY operations (`isCaseMissing_keyError`, `isCaseMissing_unknown_method`, `isCaseMissing_all_vars`,
  `isCaseMissing_dataarray`, `findMissing_fnArgs`, `parseIntoCases_no_ds`);
* the model's instance `Missing.ops` (datasets) / `Missing.daOps` (a DataArray: `to_array` raises `AttributeError`) and the
  refinement theorems `isCaseMissing_refines`, `findMissing_refines`, `parseIntoCases_refines`;
* the C13 statements restated on the translated source (`c13_is_src`, `c13_find_src`, `c13_parse_src`).
-/
namespace Missing
open DS Gen

/-! ### folds in `Except` that never fail -/

theorem foldlM_append_ite {α β ε : Type} (p : α → Bool) (g : α → β) (l : List α) (acc : List β) :
    List.foldlM (m := Except ε) (fun acc x => if p x then .ok (acc ++ [g x]) else .ok acc) acc l
      = .ok (acc ++ (l.filter p).map g) := by
  induction l generalizing acc with
  | nil => simp [pure, Except.pure]
  | cons x t ih =>
    simp only [List.foldlM_cons, List.filter_cons]
    cases hp : p x
    · simp only [Bool.false_eq_true, if_false]
      exact ih acc
    · simp only [if_true, List.map_cons]
      have := ih (acc ++ [g x])
      simp only [List.append_assoc, List.singleton_append] at this
      exact this

theorem foldlM_append_all {α β ε : Type} (g : α → β) (l : List α) (acc : List β) :
    List.foldlM (m := Except ε) (fun acc x => .ok (acc ++ [g x])) acc l = .ok (acc ++ l.map g) := by
  induction l generalizing acc with
  | nil => simp [pure, Except.pure]
  | cons x t ih =>
    simp only [List.foldlM_cons, List.map_cons]
    have := ih (acc ++ [g x])
    simp only [List.append_assoc, List.singleton_append] at this
    exact this

theorem foldlM_append_flat {α β ε : Type} (F : α → List β) (l : List α) (acc : List β) :
    List.foldlM (m := Except ε) (fun acc x => .ok (acc ++ F x)) acc l = .ok (acc ++ l.flatMap F) := by
  induction l generalizing acc with
  | nil => simp [pure, Except.pure]
  | cons x t ih =>
    simp only [List.foldlM_cons, List.flatMap_cons]
    have := ih (acc ++ F x)
    simp only [List.append_assoc] at this
    exact this

/-! ### theorems about the translated `is_case_missing`, for arbitrary dataset operations -/

section Abstract
variable {D M R V : Type} (o : MissOps D M R V)

/-- a selection that raises `KeyError` means "missing", whatever the method (even an unknown one) -/
theorem isCaseMissing_keyError (ds : D) (s : List (String × V)) (method : String)
    (h : o.sel ds s = .error .keyError) : Gen.isCaseMissing o ds s method = .ok true := by
  simp only [Gen.isCaseMissing, Gen.Default.isCaseMissing, h]
  simp

/-- any other failure of the selection is handed on -/
theorem isCaseMissing_sel_error (ds : D) (s : List (String × V)) (method : String) (e : MErr)
    (h : o.sel ds s = .error e) (he : e ≠ .keyError) : Gen.isCaseMissing o ds s method = .error e := by
  simp only [Gen.isCaseMissing, Gen.Default.isCaseMissing, h]
  simp [he]

/-- an unknown method is a `ValueError` (once the selection went through) -/
theorem isCaseMissing_unknown_method (ds x : D) (s : List (String × V)) (method : String)
    (h : o.sel ds s = .ok x) (h1 : method ≠ "isnull") (h2 : method ≠ "isfinite") :
    Gen.isCaseMissing o ds s method = .error .valueError := by
  simp only [Gen.isCaseMissing, Gen.Default.isCaseMissing, h]
  simp [h1, h2]

/-- the null test of the method chosen -/
def maskOf (method : String) (x : D) : M := if method = "isnull" then o.isnull x else o.notFinite x

/-- **all data across all variables**: for a Dataset the answer is the conjunction, over the variables, of "this
variable is entirely null in the selection" -/
theorem isCaseMissing_all_vars (ds x : D) (s : List (String × V)) (method : String) (arr : List Bool)
    (h : o.sel ds s = .ok x) (hm : method = "isnull" ∨ method = "isfinite")
    (ha : o.toArray (o.allM (maskOf o method x)) = .ok arr) :
    Gen.isCaseMissing o ds s method = .ok (arr.all id) := by
  simp only [Gen.isCaseMissing, Gen.Default.isCaseMissing, h]
  rcases hm with rfl | rfl <;> simp_all [maskOf]

/-- for a DataArray (`to_array` raises `AttributeError`) the answer is the reduced array's own value -/
theorem isCaseMissing_dataarray (ds x : D) (s : List (String × V)) (method : String)
    (h : o.sel ds s = .ok x) (hm : method = "isnull" ∨ method = "isfinite")
    (ha : o.toArray (o.allM (maskOf o method x)) = .error .attributeError) :
    Gen.isCaseMissing o ds s method = .ok (o.item (o.allM (maskOf o method x))) := by
  simp only [Gen.isCaseMissing, Gen.Default.isCaseMissing, h]
  rcases hm with rfl | rfl <;> simp_all [maskOf]

end Abstract

/-! ### the model's instance of the operations -/

def methodStr : Method → String
  | .isnull => "isnull"
  | .isfinite => "isfinite"

/-- per variable, per stored (non-null) cell: does it count as null under the method?  (cells that are not stored are
null under both methods and do not change a conjunction) -/
def nullMask (m : Method) (d : Dataset) : List (List Bool) := d.vars.map fun e => e.2.cells.map fun c => !present m c.2

def ops : MissOps Dataset (List (List Bool)) (List Bool) Coord where
  sel d s := match d.sel s with | none => .error .keyError | some x => .ok x
  isnull := nullMask .isnull
  notFinite := nullMask .isfinite
  allM mk := mk.map fun l => l.all id
  toArray r := .ok r
  item r := r.all id
  dims d := d.coords.map (·.1)
  coordValues d k := d.coordsOf k

/-- the same object seen as a DataArray: there is no `to_array` -/
def daOps : MissOps Dataset (List (List Bool)) (List Bool) Coord :=
  { ops with toArray := fun _ => .error .attributeError }

theorem all_nullMask (m : Method) (x : Dataset) :
    ((nullMask m x).all fun l => l.all id) = x.vars.all fun e => e.2.cells.all fun c => !present m c.2 := by
  simp [nullMask, List.all_map, Function.comp_def]

theorem filter_true' {α : Type} (l : List α) : l.filter (fun _ => true) = l := List.filter_eq_self.mpr (by simp)

/-- **`Missing.isCaseMissing` is the translated `is_case_missing`** at the model's operations -/
theorem isCaseMissing_refines (d : Dataset) (s : Pt) (m : Method) :
    Gen.isCaseMissing ops d s (methodStr m) = .ok (isCaseMissing d s m) := by
  cases hs : d.sel s with
  | none =>
    rw [isCaseMissing_keyError ops d s _ (by simp [ops, hs])]
    simp [isCaseMissing, hs]
  | some x =>
    have h : ops.sel d s = .ok x := by simp [ops, hs]
    have hm : methodStr m = "isnull" ∨ methodStr m = "isfinite" := by cases m <;> simp [methodStr]
    rw [isCaseMissing_all_vars ops d x s _ _ h hm rfl]
    cases m <;> simp [isCaseMissing, hs, maskOf, methodStr, ops, all_nullMask]

/-- … and also when the object is a DataArray (one variable) -/
theorem isCaseMissing_refines_da (d : Dataset) (s : Pt) (m : Method) :
    Gen.isCaseMissing daOps d s (methodStr m) = .ok (isCaseMissing d s m) := by
  cases hs : d.sel s with
  | none =>
    rw [isCaseMissing_keyError daOps d s _ (by simp [daOps, ops, hs])]
    simp [isCaseMissing, hs]
  | some x =>
    have h : daOps.sel d s = .ok x := by simp [daOps, ops, hs]
    have hm : methodStr m = "isnull" ∨ methodStr m = "isfinite" := by cases m <;> simp [methodStr]
    rw [isCaseMissing_dataarray daOps d x s _ h hm rfl]
    cases m <;> simp [isCaseMissing, hs, maskOf, methodStr, daOps, ops, all_nullMask]

/-- the same for the committed last-good text (used when `findMissing` / `parseIntoCases` fall back while
`isCaseMissing` is translated, or the other way round) -/
theorem isCaseMissing_refines_default (d : Dataset) (s : Pt) (m : Method) :
    Gen.Default.isCaseMissing ops d s (methodStr m) = .ok (isCaseMissing d s m) := by
  cases hs : d.sel s <;> cases m <;>
    simp [Gen.Default.isCaseMissing, isCaseMissing, hs, methodStr, ops, all_nullMask]

/-! ### dictionaries -/

theorem dictSet_of_none {ν : Type} (d : List (String × ν)) (k : String) (v : ν) (h : alookup d k = none) :
    Py.dictSet d k v = d ++ [(k, v)] := by
  have : d.any (fun e => e.1 == k) = false := by
    induction d with
    | nil => rfl
    | cons e t ih =>
      obtain ⟨k', x⟩ := e
      simp only [alookup] at h
      by_cases hk : k' = k
      · simp [hk] at h
      · simp only [hk, if_false] at h
        simp [hk, ih h]
  simp [Py.dictSet, this]

theorem dictSet_of_some {ν : Type} (d : List (String × ν)) (k : String) (v : ν) (h : (alookup d k).isSome = true) :
    Py.dictSet d k v = d.map (fun e => if e.1 = k then (e.1, v) else e) := by
  have : d.any (fun e => e.1 == k) = true := by
    induction d with
    | nil => simp [alookup] at h
    | cons e t ih =>
      obtain ⟨k', x⟩ := e
      simp only [alookup] at h
      by_cases hk : k' = k
      · simp [hk]
      · simp only [hk, if_false] at h
        simp [ih h]
  simp [Py.dictSet, this]

theorem alookup_append_one {ν : Type} (d : List (String × ν)) (k k' : String) (v : ν) :
    alookup (d ++ [(k, v)]) k' = (alookup d k').orElse fun _ => if k = k' then some v else none := by
  induction d with
  | nil => simp [alookup]
  | cons e t ih =>
    obtain ⟨k'', x⟩ := e
    by_cases hk : k'' = k' <;> simp [alookup, hk, ih]

theorem alookup_map_replace_isNone {ν : Type} (d : List (String × ν)) (k k' : String) (v : ν) :
    (alookup (d.map (fun e => if e.1 = k then (e.1, v) else e)) k').isNone = (alookup d k').isNone := by
  induction d with
  | nil => rfl
  | cons e t ih =>
    obtain ⟨k'', x⟩ := e
    simp only [List.map_cons]
    by_cases hk : k'' = k
    · subst hk
      by_cases hk' : k'' = k'
      · simp [alookup, hk']
      · simp [alookup, hk', ih]
    · by_cases hk' : k'' = k'
      · subst hk'; simp [alookup, hk]
      · simp [alookup, hk, hk', ih]

theorem alookup_none_of_not_mem {ν : Type} (E : List (String × ν)) (k : String) (h : k ∉ E.map (·.1)) :
    alookup E k = none := by
  induction E with
  | nil => rfl
  | cons e t ih =>
    obtain ⟨k', x⟩ := e
    simp only [List.map_cons, List.mem_cons, not_or] at h
    simp [alookup, Ne.symm h.1, ih h.2]

/-- `d.update(E)` for `E` with distinct keys: existing keys keep their place and take `E`'s value, new keys are appended
in `E`'s order -/
theorem foldl_dictSet {ν : Type} (E : List (String × ν)) (hE : (E.map (·.1)).Nodup) (d : List (String × ν)) :
    E.foldl (fun d x => Py.dictSet d x.1 x.2) d
      = d.map (fun kv => (kv.1, (alookup E kv.1).getD kv.2)) ++ E.filter (fun kv => (alookup d kv.1).isNone) := by
  induction E generalizing d with
  | nil => simp [alookup]
  | cons e t ih =>
    obtain ⟨k, v⟩ := e
    simp only [List.map_cons, List.nodup_cons] at hE
    obtain ⟨hk, ht⟩ := hE
    have hkt : alookup t k = none := alookup_none_of_not_mem t k hk
    simp only [List.foldl_cons]
    rw [ih ht]
    cases hd : alookup d k with
    | none =>
      rw [dictSet_of_none d k v hd]
      have hf : (t.filter fun kv => (alookup (d ++ [(k, v)]) kv.1).isNone) = t.filter fun kv => (alookup d kv.1).isNone := by
        apply List.filter_congr
        intro kv hkv
        have : k ≠ kv.1 := fun h => hk (h ▸ List.mem_map.mpr ⟨kv, hkv, rfl⟩)
        rw [alookup_append_one]
        cases alookup d kv.1 <;> simp [this]
      have hm : (d.map fun kv => (kv.1, (alookup ((k, v) :: t) kv.1).getD kv.2))
          = d.map fun kv => (kv.1, (alookup t kv.1).getD kv.2) := by
        apply List.map_congr_left
        intro kv hkv
        have : k ≠ kv.1 := by
          intro h
          have := alookup_isSome_of_mem d kv.1 kv.2 hkv
          rw [← h, hd] at this; cases this
        simp [alookup, this]
      rw [hf, hm]
      simp [hkt, hd, List.filter_cons]
    | some x =>
      have hs : (alookup d k).isSome = true := by simp [hd]
      rw [dictSet_of_some d k v hs]
      have hf : (t.filter fun kv => (alookup (d.map fun e => if e.1 = k then (e.1, v) else e) kv.1).isNone)
          = t.filter fun kv => (alookup d kv.1).isNone := by
        apply List.filter_congr
        intro kv _
        rw [alookup_map_replace_isNone]
      rw [hf, List.map_map]
      have hm : (d.map ((fun kv : String × ν => (kv.1, (alookup t kv.1).getD kv.2)) ∘ fun e => if e.1 = k then (e.1, v) else e))
          = d.map fun kv => (kv.1, (alookup ((k, v) :: t) kv.1).getD kv.2) := by
        apply List.map_congr_left
        intro kv _
        by_cases h : kv.1 = k
        · simp [Function.comp, h, hkt, alookup]
        · simp [Function.comp, h, alookup, Ne.symm h]
      simp [hm, hd, List.filter_cons]

theorem dictOfList_nodup {ν : Type} (E : List (String × ν)) (hE : (E.map (·.1)).Nodup) : Py.dictOfList E = E := by
  have := foldl_dictSet E hE []
  simpa [Py.dictOfList, alookup, filter_true'] using this

/-- **`{**case, **dict(extra)}` is the model's `mergeCase`** when `extra` has distinct keys (it is a `dict`) -/
theorem mergeCase_eq (c E : Pt) (hE : (E.map (·.1)).Nodup) : Py.dictUpdate c (Py.dictOfList E) = mergeCase c E := by
  rw [dictOfList_nodup E hE]
  simp only [Py.dictUpdate, mergeCase]
  exact foldl_dictSet E hE c

theorem zip_keys_nodup {α β : Type} (ks : List α) (hk : ks.Nodup) (s : List β) : ((ks.zip s).map (·.1)).Nodup := by
  induction ks generalizing s with
  | nil => simp
  | cons k t ih =>
    cases s with
    | nil => simp
    | cons x s' =>
      simp only [List.nodup_cons] at hk
      simp only [List.zip_cons_cons, List.map_cons, List.nodup_cons]
      refine ⟨?_, ih hk.2 s'⟩
      intro hmem
      obtain ⟨p, hp, rfl⟩ := List.mem_map.mp hmem
      exact hk.1 (List.of_mem_zip hp).1

/-! ### `find_missing_cases` -/

/-- the ignored names as the model takes them -/
def ignoreList : IgnoreArg → List String
  | .none => []
  | .str s => [s]
  | .coll l => l

section Abstract
variable {D M R V : Type} (o : MissOps D M R V)

/-- whatever the operations: if `find_missing_cases` answers, the argument names are the dataset's dimensions that are
not ignored, in the dataset's order (a bare string is ONE name) -/
theorem findMissing_fnArgs (ds : D) (ig : IgnoreArg) (method : String) (pb : Bool) (fa : List String) (cs : List (List V))
    (h : Gen.findMissing o ds ig method pb = .ok (fa, cs)) :
    fa = (o.dims ds).filter fun k => !(ignoreList ig).contains k := by
  simp only [Gen.findMissing, Gen.Default.findMissing] at h
  cases ig with
  | none =>
    simp only [ignoreList] at h ⊢
    split at h
    · cases h
    · simp only [Except.ok.injEq, Prod.mk.injEq] at h
      rw [← h.1]; simp
  | str s =>
    simp only [ignoreList] at h ⊢
    split at h
    · cases h
    · simp only [Except.ok.injEq, Prod.mk.injEq] at h
      rw [← h.1]; simp
  | coll l =>
    simp only [ignoreList] at h ⊢
    split at h
    · cases h
    · simp only [Except.ok.injEq, Prod.mk.injEq] at h
      rw [← h.1]
      cases l <;> simp

end Abstract

theorem coordValues_grid (d : Dataset) (hn : (d.coords.map (·.1)).Nodup) (q : String × List Coord → Bool) :
    ((d.coords.filter q).map (·.1)).map (fun arg => d.coordsOf arg) = (d.coords.filter q).map (·.2) := by
  rw [List.map_map]
  apply List.map_congr_left
  intro e he
  have hmem : e ∈ d.coords := (List.mem_filter.mp he).1
  simp [Dataset.coordsOf, alookup_of_mem_nodup d.coords e.1 e.2 hn hmem]

/-- **`Missing.findMissingCases` is the translated `find_missing_cases`** at the model's operations, for every spelling
of `ignore_dims`; the dataset's dimension names are distinct -/
theorem findMissing_refines (d : Dataset) (ig : IgnoreArg) (m : Method) (pb : Bool) (hn : (d.coords.map (·.1)).Nodup) :
    Gen.findMissing ops d ig (methodStr m) pb = .ok (findMissingCases d (ignoreList ig) m) := by
  have hz : ∀ (q : String × List Coord → Bool) (c : List Coord),
      Py.dictOfList (List.zip ((d.coords.filter q).map (·.1)) c) = List.zip ((d.coords.filter q).map (·.1)) c := by
    intro q c
    apply dictOfList_nodup
    apply zip_keys_nodup
    exact (List.Nodup.sublist (List.Sublist.map _ List.filter_sublist) hn)
  have hcv := coordValues_grid d hn
  have hfm : ∀ p : String → Bool, (d.coords.map (·.1)).filter p = (d.coords.filter fun e => p e.1).map (·.1) := by
    intro p; rw [List.filter_map]; rfl
  have hdims : ops.dims d = d.coords.map (·.1) := rfl
  have hcoord : ∀ k, ops.coordValues d k = d.coordsOf k := fun _ => rfl
  cases ig with
  | none =>
    simp only [Gen.findMissing, Gen.Default.findMissing, ignoreList, findMissingCases, isCaseMissing_refines,
      isCaseMissing_refines_default, hdims, hcoord, List.map_id', hfm, hz, hcv, foldlM_append_ite, List.nil_append, List.map_id']
  | str s =>
    simp only [Gen.findMissing, Gen.Default.findMissing, ignoreList, findMissingCases, isCaseMissing_refines,
      isCaseMissing_refines_default, hdims, hcoord, List.map_id', hfm, hz, hcv, foldlM_append_ite, List.nil_append, List.map_id']
  | coll l =>
    have hl : (if (!l.isEmpty) = true then l else []) = l := by cases l <;> simp
    simp only [Gen.findMissing, Gen.Default.findMissing, ignoreList, findMissingCases, isCaseMissing_refines,
      isCaseMissing_refines_default, hdims, hcoord, List.map_id', hl, hfm, hz, hcv, foldlM_append_ite, List.nil_append, List.map_id']

/-! ### `parse_into_cases` -/

section Abstract
variable {D M R V : Type} (o : MissOps D M R V)

/-- without a dataset nothing is filtered and `is_case_missing` is never asked: every case is crossed with every
combination, cases outermost, the combination's values laid over the case's -/
theorem parseIntoCases_no_ds (combos : Option (List (String × List V))) (cases : Option (List (List (String × V))))
    (method : String) :
    Gen.parseIntoCases o combos cases none method
      = .ok ((cases.getD [[]]).flatMap fun c =>
          (Core.product ((combos.getD []).map (·.2))).map fun s =>
            Py.dictUpdate c (Py.dictOfList (List.zip ((combos.getD []).map (·.1)) s))) := by
  cases combos <;> cases cases <;>
    simp [Gen.parseIntoCases, Gen.Default.parseIntoCases, foldlM_append_all, foldlM_append_flat]

end Abstract

/-- **`Missing.parseIntoCases` is the translated `parse_into_cases`** at the model's operations; `combos` is a dict
(distinct keys) -/
theorem parseIntoCases_refines (combos : Option (List (String × List Coord))) (cases : Option (List Pt))
    (d : Option Dataset) (m : Method) (hk : ((combos.getD []).map (·.1)).Nodup) :
    Gen.parseIntoCases ops combos cases d (methodStr m) = .ok (parseIntoCases (combos.getD []) cases d m) := by
  have hmerge : ∀ (c : Pt) (s : List Coord),
      Py.dictUpdate c (Py.dictOfList (List.zip ((combos.getD []).map (·.1)) s)) = mergeCase c (List.zip ((combos.getD []).map (·.1)) s) :=
    fun c s => mergeCase_eq c _ (zip_keys_nodup _ hk s)
  cases d with
  | none =>
    rw [parseIntoCases_no_ds]
    simp only [hmerge, parseIntoCases, requested, filter_true']
  | some ds =>
    cases combos <;> cases cases <;>
      simp only [Option.getD_none, Option.getD_some, List.map_nil, List.map_cons] at hmerge ⊢ <;>
      simp only [Gen.parseIntoCases, Gen.Default.parseIntoCases, isCaseMissing_refines, isCaseMissing_refines_default,
        List.map_nil, hmerge, foldlM_append_ite, foldlM_append_flat, List.nil_append, parseIntoCases, requested,
        Option.getD_none, Option.getD_some] <;>
      simp [List.filter_flatMap, List.filter_map, Function.comp_def]

/-! ### C13 on the translated source -/

/-- **reported ⇔ no data**, for the translated `is_case_missing` -/
theorem c13_is_src (d : Dataset) (loc : Pt) (m : Method) :
    Gen.isCaseMissing ops d loc (methodStr m) = .ok true ↔ (d.hasLabels loc = false ∨ EntirelyNull d loc m) := by
  rw [isCaseMissing_refines, ← c13_iff]
  simp

/-- **the translated `find_missing_cases` reports exactly the grid locations without data**, in grid order -/
theorem c13_find_src (d : Dataset) (ig : IgnoreArg) (m : Method) (pb : Bool) (hn : (d.coords.map (·.1)).Nodup) :
    ∃ cs, Gen.findMissing ops d ig (methodStr m) pb = .ok ((gridDims d (ignoreList ig)).map (·.1), cs) ∧
      cs.Sublist (Core.product ((gridDims d (ignoreList ig)).map (·.2))) ∧
      ∀ c, c ∈ cs ↔ c ∈ Core.product ((gridDims d (ignoreList ig)).map (·.2)) ∧
        EntirelyNull d (((gridDims d (ignoreList ig)).map (·.1)).zip c) m := by
  refine ⟨(findMissingCases d (ignoreList ig) m).2, ?_, (c13_order_nodup d (ignoreList ig) m).2.1, ?_⟩
  · rw [findMissing_refines d ig m pb hn]; rfl
  · intro c
    rw [c13_find_iff]
    constructor
    · rintro ⟨hc, hm⟩
      refine ⟨hc, ?_⟩
      rcases (c13_iff d _ m).mp hm with h | h
      · rw [hasLabels_of_grid d (ignoreList ig) hn c hc] at h; cases h
      · exact h
    · rintro ⟨hc, hm⟩
      exact ⟨hc, (c13_iff d _ m).mpr (Or.inr hm)⟩

/-- **the translated `parse_into_cases` keeps exactly the requested settings without data** -/
theorem c13_parse_src (combos : List (String × List Coord)) (cases : Option (List Pt)) (d : Option Dataset) (m : Method)
    (hk : (combos.map (·.1)).Nodup) :
    ∃ out, Gen.parseIntoCases ops (some combos) cases d (methodStr m) = .ok out ∧
      out.Sublist (requested combos (cases.getD [[]])) ∧
      ∀ nc, nc ∈ out ↔ nc ∈ requested combos (cases.getD [[]]) ∧
        ∀ ds, d = some ds → (ds.hasLabels nc = false ∨ EntirelyNull ds nc m) := by
  refine ⟨parseIntoCases combos cases d m, ?_, (c13_order_nodup {} [] m).2.2.2 combos cases d, ?_⟩
  · exact parseIntoCases_refines (some combos) cases d m hk
  · intro nc
    rw [c13_parse_iff]
    constructor
    · rintro ⟨h1, h2⟩; exact ⟨h1, fun ds hds => (c13_iff ds nc m).mp (h2 ds hds)⟩
    · rintro ⟨h1, h2⟩; exact ⟨h1, fun ds hds => (c13_iff ds nc m).mpr (h2 ds hds)⟩

/-- the default of `method` in the three signatures is `'isnull'` -/
theorem missingDefaultMethod_isnull :
    Gen.missingDefaultMethod = methodStr .isnull ∧ Gen.missingEntryDefaults = [methodStr .isnull, methodStr .isnull] := by
  simp only [Gen.missingDefaultMethod, Gen.Default.missingDefaultMethod, Gen.missingEntryDefaults,
    Gen.Default.missingEntryDefaults, methodStr, and_self]

/-! ### Non-vacuity (on the example dataset of `Props/C13.lean`) -/

example : Gen.findMissing ops exDs (.str "t") "isfinite" false = .ok (["a"], [[2]]) := by
  rw [show "isfinite" = methodStr .isfinite from rfl, findMissing_refines _ _ _ _ (by decide)]; exact congrArg _ (by decide)
example : Gen.findMissing ops exDs .none "isnull" false = .ok (["a", "t"], [[1, 1], [2, 0]]) := by
  rw [show "isnull" = methodStr .isnull from rfl, findMissing_refines _ _ _ _ (by decide)]; exact congrArg _ (by decide)
example : Gen.isCaseMissing ops exDs [("a", 3)] "isnull" = .ok true := by
  rw [show "isnull" = methodStr .isnull from rfl, isCaseMissing_refines]; exact congrArg _ (by decide)
example : Gen.isCaseMissing ops exDs [("a", 1)] "nosuch" = .error .valueError :=
  isCaseMissing_unknown_method ops exDs _ _ _ rfl (by decide) (by decide)
example : Gen.isCaseMissing ops exDs [("a", 3)] "nosuch" = .ok true :=
  isCaseMissing_keyError ops exDs _ _ rfl
example : Gen.parseIntoCases ops (some [("a", [1, 2, 3])]) (some [[("t", 0)], [("a", 7), ("t", 1)]]) (some exDs) "isnull"
    = .ok [[("t", 0), ("a", 2)], [("t", 0), ("a", 3)], [("a", 1), ("t", 1)], [("a", 3), ("t", 1)]] := by
  rw [show "isnull" = methodStr .isnull from rfl, parseIntoCases_refines _ _ _ _ (by decide)]; exact congrArg _ (by decide)
example : mergeCase [("a", 7), ("t", 1)] [("a", 1)] = [("a", 1), ("t", 1)] := by decide

end Missing
