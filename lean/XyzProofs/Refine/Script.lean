import XyzProofs.Lemmas.Script
/-!
# Refinement: the hand model of `gen_cluster_script` = its translated body (C16)

`Gen.gcsOpts` / `Gen.gcsTail` are regenerated on every run from the statements of `gen_cluster_script`
(harness/anchors_scriptopts.py, harness/pydyn2lean.py): the option handling up to `opts = {…}`, and from there to the
`format` call (which ids, `array_mode`, which templates, `run_start` / `run_stop`, the single-mode override).

* `gcsOpts_refines`: for every scheduler, mode and argument record, the translated option handling (`genOpts`) and the
  hand model `Scr.resolve` give the same option record or raise the same exception class;
* `gcsTail_refines`: for every scheduler / mode / request / crop state / option record, the translated assembly
  (`genTail`) returns the template `Scr.mkScript` assembles and an option mapping with the same value under every key.

So `c16_ids`, `c16_array_bijection`, `c16_single_ids`, `c16_fields_closed` (stated on `mkScript` / `resolve`) are
statements about the translated source.  A behaviour-changing edit of these statements changes the generated
definitions and one of the two proofs stops checking.
-/
namespace Scr
open Gen

/-! ### `d[k] = v` and lookups -/

theorem lookup_map_ne (o : Opts) (k k' : Str) (v : PyVal) (h : k ≠ k') :
    lookup (o.map fun p => if p.1 = k then (k, v) else p) k' = lookup o k' := by
  induction o with
  | nil => rfl
  | cons p r ih =>
    obtain ⟨a, b⟩ := p
    by_cases hak : a = k
    · subst hak; simp [lookup, h, ih]
    · simp [lookup, hak, ih]

theorem lookup_map_eq (o : Opts) (k : Str) (v : PyVal) (h : (o.any fun x => decide (x.1 = k)) = true) :
    lookup (o.map fun p => if p.1 = k then (k, v) else p) k = some v := by
  induction o with
  | nil => simp at h
  | cons p r ih =>
    obtain ⟨a, b⟩ := p
    by_cases hak : a = k
    · subst hak; simp [lookup]
    · have h' : (r.any fun x => decide (x.1 = k)) = true := by simpa [hak] using h
      simp [lookup, hak, ih h']

theorem lookup_append_new (o : Opts) (k k' : Str) (v : PyVal) (h : ¬ (o.any fun x => decide (x.1 = k)) = true) :
    lookup (o ++ [(k, v)]) k' = if k = k' then some v else lookup o k' := by
  induction o with
  | nil => simp [lookup]
  | cons p r ih =>
    obtain ⟨a, b⟩ := p
    have hak : a ≠ k := by intro e; apply h; simp [e]
    have h' : ¬ (r.any fun x => decide (x.1 = k)) = true := by intro e; apply h; simp [e]
    simp only [List.cons_append, lookup]
    rw [ih h']
    by_cases hk : k = k'
    · subst hk; simp [hak]
    · simp [hk]

theorem lookup_setKw (o : Opts) (k k' : Str) (v : PyVal) :
    lookup (setKw o k v) k' = if k = k' then some v else lookup o k' := by
  unfold setKw
  split
  · rename_i h
    by_cases hk : k = k'
    · subst hk; simp [lookup_map_eq o k v h]
    · simp [hk, lookup_map_ne o k k' v hk]
  · rename_i h
    exact lookup_append_new o k k' v h

@[simp] theorem name_sge (s : Sched) : (s.name == chars! "sge") = decide (s = .sge) := by cases s <;> decide
@[simp] theorem name_pbs (s : Sched) : (s.name == chars! "pbs") = decide (s = .pbs) := by cases s <;> decide
@[simp] theorem name_slurm (s : Sched) : (s.name == chars! "slurm") = decide (s = .slurm) := by cases s <;> decide
@[simp] theorem name_array (m : Mode) : (m.name == chars! "array") = decide (m = .array) := by cases m <;> decide
@[simp] theorem name_single (m : Mode) : (m.name == chars! "single") = decide (m = .single) := by cases m <;> decide
@[simp] theorem name_all (m : AMode) : (m.name == chars! "all") = decide (m = .all) := by cases m <;> decide
@[simp] theorem name_partial (m : AMode) : (m.name == chars! "partial") = decide (m = .part) := by cases m <;> decide
theorem lit_all : (chars! "all" : Str) = AMode.all.name := rfl
theorem lit_partial : (chars! "partial" : Str) = AMode.part.name := rfl
@[simp] theorem lower_name (s : Sched) : Py.lower s.name = s.name := by cases s <;> decide

theorem gcsTail_refines (sched : Sched) (mode : Mode) (explicit : Option (List Nat)) (B : Nat) (done : List Nat) (base : Opts) :
    ∃ o, genTail sched.name mode.name explicit B done base = .ok ((mkScript sched mode explicit B done base).template, o) ∧
      ∀ k, lookup o k = lookup (mkScript sched mode explicit B done base).opts k := by
  simp only [genTail, gcsTail, Gen.Default.gcsTail, mkScript, chooseIds, assemble, runStart, runStop,
    scriptIdsChoice, Gen.Default.scriptIdsChoice, scriptPieces, Gen.Default.scriptPieces,
    scriptRunStart, Gen.Default.scriptRunStart, scriptRunStopAll, Gen.Default.scriptRunStopAll,
    scriptRunStopPartial, Gen.Default.scriptRunStopPartial, scriptAllRangeStart, Gen.Default.scriptAllRangeStart,
    scriptAllRangeStop, Gen.Default.scriptAllRangeStop, scriptSingleDynamic, Gen.Default.scriptSingleDynamic,
    scriptSingleDynamicIds, Gen.Default.scriptSingleDynamicIds]
  have hne : ∀ n : Nat, ((n : Int) + 1 = 0) = False := by intro n; simp; omega
  cases sched <;> cases mode <;> cases explicit <;> cases done <;>
    simp [lookup_setKw, Py.lenOf, Py.tupleOf, hne, lookup] <;>
    (try (intro k; (repeat' split) <;> (try subst_vars) <;> simp_all))
theorem mode_valid (m : Mode) : (decide (m = .array) || decide (m = .single)) = true := by cases m <;> rfl
theorem sched_valid (s : Sched) : (decide (s = .sge) || decide (s = .pbs) || decide (s = .slurm)) = true := by cases s <;> rfl

theorem bind_congr_map {α α' β : Type} (φ : α → α') {X : Except PyErr α} {Y : Except PyErr α'}
    {f : α → Except PyErr β} {g : α' → Except PyErr β}
    (h1 : Py.bind X (fun a => .ok (φ a)) = Y) (h2 : ∀ a, f a = g (φ a)) : Py.bind X f = Py.bind Y g := by
  subst h1; cases X <;> simp [Py.bind, h2]

@[simp] theorem bind_ok_right {α : Type} (X : Except PyErr α) : Py.bind X (fun a => .ok a) = X := by
  cases X <;> rfl

theorem bind_assoc {α β γ : Type} (X : Except PyErr α) (f : α → Except PyErr β) (g : β → Except PyErr γ) :
    Py.bind (Py.bind X f) g = Py.bind X (fun a => Py.bind (f a) g) := by
  cases X <;> rfl

theorem isNone_eq_true (v : PyVal) : isNone v = true ↔ v = .none := by cases v <;> simp [isNone]

theorem gcsOpts_refines (sched : Sched) (mode : Mode) (r : Raw) :
    genOpts sched.name mode.name r = resolve sched r := by
  simp only [genOpts, gcsOpts, Gen.Default.gcsOpts, resolve, lower_name, name_sge, name_pbs, name_slurm, name_array, name_single,
    mode_valid, sched_valid, Bool.not_true, Bool.false_eq_true, if_false, Py.bind_ok]
  refine bind_congr_map id ?_ (fun nt => ?_)
  · simp only [threads1, id]
    by_cases h1 : isNone r.numThreads = true <;> by_cases h2 : isNone r.numWorkers = true <;> simp [h1, h2]
  refine bind_congr_map id ?_ (fun hms => ?_)
  · simp only [timeHMS, timePart, id]
    cases h1 : isNone r.hours <;> cases h2 : isNone r.minutes <;> cases h3 : isNone r.seconds <;>
      cases ht : r.time <;> simp [Py.isInt, Py.isFloat, Py.isStr, Py.split, isNone] <;>
      (try (split <;> simp_all)) <;> simp_all [isNone_eq_true]
  refine bind_congr_map (fun x => (x.1, x.2.2.1)) ?_ (fun kwgb => ?_)
  · cases sched <;> simp only [memKw, setIf, memSpelling] <;>
      cases hg : isNone r.gigabytes <;> cases hm : isNone r.mem <;> cases hc : isNone r.memPerCpu <;>
      cases hp : isNone r.numProcs <;> cases hn : isNone r.numNodes <;> simp [hg, hm, hc, hp, hn, bind_assoc]
  refine bind_congr_map id ?_ (fun ss => ?_)
  · simp only [condaSetup, condaEnvOf, id, bind_ok_right]
    by_cases h1 : Py.truthy r.condaDefault = true <;> by_cases h2 : hasSub (chars! "conda activate") r.shellSetup = true <;>
      by_cases h3 : hasSub (chars! "mamba activate") r.shellSetup = true <;> by_cases h4 : r.condaEnv = .bool true <;>
      simp [h1, h2, h3, h4] <;> (repeat' split) <;> simp_all
  refine bind_congr_map id ?_ (fun nt2 => ?_)
  · simp only [threads2, id]
    by_cases h1 : isNone nt = true <;> by_cases h2 : isNone r.numWorkers = true <;> cases hm : r.mpi <;>
      simp [h1, h2, hm, bind_assoc]
  cases sched <;> simp [outDir, headerOptions, headerLine, headerPrefix]
  all_goals
    split
    · rename_i h; simp [h, joinSep]
    · congr 1; apply List.map_congr_left; intro kv _; simp only [headerLine, headerPrefix]; split <;> simp_all

/-! ### non-vacuity: the translated functions on concrete calls -/

def raisesE {α : Type} (x : Except PyErr α) (e : PyErr) : Bool :=
  match x with
  | .error e' => e' == e
  | .ok _ => false

-- SLURM, `mem=4`, `num_procs=4`, `num_workers=2`, `hours=2`, an extra flag: threads 2, header lines in dict order
example : (genOpts (chars! "slurm") (chars! "array")
    { numProcs := .int 4, numWorkers := .int 2, mem := .int 4, hours := .int 2, condaEnv := .bool false,
      extra := [(chars! "requeue", .none)] }).toOption.bind (fun o => lookup o (chars! "header_options")) =
    some (.str (chars! "#SBATCH --requeue\n#SBATCH --cpus-per-task=4\n#SBATCH --mem=4G")) := by decide +kernel
example : (genOpts (chars! "slurm") (chars! "array")
    { numProcs := .int 4, numWorkers := .int 2, hours := .int 2, condaEnv := .bool false }).toOption.bind
      (fun o => lookup o (chars! "num_threads")) = some (.int 2) := by decide +kernel
-- `time='1:30:00'` is split into three strings; both `time` and `hours` is a ValueError; an unknown scheduler too
example : (genOpts (chars! "pbs") (chars! "array") { time := .str (chars! "1:30:00"), condaEnv := .bool false }).toOption.bind
      (fun o => lookup o (chars! "minutes")) = some (.str (chars! "30")) := by decide +kernel
example : raisesE (genOpts (chars! "pbs") (chars! "array") { time := .int 2, hours := .int 1 }) .valueError = true := by decide +kernel
example : raisesE (genOpts (chars! "lsf") (chars! "array") {}) .valueError = true := by decide +kernel
example : (genOpts (chars! "SGE") (chars! "single") { condaEnv := .bool false }).toOption.isSome = true := by decide +kernel
-- the assembly: two explicit ids in array mode → partial template, run 1..2; a fresh crop → range, run 1..B
example : (genTail (chars! "sge") (chars! "array") (some [4, 2]) 5 [1] []).toOption.map (·.2) =
    some [(chars! "batch_ids", .tuple [4, 2]), (chars! "run_start", .int 1), (chars! "run_stop", .int 2)] := by decide +kernel
example : (genTail (chars! "slurm") (chars! "array") none 3 [] []).toOption.map (·.2) =
    some [(chars! "batch_ids", .range 1 4), (chars! "run_start", .int 1), (chars! "run_stop", .int 3)] := by decide +kernel
example : (genTail (chars! "pbs") (chars! "single") none 3 [2] []).toOption.map (·.2) =
    some [(chars! "batch_ids", .str (chars! "crop.missing_results()"))] := by decide +kernel

/-! ### the other entry points -/

/-- `gen_qsub_script` hands its scheduler, `batch_ids` and keyword arguments on to `gen_cluster_script`; each
`Crop.gen_<s>_script` is `gen_cluster_script` with `scheduler="<s>"` — so every entry point generates the script the
theorems are about (read off the source: `Gen.gcsWrappers`). -/
theorem gcsWrappers_faithful :
    gcsWrappers.map (·.1) = [chars! "gen_qsub_script", chars! "gen_sge_script", chars! "gen_pbs_script", chars! "gen_slurm_script"] ∧
    (∀ w ∈ gcsWrappers, w.2.2.1 = true ∧ w.2.2.2 = true) ∧
    (∀ s : Sched, (chars! "gen_" ++ s.name ++ chars! "_script", s.name, true, true) ∈ gcsWrappers) := by
  simp only [gcsWrappers, Gen.Default.gcsWrappers]
  refine ⟨by decide +kernel, by decide +kernel, ?_⟩
  intro s; cases s <;> decide +kernel

end Scr
