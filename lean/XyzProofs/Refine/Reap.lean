import XyzModel.Crop
import XyzModel.StoreIO
/-!
# Reap options and the extension rule: the hand-written models are the translated source

`Gen.calcCleanUp`, `Gen.checkReady`, `Gen.reaperUseDefault`, `Gen.autoAddExt` are the whole bodies of
`calc_clean_up_default_res`, `check_ready_to_reap`, the `use_default` decision of `Reaper._load` and
`auto_add_extension`, translated from the source on every run.
-/
set_option linter.unusedSimpArgs false
namespace Refine

/-- `calc_clean_up_default_res`: the clean-up flag it returns is `Crop.cleanUpResolved`, and a stand-in result is
used exactly when `allow_incomplete` is given -/
theorem calcCleanUp_refines (cleanUp : Option Bool) (allowIncomplete : Bool) :
    Gen.calcCleanUp cleanUp allowIncomplete
      = .ok (some (Crop.cleanUpResolved cleanUp allowIncomplete), allowIncomplete) := by
  cases cleanUp <;> cases allowIncomplete <;>
    simp [Gen.calcCleanUp, Gen.Default.calcCleanUp, Crop.cleanUpResolved, Gen.cleanUpDefault, Gen.Default.cleanUpDefault]

/-- `check_ready_to_reap` raises (XYZError) exactly when the model's gate is closed -/
theorem checkReady_refines {β} (s : Crop.St β) (allowIncomplete wait : Bool) :
    Gen.checkReady allowIncomplete wait (Crop.isReady s).2
      = if (Crop.readyGate s allowIncomplete wait).2 then .ok () else .error .xyzError := by
  cases allowIncomplete <;> cases wait <;> cases h : (Crop.isReady s).2 <;>
    simp [Gen.checkReady, Gen.Default.checkReady, Crop.readyGate, h]

/-- the Reaper substitutes the stand-in exactly when one is available and the file is absent — stated where the test is
ever evaluated: not waiting, or waiting on a file that is there (`wait_to_load` only loads what exists, so what the test
says for a waiting Reaper and an absent file is dead code: a source that drops `not wait` from it behaves the same; the
Reaper-level statements are `Reaper.reaperLoadFn_present` / `reaperLoadFn_waiting`) -/
theorem reaperUseDefault_spec (hasDefault isFile : Bool) :
    Gen.reaperUseDefault hasDefault false isFile = (hasDefault && !isFile) ∧
    Gen.reaperUseDefault hasDefault true true = false := by
  cases hasDefault <;> cases isFile <;> simp [Gen.reaperUseDefault, Gen.Default.reaperUseDefault]

/-- `auto_add_extension`, as translated from the source (with the `any(ext in file_name …)` test and the table lookup
as inputs), is `StoreIO.autoAddExt` -/
theorem autoAddExt_refines (name : String) (e : StoreIO.Engine) (ext : String) (h : StoreIO.extOf e = some ext) :
    Gen.autoAddExt (StoreIO.hasKnownExt name) name ext = .ok (StoreIO.autoAddExt name e) := by
  cases hk : StoreIO.hasKnownExt name <;>
    simp [Gen.autoAddExt, Gen.Default.autoAddExt, StoreIO.autoAddExt, hk, h, Gen.extAppendCount,
      Gen.Default.extAppendCount, StoreIO.appendN]

end Refine
