import XyzModel.Gen.Extracted
import XyzProofs.Refine.Reap
import XyzProofs.Lemmas.TwoMode
/-!
# Life cycle of a crop: the hand-written description is the translated source

`Gen.prepareLc`, `Gen.sowCombosLc`, `Gen.sowCasesLc`, `Gen.sowSamplesLc`, `Gen.reapCombosLc`, `Gen.reapCombosToDsLc`,
`Gen.reapRunnerLc` … are the whole bodies of the methods of `Crop`, translated from the repository source on every run
(harness/anchors_lifecycle.py) to effect skeletons whose effects carry the values they are given.

Here: a hand-written description in terms of `attempt` ("try these effects in this order, stop at the first that
fails") — `prepareEffs`, `sowCombosSpec`, `sowCasesSpec`, `reapSpec` — and the proofs that the translated bodies ARE
these descriptions (`*_refines`).  `Props/C04Lifecycle.lean` derives the property theorems.
-/
set_option linter.unusedSimpArgs false
set_option linter.unusedVariables false
namespace Lc
open Gen

variable {C K A V : Type}

/-- attempt the effects in order on top of trace `t`; the first that fails is still recorded and ends the body -/
def attempt {E : Type} (fails : E → Bool) : List E → List E → List E × Option PyErr
  | [], t => (t, none)
  | e :: es, t => if fails e then (t ++ [e], some .other) else attempt fails es (t ++ [e])

theorem attempt_ok {E : Type} (fails : E → Bool) (es t : List E) (h : ∀ e ∈ es, fails e = false) :
    attempt fails es t = (t ++ es, none) := by
  induction es generalizing t with
  | nil => simp [attempt]
  | cons e es ih =>
    have he : fails e = false := h e (List.mem_cons_self)
    simp only [attempt, he, Bool.false_eq_true, if_false]
    rw [ih _ (fun x hx => h x (List.mem_cons_of_mem _ hx))]
    simp

theorem attempt_ok_iff {E : Type} (fails : E → Bool) (es t : List E) :
    (attempt fails es t).2 = none ↔ ∀ e ∈ es, fails e = false := by
  induction es generalizing t with
  | nil => simp [attempt]
  | cons e es ih =>
    cases he : fails e
    · simp [attempt, he, ih]
    · simp [attempt, he]

/-- the trace is the old one followed by a prefix of the effects; everything before the last attempted went through -/
theorem attempt_prefix {E : Type} (fails : E → Bool) (es t : List E) :
    ∃ k, k ≤ es.length ∧ (attempt fails es t).1 = t ++ es.take k ∧ (∀ e ∈ es.take (k - 1), fails e = false) ∧
      ((attempt fails es t).2 = none → k = es.length) := by
  induction es generalizing t with
  | nil => exact ⟨0, by simp [attempt]⟩
  | cons e es ih =>
    cases he : fails e
    · obtain ⟨k, hk, h1, h2, h3⟩ := ih (t ++ [e])
      refine ⟨k + 1, by simpa using hk, by simp [attempt, he, h1], ?_, ?_⟩
      · intro x hx
        cases k with
        | zero => simp at hx
        | succ k =>
          simp only [Nat.add_sub_cancel, List.take_succ_cons, List.mem_cons] at hx
          rcases hx with rfl | hx
          · exact he
          · exact h2 x (by simpa using hx)
      · intro h; simp only [attempt, he, Bool.false_eq_true, if_false] at h; simp [h3 h]
    · exact ⟨1, by simp, by simp [attempt, he], by simp, by simp [attempt, he]⟩

theorem attempt_append {E : Type} (fails : E → Bool) (a b t : List E) :
    attempt fails (a ++ b) t =
      match attempt fails a t with
      | (t', none) => attempt fails b t'
      | (t', some e) => (t', some e) := by
  induction a generalizing t with
  | nil => simp [attempt]
  | cons e es ih =>
    cases he : fails e
    · simp [attempt, he, ih]
    · simp [attempt, he]

/-- once an effect fails, nothing after it is attempted -/
theorem attempt_stops {E : Type} (fails : E → Bool) (a b t : List E) (x : E) (hx : fails x = true) :
    attempt fails (a ++ x :: b) t = attempt fails (a ++ [x]) t := by
  rw [attempt_append, attempt_append]
  cases h : attempt fails a t with
  | mk t' e =>
    cases e with
    | none => simp [attempt, hx]
    | some e => rfl

theorem attempt_err {E : Type} (fails : E → Bool) (es t : List E) (e : PyErr) (h : (attempt fails es t).2 = some e) :
    e = .other := by
  induction es generalizing t with
  | nil => simp [attempt] at h
  | cons x xs ih =>
    cases hx : fails x
    · simp only [attempt, hx, Bool.false_eq_true, if_false] at h; exact ih _ h
    · simp only [attempt, hx, if_true] at h; cases h; rfl

/-- continue with `k` on the trace reached unless an effect failed (then the object attributes are `obj`) -/
def thenK {E O : Type} (r : List E × Option PyErr) (obj : O) (k : List E → (List E × O) × Option PyErr) :
    (List E × O) × Option PyErr :=
  match r with
  | (t, some e) => ((t, obj), some e)
  | (t, none) => k t

theorem thenK_nil {E O : Type} (fails : E → Bool) (t : List E) (obj : O) (k) :
    thenK (attempt fails [] t) obj k = k t := rfl

theorem thenK_cons {E O : Type} (fails : E → Bool) (e : E) (es t : List E) (obj : O) (k) :
    thenK (attempt fails (e :: es) t) obj k =
      if fails e then ((t ++ [e], obj), some .other) else thenK (attempt fails es (t ++ [e])) obj k := by
  cases h : fails e <;> simp [attempt, thenK, h]

theorem thenK_ok {E O : Type} (fails : E → Bool) (es t : List E) (obj : O) (k) (h : ∀ e ∈ es, fails e = false) :
    thenK (attempt fails es t) obj k = k (t ++ es) := by
  rw [attempt_ok fails es t h]; rfl

theorem thenK_fst_fst {E O : Type} (r : List E × Option PyErr) (obj : O) (k) (e : PyErr) (h : r.2 = some e) :
    thenK r obj k = ((r.1, obj), some e) := by
  obtain ⟨t, e'⟩ := r
  simp only at h; subst h; rfl

/-! ## prepare -/

/-- the record `save_info` writes -/
def infoOf (combos : C) (cases : K) (fnArgs : A) (bs nb rem sh : Option Int) (sc : Option (Dict V)) (f : FarmerPkl) :
    InfoRec C K A V :=
  { combos := some combos, cases := some cases, fnArgs := some fnArgs, batchsize := some bs, numBatches := some nb,
    remainder := some rem, shuffle := some sh, farmer := some f, constants := some (sc.getD []) }

/-- `save_info`: the farmer is pickled (a copy whose `fn` was set to `None`) when there is one, then the info file is written -/
def saveInfoEffs (farmerIsNone : Bool) (info : FarmerPkl → InfoRec C K A V) : List (LEff C K A V) :=
  if farmerIsNone then [.writeInfo (info .none)] else [.pickleFarmer true, .writeInfo (info (.pickled true))]

/-- `prepare`: the two directories, the function file (when `save_fn`), the info file — in this order -/
def prepareEffs (saveFn farmerIsNone : Bool) (info : FarmerPkl → InfoRec C K A V) : List (LEff C K A V) :=
  [.mkDir .batches true, .mkDir .results true] ++ (if saveFn then [.pickleFn, .writeFn] else []) ++
    saveInfoEffs farmerIsNone info

/-- close a goal `translated body = attempt … / spec` after unfolding: case analysis on every `fails` test -/
macro "lc_cases" : tactic =>
  `(tactic| first | done | rfl | ((repeat' split) <;> first | rfl | simp_all [attempt]))

/-- list / boolean normalisation used after unfolding a translated body and its description -/
macro "lc_norm" : tactic =>
  `(tactic| simp only [attempt, List.cons_append, List.nil_append, List.append_nil, Bool.not_true, Bool.not_false,
      Bool.false_eq_true, if_true, if_false, ite_true, ite_false, Bool.true_and, Bool.false_and, Bool.and_true, Bool.and_false])

theorem ensureDirs_refines (o : LcOps C K A V) (fails) (trace) :
    ensureDirsLc o fails trace = attempt fails [.mkDir .batches true, .mkDir .results true] trace := by
  simp only [Gen.ensureDirsLc, Gen.Default.ensureDirsLc, attempt]
  lc_cases

theorem saveFn_refines (o : LcOps C K A V) (fails) (trace) :
    saveFnLc o fails trace = attempt fails [.pickleFn, .writeFn] trace := by
  simp only [Gen.saveFnLc, Gen.Default.saveFnLc, attempt]
  lc_cases

theorem deleteAll_refines (o : LcOps C K A V) (fails) (trace) :
    deleteAllLc o fails trace = attempt fails [.deleteAll] trace := by
  simp only [Gen.deleteAllLc, Gen.Default.deleteAllLc, attempt]
  lc_cases

/-- `load_info`: `XYZError` when there is no info file, else the file is read -/
theorem loadInfo_refines (o : LcOps C K A V) (fails) (infoIsFile : Bool) (trace) :
    loadInfoLc o fails infoIsFile trace = if infoIsFile then attempt fails [.loadInfo] trace else (trace, some .xyzError) := by
  cases infoIsFile <;> simp only [Gen.loadInfoLc, Gen.Default.loadInfoLc, attempt] <;> lc_cases

theorem saveInfo_refines (o : LcOps C K A V) (fails) (combos : C) (cases : K) (fnArgs : A)
    (saveFn farmerIsNone hasRunner : Bool) (rc rr : Dict V) (bs nb rem sh : Option Int) (sc : Option (Dict V)) (trace) :
    saveInfoLc o fails combos cases fnArgs saveFn farmerIsNone hasRunner rc rr bs nb rem sh sc trace
      = attempt fails (saveInfoEffs farmerIsNone (infoOf combos cases fnArgs bs nb rem sh sc)) trace := by
  cases farmerIsNone <;>
    simp only [Gen.saveInfoLc, Gen.Default.saveInfoLc, saveInfoEffs, infoOf] <;> (try lc_norm) <;> lc_cases

theorem prepare_refines (o : LcOps C K A V) (fails) (combos : C) (cases : K) (fnArgs : A)
    (saveFn farmerIsNone hasRunner : Bool) (rc rr : Dict V) (bs nb rem sh : Option Int) (sc : Option (Dict V)) (trace) :
    prepareLc o fails combos cases fnArgs saveFn farmerIsNone hasRunner rc rr bs nb rem sh sc trace
      = attempt fails (prepareEffs saveFn farmerIsNone (infoOf combos cases fnArgs bs nb rem sh sc)) trace := by
  cases saveFn <;> cases farmerIsNone <;>
    simp only [Gen.prepareLc, Gen.Default.prepareLc, prepareEffs, saveInfoEffs, infoOf] <;> (try lc_norm) <;> lc_cases

/-! ## sowing -/

/-- `if <arg> is not None: self.<attr> = <arg>` -/
def headAttr (arg cur : Option Int) : Option Int := if arg.isSome then arg else cur

/-- the keyword arguments every sown setting gets: the runner's resources, then its constants, then the constants given
at the sow call — a later one overrides an earlier one -/
def sowKwargs (hasRunner : Bool) (rc rr sc : Dict V) : Dict V :=
  if hasRunner then dictMerge rr (dictMerge rc sc) else sc

/-- after the arguments were parsed: choose the batch settings, `prepare`, drive the Sower -/
def sowTail (fails : LEff C K A V → Bool) (saveFn farmerIsNone : Bool) (pc : C) (pk : K) (fa : A) (run : RunArgs C K A V)
    (bs nb rem sh : Option Int) (sc : Dict V) (choice : Except PyErr (Option Int × Option Int × Option Int))
    (t : List (LEff C K A V)) : LRes C K A V :=
  match choice with
  | .error e => ((t, bs, nb, rem, sh, some sc), some e)
  | .ok (bs', nb', rem') =>
    thenK (attempt fails (prepareEffs saveFn farmerIsNone (infoOf pc pk fa bs' nb' rem' sh (some sc)) ++ [.runSower run, .exitSower]) t)
      (bs', nb', rem', sh, some sc) (fun t => ((t, bs', nb', rem', sh, some sc), none))

/-- `sow_combos`, by hand -/
def sowCombosSpec (o : LcOps C K A V) (fails : LEff C K A V → Bool) (combos : C) (cases : K) (constants : Dict V)
    (shArg bsArg nbArg : Option Int) (saveFn farmerIsNone hasRunner : Bool) (rc rr : Dict V)
    (bs nb rem sh : Option Int) (sc0 : Option (Dict V)) (trace : List (LEff C K A V)) : LRes C K A V :=
  thenK (attempt fails [.parse .combos, .parse .cases, .parse .constants] trace)
    (headAttr bsArg bs, headAttr nbArg nb, rem, headAttr shArg sh, sc0) fun t =>
    sowTail fails saveFn farmerIsNone (o.sortByName (o.parseCombos combos)) (o.parseCases cases none) o.noneA
      { runner := .comboRunnerCore, combos := o.sortByName (o.parseCombos combos), cases := o.parseCases cases none,
        fnArgs := o.noneA, constants := sowKwargs hasRunner rc rr (o.parseConstants constants),
        shuffle := headAttr shArg sh, parse := true }
      (headAttr bsArg bs) (headAttr nbArg nb) rem (headAttr shArg sh) (o.parseConstants constants)
      (chooseBatchSettings (o.combosTruthy (o.sortByName (o.parseCombos combos))) (o.combosProd (o.sortByName (o.parseCombos combos)))
        (o.casesTruthy (o.parseCases cases none)) (o.casesLen (o.parseCases cases none)) (headAttr bsArg bs) (headAttr nbArg nb) rem) t

/-- `sow_cases`, by hand -/
def sowCasesSpec (o : LcOps C K A V) (fails : LEff C K A V → Bool) (fnArgs : A) (cases : K) (combos : C) (constants : Dict V)
    (bsArg nbArg : Option Int) (saveFn farmerIsNone hasRunner : Bool) (rc rr : Dict V)
    (bs nb rem sh : Option Int) (sc0 : Option (Dict V)) (trace : List (LEff C K A V)) : LRes C K A V :=
  thenK (attempt fails [.parse .fnArgs, .parse .cases, .parse .constants] trace)
    (headAttr bsArg bs, headAttr nbArg nb, rem, sh, sc0) fun t =>
    sowTail fails saveFn farmerIsNone combos (o.parseCases cases (some (o.parseFnArgs fnArgs))) (o.parseFnArgs fnArgs)
      { runner := .caseRunner, combos := combos, cases := o.parseCases cases (some (o.parseFnArgs fnArgs)),
        fnArgs := o.parseFnArgs fnArgs, constants := sowKwargs hasRunner rc rr (o.parseConstants constants),
        shuffle := sh, parse := false }
      (headAttr bsArg bs) (headAttr nbArg nb) rem sh (o.parseConstants constants)
      (chooseBatchSettings (o.combosTruthy combos) (o.combosProd combos)
        (o.casesTruthy (o.parseCases cases (some (o.parseFnArgs fnArgs)))) (o.casesLen (o.parseCases cases (some (o.parseFnArgs fnArgs))))
        (headAttr bsArg bs) (headAttr nbArg nb) rem) t

/-- **`sow_combos`, as translated from the source, is `sowCombosSpec`** -/
theorem sowCombos_refines (o : LcOps C K A V) (fails) (combos : C) (cases : K) (constants : Dict V)
    (shArg bsArg nbArg : Option Int) (saveFn farmerIsNone hasRunner : Bool) (rc rr : Dict V)
    (bs nb rem sh : Option Int) (sc0 : Option (Dict V)) (trace) :
    sowCombosLc o fails combos cases constants shArg bsArg nbArg saveFn farmerIsNone hasRunner rc rr bs nb rem sh sc0 trace
      = sowCombosSpec o fails combos cases constants shArg bsArg nbArg saveFn farmerIsNone hasRunner rc rr bs nb rem sh sc0 trace := by
  -- 1st: the body calls `Gen.chooseBatchSettings` (translated); 2nd: it is the committed text, which calls the committed
  -- `Gen.Default.chooseBatchSettings` (every anchor fell back); 3rd: this body fell back, `choose_batch_settings` is translated
  -- (both texts unfolded); 4th: case analysis on every `fails` test
  first
    | (simp only [Gen.sowCombosLc, Gen.Default.sowCombosLc, sowCombosSpec, sowTail, sowKwargs, headAttr]
       cases saveFn <;> cases farmerIsNone <;>
         simp only [prepareEffs, saveInfoEffs, infoOf, thenK_cons, thenK_nil, List.cons_append, List.nil_append, List.append_nil,
      Bool.not_true, Bool.not_false, Bool.false_eq_true, if_true, if_false, ite_true, ite_false] <;> rfl)
    | (simp only [Gen.sowCombosLc, Gen.Default.sowCombosLc, Gen.chooseBatchSettings, sowCombosSpec, sowTail, sowKwargs, headAttr]
       cases saveFn <;> cases farmerIsNone <;>
         simp only [prepareEffs, saveInfoEffs, infoOf, thenK_cons, thenK_nil, List.cons_append, List.nil_append, List.append_nil,
      Bool.not_true, Bool.not_false, Bool.false_eq_true, if_true, if_false, ite_true, ite_false] <;> rfl)
    | (simp only [Gen.sowCombosLc, Gen.Default.sowCombosLc, Gen.chooseBatchSettings, Gen.Default.chooseBatchSettings, sowCombosSpec, sowTail, sowKwargs, headAttr]
       cases saveFn <;> cases farmerIsNone <;>
         simp only [prepareEffs, saveInfoEffs, infoOf, thenK_cons, thenK_nil, List.cons_append, List.nil_append, List.append_nil,
      Bool.not_true, Bool.not_false, Bool.false_eq_true, if_true, if_false, ite_true, ite_false] <;> rfl)
    | (simp only [Gen.sowCombosLc, Gen.Default.sowCombosLc, sowCombosSpec, sowTail, sowKwargs, headAttr]
       cases saveFn <;> cases farmerIsNone <;>
         simp only [prepareEffs, saveInfoEffs, infoOf, thenK_cons, thenK_nil, List.cons_append, List.nil_append, List.append_nil,
      Bool.not_true, Bool.not_false, Bool.false_eq_true, if_true, if_false, ite_true, ite_false] <;> lc_cases)

/-- **`sow_cases`, as translated from the source, is `sowCasesSpec`** -/
theorem sowCases_refines (o : LcOps C K A V) (fails) (fnArgs : A) (cases : K) (combos : C) (constants : Dict V)
    (bsArg nbArg : Option Int) (saveFn farmerIsNone hasRunner : Bool) (rc rr : Dict V)
    (bs nb rem sh : Option Int) (sc0 : Option (Dict V)) (trace) :
    sowCasesLc o fails fnArgs cases combos constants bsArg nbArg saveFn farmerIsNone hasRunner rc rr bs nb rem sh sc0 trace
      = sowCasesSpec o fails fnArgs cases combos constants bsArg nbArg saveFn farmerIsNone hasRunner rc rr bs nb rem sh sc0 trace := by
  -- 1st: the body calls `Gen.chooseBatchSettings` (translated); 2nd: it is the committed text, which calls the committed
  -- `Gen.Default.chooseBatchSettings` (every anchor fell back); 3rd: this body fell back, `choose_batch_settings` is translated
  -- (both texts unfolded); 4th: case analysis on every `fails` test
  first
    | (simp only [Gen.sowCasesLc, Gen.Default.sowCasesLc, sowCasesSpec, sowTail, sowKwargs, headAttr]
       cases saveFn <;> cases farmerIsNone <;>
         simp only [prepareEffs, saveInfoEffs, infoOf, thenK_cons, thenK_nil, List.cons_append, List.nil_append, List.append_nil,
      Bool.not_true, Bool.not_false, Bool.false_eq_true, if_true, if_false, ite_true, ite_false] <;> rfl)
    | (simp only [Gen.sowCasesLc, Gen.Default.sowCasesLc, Gen.chooseBatchSettings, sowCasesSpec, sowTail, sowKwargs, headAttr]
       cases saveFn <;> cases farmerIsNone <;>
         simp only [prepareEffs, saveInfoEffs, infoOf, thenK_cons, thenK_nil, List.cons_append, List.nil_append, List.append_nil,
      Bool.not_true, Bool.not_false, Bool.false_eq_true, if_true, if_false, ite_true, ite_false] <;> rfl)
    | (simp only [Gen.sowCasesLc, Gen.Default.sowCasesLc, Gen.chooseBatchSettings, Gen.Default.chooseBatchSettings, sowCasesSpec, sowTail, sowKwargs, headAttr]
       cases saveFn <;> cases farmerIsNone <;>
         simp only [prepareEffs, saveInfoEffs, infoOf, thenK_cons, thenK_nil, List.cons_append, List.nil_append, List.append_nil,
      Bool.not_true, Bool.not_false, Bool.false_eq_true, if_true, if_false, ite_true, ite_false] <;> rfl)
    | (simp only [Gen.sowCasesLc, Gen.Default.sowCasesLc, sowCasesSpec, sowTail, sowKwargs, headAttr]
       cases saveFn <;> cases farmerIsNone <;>
         simp only [prepareEffs, saveInfoEffs, infoOf, thenK_cons, thenK_nil, List.cons_append, List.nil_append, List.append_nil,
      Bool.not_true, Bool.not_false, Bool.false_eq_true, if_true, if_false, ite_true, ite_false] <;> lc_cases)

/-- **`sow_samples`, as translated**: the Sampler generates the cases, then it is `sow_cases` with them (no combos, the
batch settings of the call left alone) -/
theorem sowSamples_refines (o : LcOps C K A V) (fails) (n : Int) (combos : C) (constants : Dict V)
    (saveFn farmerIsNone hasRunner : Bool) (rc rr : Dict V) (bs nb rem sh : Option Int) (sc0 : Option (Dict V)) (trace) :
    sowSamplesLc o fails n combos constants saveFn farmerIsNone hasRunner rc rr bs nb rem sh sc0 trace
      = thenK (attempt fails [.parse .genCases] trace) (bs, nb, rem, sh, sc0) fun t =>
          sowCasesLc o fails (o.genFnArgs n combos) (o.genCases n combos) o.noneC constants none none
            saveFn farmerIsNone hasRunner rc rr bs nb rem sh sc0 t := by
  first
    | (simp only [Gen.sowSamplesLc, Gen.Default.sowSamplesLc, thenK_cons, thenK_nil]; done)
    | (simp only [Gen.sowSamplesLc, Gen.Default.sowSamplesLc, Gen.sowCasesLc, thenK_cons, thenK_nil]; done)
    | (have e : @Gen.Default.sowCasesLc = @Gen.sowCasesLc := by same_gen [Gen.sowCasesLc, Gen.Default.sowCasesLc]
       simp only [Gen.sowSamplesLc, Gen.Default.sowSamplesLc, e, thenK_cons, thenK_nil]; done)

/-! ## reaping -/

/-- continue with `k` on the trace reached unless an effect failed -/
def thenT {E : Type} (r : List E × Option PyErr) (k : List E → List E × Option PyErr) : List E × Option PyErr :=
  match r with
  | (t, some e) => (t, some e)
  | (t, none) => k t

theorem thenT_nil {E : Type} (fails : E → Bool) (t : List E) (k) : thenT (attempt fails [] t) k = k t := rfl

theorem thenT_cons {E : Type} (fails : E → Bool) (e : E) (es t : List E) (k) :
    thenT (attempt fails (e :: es) t) k = if fails e then (t ++ [e], some .other) else thenT (attempt fails es (t ++ [e])) k := by
  cases h : fails e <;> simp [attempt, thenT, h]

theorem thenT_ok {E : Type} (fails : E → Bool) (es t : List E) (k) (h : ∀ e ∈ es, fails e = false) :
    thenT (attempt fails es t) k = k (t ++ es) := by
  rw [attempt_ok fails es t h]; rfl

/-- what the Reaper and the runner driving it are handed, as read off the info record: `settings["num_batches"]`,
`settings["combos"]`, `settings["cases"]` (a `KeyError` when one was not written), `settings.get("shuffle", False)` -/
def reapArgsOf (info : InfoRec C K A V) (runner : RunnerKind) (labels : Dict V) (parse : Bool) :
    Except PyErr (ReapArgs C K A V) :=
  match info.numBatches, info.combos, info.cases with
  | some nb, some c, some k =>
    .ok { runner := runner, numBatches := nb, combos := c, cases := k, constants := labels,
          shuffle := info.shuffle.getD (some 0), parse := parse }
  | _, _, _ => .error .keyError

/-- the three reap methods by hand: `first` (reap_runner reads the sow-time constants), the ready check, the stand-in
(only with `allow_incomplete`), the info file, `pre` (parsing the labels), gathering under the Reaper with the arguments
read off the info record, labelling, the Reaper's exit check, the clean-up when it resolves to true, `post` -/
def reapSpec (fails : LEff C K A V → Bool) (info : InfoRec C K A V) (cleanUp : Option Bool) (allowIncomplete : Bool)
    (first pre : List (LEff C K A V)) (runner : RunnerKind) (labels : Dict V) (parse : Bool) (post : List (LEff C K A V))
    (trace : List (LEff C K A V)) : List (LEff C K A V) × Option PyErr :=
  thenT (attempt fails (first ++ [.checkReady] ++ (if allowIncomplete then [.allNan] else []) ++ [.loadInfo] ++ pre) trace) fun t =>
    match reapArgsOf info runner labels parse with
    | .error e => (t, some e)
    | .ok args =>
      attempt fails ([.gather args] ++ (if runner = .comboRunnerToDs then [.label] else []) ++ [.reaperExit] ++
        (if Crop.cleanUpResolved cleanUp allowIncomplete then [.deleteAll] else []) ++ post) t

/-- the committed text of `calc_clean_up_default_res` (what the committed texts of the reap methods call) -/
theorem calcCleanUp_default_refines (cleanUp : Option Bool) (allowIncomplete : Bool) :
    Gen.Default.calcCleanUp cleanUp allowIncomplete = .ok (some (Crop.cleanUpResolved cleanUp allowIncomplete), allowIncomplete) := by
  cases cleanUp <;> cases allowIncomplete <;>
    simp [Gen.Default.calcCleanUp, Crop.cleanUpResolved, Gen.cleanUpDefault, Gen.Default.cleanUpDefault]

macro "reap_refine" info:ident cu:ident ai:ident : tactic =>
  `(tactic| (
    simp only [Refine.calcCleanUp_refines, calcCleanUp_default_refines, reapSpec, reapArgsOf, getKey]
    generalize Crop.cleanUpResolved $cu $ai = cur
    obtain ⟨ic, ik, ifa, ibs, inb, irem, ish, ifm, ics⟩ := $info
    cases $ai:ident <;> cases cur <;> cases inb <;> cases ic <;> cases ik <;>
      simp only [thenT_cons, thenT_nil, List.cons_append, List.nil_append, List.append_nil, Bool.not_true, Bool.not_false,
        Bool.false_eq_true, if_true, if_false, ite_true, ite_false, Bool.true_and, Bool.false_and, beq_self_eq_true,
        reduceCtorEq, Option.some.injEq, beq_iff_eq] <;>
      (try simp only [attempt, List.cons_append, List.nil_append, List.append_nil, if_true, if_false, ite_true, ite_false,
        Bool.false_eq_true, reduceCtorEq]) <;>
      first | done | rfl | ((repeat' split) <;> first | rfl | simp_all [attempt, thenT])))

/-- **`reap_combos`, as translated from the source, is `reapSpec`**: no labels, `combo_runner_core` -/
theorem reapCombos_refines (o : LcOps C K A V) (fails) (info : InfoRec C K A V) (wait : Bool) (cleanUp : Option Bool)
    (allowIncomplete : Bool) (sbs snb srem ssh : Option Int) (trace) :
    reapCombosLc o fails info wait cleanUp allowIncomplete sbs snb srem ssh trace
      = reapSpec fails info cleanUp allowIncomplete [] [] .comboRunnerCore [] true [] trace := by
  simp only [Gen.reapCombosLc, Gen.Default.reapCombosLc]
  reap_refine info cleanUp allowIncomplete


/-- **`reap_combos_to_ds`, as translated, is `reapSpec`**: the labels are the constants given (parsed when `parse`) -/
theorem reapCombosToDs_refines (o : LcOps C K A V) (fails) (info : InfoRec C K A V) (wait : Bool) (cleanUp : Option Bool)
    (allowIncomplete : Bool) (sbs snb srem ssh : Option Int) (constants : Dict V) (parse toDf : Bool) (trace) :
    reapCombosToDsLc o fails info wait cleanUp allowIncomplete sbs snb srem ssh constants parse toDf trace
      = reapSpec fails info cleanUp allowIncomplete [] (if parse then [.parse .constants, .parse .attrs] else []) .comboRunnerToDs
          (if parse then o.parseConstants constants else constants) parse [] trace := by
  simp only [Gen.reapCombosToDsLc, Gen.Default.reapCombosToDsLc]
  cases parse <;> reap_refine info cleanUp allowIncomplete

/-- **`reap_runner`, as translated, is `reapSpec`**: the info file is read for the sow-time constants, which are laid
over the runner's own (`{**runner._constants, **sow_constants}`) and label the output unparsed; the data is recorded as
the runner's last result after everything else -/
theorem reapRunner_refines (o : LcOps C K A V) (fails) (info : InfoRec C K A V) (wait : Bool) (cleanUp : Option Bool)
    (allowIncomplete : Bool) (sbs snb srem ssh : Option Int) (rc : Dict V) (toDf : Bool) (trace) :
    reapRunnerLc o fails info wait cleanUp allowIncomplete sbs snb srem ssh rc toDf trace
      = reapSpec fails info cleanUp allowIncomplete [.loadInfo] [] .comboRunnerToDs
          (dictMerge rc (info.constants.getD [])) false [.setLast] trace := by
  simp only [Gen.reapRunnerLc, Gen.Default.reapRunnerLc]
  reap_refine info cleanUp allowIncomplete

end Lc
