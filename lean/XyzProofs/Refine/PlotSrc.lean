import XyzProofs.Props.C17Src
import XyzProofs.Props.C17
/-!
# The translated generator `gen_xy` run on the model's dataset operations is the model's `mkSeries`

`srcOps`: the abstract operations of `Gen.PlotOps` instantiated with `XyzModel/PlotPrep.lean`'s dataset (`View`,
`bdims`, `flat`, `applyMask`).  One iteration of the translated `gen_xy` — sub-dataset selection (positional, `.loc`
fallback), which arrays are taken for x / y / c / y_err / x_err, broadcast + flatten, the finite mask, what is yielded —
equals `mkSeries`, so `c17_points`, `c17_mask_arrays`, `c17_point_kept_iff`, `c17_points_carried` speak about the source.
-/
namespace PlotPrep
open List Gen

/-- a data array of the model: a variable of a view, after `xr.broadcast` with the broadcast dimensions -/
structure Arr where
  vw : View
  bd : Option (List String)
  name : String

def Arr.flat (a : Arr) : List Cell := a.vw.flat (a.bd.getD (a.vw.freeDims a.name)) a.name

/-- the model's dataset as `Gen.PlotOps`; `dimOk z`: positional indexing by `z` works (else `ValueError`, and `.loc`) -/
def srcOps (dimOk : String → Bool) : PlotOps View Arr (List Cell) (List Bool) (Option Cell) (Nat × String) where
  coordValues vw z := (vw.ds.labels z).mapIdx fun i l => (i, l)
  str v := v.2
  isel vw key i := match key with
    | some z => if dimOk z then .ok (vw.sel z i) else .error .valueError
    | none => .error .valueError
  locSel vw key z := match key, z with
    | some k, .coord (i, _) => vw.sel k i
    | _, _ => vw
  getVar vw n := ⟨vw, none, n⟩
  broadcast l := match l with
    | [] => []
    | a :: _ => l.map fun b => { b with bd := some (a.vw.bdims (l.map (·.name))) }
  flatten a := a.flat
  item f := f.head?
  isFinite f := f.map Cell.isFinite
  mand := zipWith (· && ·)
  select f m := applyMask m f
  anyM m := m.any id
  allM m := m.all id
  isEmpty f := f.isEmpty

theorem srcOps_modelCoords (dimOk : String → Bool) (vw : View) : ModelCoords (srcOps dimOk) vw vw.ds :=
  ⟨fun _ => rfl, fun _ => rfl⟩

/-- what `gen_xy` yields for a series of the model: the dict x, y, (c), (ye), (xe) in insertion order -/
def seriesData (s : Series) : List (String × List Cell) :=
  [("x", s.x), ("y", s.y)] ++ (s.c.map fun v => ("c", v)).toList ++ (s.ye.map fun v => ("ye", v)).toList ++
    (s.xe.map fun v => ("xe", v)).toList

def modeOf : Kind → String
  | .lineplot => "lineplot"
  | .scatter => "scatter"
  | .histogram => "histogram"
  | .heatmap => "heatmap"

/-- the colour values `gen_xy` appends to `_c_cols` for a slice (lineplot with `c`) -/
def cColsOf (sv : View) (call : Call) : List (Option Cell) :=
  if call.kind = .lineplot then call.c.toList.map fun c => (sv.flat (sv.freeDims c) c).head? else []

theorem mask_eq (xs ys : List Cell) :
    zipWith (· && ·) (xs.map Cell.isFinite) (ys.map Cell.isFinite) =
      zipWith (fun a b => Gen.maskIsBothFinite a.isFinite b.isFinite) xs ys := by
  simp only [Gen.maskIsBothFinite, Gen.Default.maskIsBothFinite, zipWith_map]

/-- evaluation of one iteration of a translated generator on the model's operations, in stages (unfold the loop, the
operations, the dict operations on literal keys) -/
macro "run_gen" : tactic => `(tactic|
  (simp only [plLoop, plEnumerate, length_cons, length_nil, range_succ, range_zero, nil_append, zip_cons_cons, zip_nil_right,
     foldlM_cons, foldlM_nil]
   simp only [shiftOps, srcOps, PZ.isNone, PZ.key, plTry, bind, Except.bind, pure, Except.pure, Bool.not_false, Bool.not_true,
     if_true, Bool.false_eq_true, if_false, Nat.add_zero, String.reduceBEq, ↓reduceIte, Option.isNone_none, Option.isNone_some,
     Bool.or_false, Bool.or_true, Bool.or_self, throw, throwThe, MonadExceptOf.throw, *]
   simp only [plSet, plGet, plHas, any_nil, any_cons, map_cons, map_nil, Bool.or_false, Bool.false_eq_true, if_false,
     nil_append, cons_append, String.reduceBEq, Bool.or_self, Bool.or_true, if_true, zip_cons_cons, zip_nil_right, foldl_cons,
     foldl_nil, find?_cons, find?_nil, ↓reduceIte]))

/-- the body of one iteration on a selected sub-dataset `sv` with carried variables -/
private theorem carried_body (sv : View) (call : Call) (lab : Option String) (hk : call.kind = .lineplot ∨ call.kind = .scatter) :
    seriesData (mkSeries sv call call.x1 call.y1 true lab) =
      let extra := carriedNames call
      let bd := sv.bdims ([call.x1, call.y1] ++ extra)
      let m := zipWith (· && ·) ((sv.flat bd call.x1).map Cell.isFinite) ((sv.flat bd call.y1).map Cell.isFinite)
      [("x", applyMask m (sv.flat bd call.x1)), ("y", applyMask m (sv.flat bd call.y1))] ++
        ((if call.kind = .scatter then call.c else none).map fun n => ("c", applyMask m (sv.flat bd n))).toList ++
        (call.yErr.map fun n => ("ye", applyMask m (sv.flat bd n))).toList ++
        (call.xErr.map fun n => ("xe", applyMask m (sv.flat bd n))).toList := by
  simp only [seriesData, mkSeries, notNull_mkSeries, mask_eq, if_true]
  rcases hk with hk | hk <;> cases hc : call.c <;> cases hy : call.yErr <;> cases hx : call.xErr <;> simp [hk]

/-- **one iteration of the translated `gen_xy` = `mkSeries`**, z coordinate case: for the `i`-th value of the z coordinate
the generator selects `ds[{z: i}]` (or, when that raises `ValueError`, `ds.loc[{z: value}]`: the same slice), takes x, y and the
carried c (scatter) / y_err / x_err from it, broadcasts, flattens, masks on x and y finite, and yields the masked arrays -/
theorem genxy_coord_refines (dimOk : String → Bool) (vw : View) (call : Call) (z : String) (i : Nat) (l : String)
    (hk : call.kind = .lineplot ∨ call.kind = .scatter) :
    Gen.plGenXY (shiftOps (srcOps dimOk) i) vw [.coord (i, l)] false call.x1 call.y1 (some z) call.c call.yErr call.xErr
        (modeOf call.kind) =
      .ok ([seriesData (mkSeries (vw.sel z i) call call.x1 call.y1 true (some l))], cColsOf (vw.sel z i) call) := by
  rw [carried_body _ _ _ hk]
  rcases hk with hk | hk <;> cases hd : dimOk z <;> cases hc : call.c <;> cases hy : call.yErr <;> cases hx : call.xErr <;>
    (simp only [Gen.plGenXY, Gen.Default.plGenXY, hk, modeOf]
     run_gen
     simp [Arr.flat, carriedNames, cColsOf, hk, hc, hy, hx])

/-- no z coordinate, one variable: the whole dataset is the slice -/
theorem genxy_single_refines (dimOk : String → Bool) (vw : View) (call : Call) (zCoo : Option String) (k : Nat)
    (hk : call.kind = .lineplot ∨ call.kind = .scatter) :
    Gen.plGenXY (shiftOps (srcOps dimOk) k) vw [.none] false call.x1 call.y1 zCoo call.c call.yErr call.xErr
        (modeOf call.kind) =
      .ok ([seriesData (mkSeries vw call call.x1 call.y1 true none)], cColsOf vw call) := by
  rw [carried_body _ _ _ hk]
  rcases hk with hk | hk <;> cases hc : call.c <;> cases hy : call.yErr <;> cases hx : call.xErr <;>
    (simp only [Gen.plGenXY, Gen.Default.plGenXY, hk, modeOf]
     run_gen
     simp [Arr.flat, carriedNames, cColsOf, hk, hc, hy, hx])

/-- several variables: series `n` is x against the variable `n` of the dataset, nothing carried -/
theorem genxy_var_refines (dimOk : String → Bool) (vw : View) (call : Call) (n yCoo mode : String) (zCoo : Option String)
    (k : Nat) :
    Gen.plGenXY (shiftOps (srcOps dimOk) k) vw [.name n] true call.x1 yCoo zCoo none none none mode =
      .ok ([seriesData (mkSeries vw call call.x1 n false (some n))], []) := by
  simp only [Gen.plGenXY, Gen.Default.plGenXY]
  run_gen
  simp [Arr.flat, seriesData, mkSeries, notNull_mkSeries, ← mask_eq, zipWith_map]

/-- several variables together with errors / a colour variable: `ValueError` (translated source, any operations) -/
theorem genxy_var_errors {D A F M C Z : Type} (o : PlotOps D A F M C Z) (ds : D) (z : PZ Z) (zs : List (PZ Z))
    (xCoo yCoo mode : String) (zCoo cCoo yErr xErr : Option String) (h : (yErr.isSome || xErr.isSome || cCoo.isSome) = true) :
    Gen.plGenXY o ds (z :: zs) true xCoo yCoo zCoo cCoo yErr xErr mode = .error .valueError := by
  have h' : (!yErr.isNone || !xErr.isNone || !cCoo.isNone) = true := by
    cases yErr <;> cases xErr <;> cases cCoo <;> simp_all
  simp only [Gen.plGenXY, Gen.Default.plGenXY, plLoop, plEnumerate, length_cons, range_succ_eq_map, zip_cons_cons, map_cons,
    foldlM_cons, bind, Except.bind, if_true, h', throw, throwThe, MonadExceptOf.throw]

theorem applyMask_map_self (p : Cell → Bool) : ∀ l : List Cell, applyMask (l.map p) l = l.filter p
  | [] => by simp [applyMask]
  | a :: l => by
    rw [map_cons, applyMask_cons, applyMask_map_self p l]
    cases h : p a <;> simp [h]

/-- **histogram**: one iteration of the translated `gen_x` yields the finite values of the slice (`.loc` by the z value),
of the variable, or of the whole dataset: the `x` of the model's `prepareHistogram` -/
theorem genx_refines (dimOk : String → Bool) (vw : View) (x1 yCoo mode : String) (c ye xe : Option String) :
    (∀ z i l, Gen.plGenX (srcOps dimOk) vw [.coord (i, l)] false x1 yCoo (some z) c ye xe mode =
      .ok ([[("x", ((vw.sel z i).flat ((vw.sel z i).freeDims x1) x1).filter Cell.isFinite)]], [])) ∧
    (∀ n zCoo, Gen.plGenX (srcOps dimOk) vw [.name n] true x1 yCoo zCoo c ye xe mode =
      .ok ([[("x", (vw.flat (vw.freeDims n) n).filter Cell.isFinite)]], [])) ∧
    (∀ zCoo, Gen.plGenX (srcOps dimOk) vw [.none] false x1 yCoo zCoo c ye xe mode =
      .ok ([[("x", (vw.flat (vw.freeDims x1) x1).filter Cell.isFinite)]], [])) := by
  refine ⟨?_, ?_, ?_⟩ <;> intros <;>
    (simp only [Gen.plGenX, Gen.Default.plGenX]
     simp only [plLoop, plEnumerate, length_cons, length_nil, range_succ, range_zero, nil_append, zip_cons_cons, zip_nil_right,
       foldlM_cons, foldlM_nil, srcOps, PZ.isNone, PZ.key, bind, Except.bind, pure, Except.pure, Bool.not_false, Bool.not_true,
       if_true, Bool.false_eq_true, if_false, ↓reduceIte, nil_append, Arr.flat, Option.getD_none, applyMask_map_self])

/-- **the whole generator on the model's dataset = the model's series** (z coordinate case): run over the values of the z
coordinate, the translated `gen_xy` yields exactly the data of `xySeries` over `prepareZVals`, series by series -/
theorem c17_src_xy_refines (dimOk : String → Bool) (vw : View) (call : Call) (z : String) (hz : call.z = some z)
    (hk : call.kind = .lineplot ∨ call.kind = .scatter) (r : List (List (String × List Cell)) × List (Option Cell))
    (h : Gen.plGenXY (srcOps dimOk) vw (((srcOps dimOk).coordValues vw z).map PZ.coord) false call.x1 call.y1 (some z) call.c
      call.yErr call.xErr (modeOf call.kind) = .ok r) :
    r.1 = (xySeries vw call (prepareZVals vw.ds call)).map seriesData := by
  obtain ⟨hl, hser⟩ := c17_src_genxy_series_per_z _ _ _ _ _ _ _ _ _ _ _ _ h
  have hlen : (((srcOps dimOk).coordValues vw z).map PZ.coord).length = (vw.ds.labels z).length := by simp [srcOps]
  apply ext_getElem?
  intro k
  by_cases hk' : k < (vw.ds.labels z).length
  · obtain ⟨d, cc, h1, h2⟩ := hser k (by omega)
    have hzk : (((srcOps dimOk).coordValues vw z).map PZ.coord)[k]'(by omega) = .coord (k, (vw.ds.labels z)[k]) := by
      simp [srcOps]
    rw [hzk, genxy_coord_refines dimOk vw call z k _ hk] at h1
    simp only [Except.ok.injEq, Prod.mk.injEq, cons.injEq, and_true] at h1
    rw [h2, ← h1.1]
    simp [xySeries, prepareZVals, hz, hk', sliceView, seriesData]
  · rw [getElem?_eq_none (by omega), getElem?_eq_none (by simp [xySeries, prepareZVals, hz]; omega)]

/-! ### Non-vacuity: the translated functions run on the example dataset of `Props/C17.lean` -/

def exOps (ok : Bool) := srcOps fun _ => ok
def exZs : List (PZ (Nat × String)) := ((exOps true).coordValues { ds := exDS } "z").map PZ.coord

def ysOf (r : Except PErr (List (List (String × List Cell)) × List (Option Cell))) : List (List Cell) :=
  match r with
  | .ok r => r.1.map fun d => ((d.find? (·.1 == "y")).map (·.2)).getD []
  | .error _ => [[.nan]]

-- positional selection and the `.loc` fallback give the same three series, the second masked, the third empty
example : ysOf (Gen.plGenXY (exOps true) { ds := exDS } exZs false "x" "y" (some "z") none none none "lineplot") =
    [[.fin 0, .fin 1], [.fin 3], []] := by decide
example : ysOf (Gen.plGenXY (exOps false) { ds := exDS } exZs false "x" "y" (some "z") none none none "lineplot") =
    [[.fin 0, .fin 1], [.fin 3], []] := by decide
-- y_err carried: NaN / inf error values at finite points stay
example : (match Gen.plGenXY (exOps true) { ds := exDSErr } exZs false "x" "y" (some "z") none (some "ye") none "lineplot" with
    | .ok r => r.1.map fun d => ((d.find? (·.1 == "ye")).map (·.2)).getD []
    | .error _ => []) = [[.nan, .fin 11], [.inf false], []] := by decide
-- several variables with an error variable: ValueError
example : (match Gen.plGenXY (exOps true) { ds := exDS } [.name "y"] true "x" "y" none none (some "ye") none "lineplot" with
    | .ok _ => false | .error e => e == .valueError) = true := by decide
-- histogram: the finite values of each slice
example : (match Gen.plGenX (exOps true) { ds := exDS } exZs false "y" "" (some "z") none none none "histogram" with
    | .ok r => r.1.map fun d => d.map (·.2) | .error _ => []) = [[[.fin 0, .fin 1]], [[.fin 3]], [[]]] := by decide
-- z values and labels of the translated preparation
example : (match Gen.plZVals (exOps true) { ds := exDS } (some "z") (.one "y") (.one "x") false "lineplot" with
    | .ok r => some (r.1, r.2.map zOf) | .error _ => none) = some (false, [.coord 0 "a", .coord 1 "b", .coord 2 "c"]) := by decide
example : (match Gen.plZVals (exOps true) { ds := exDS } none (.many ["y", "x"]) (.one "x") false "lineplot" with
    | .ok r => some (r.1, r.2.map zOf) | .error _ => none) = some (true, [.var "y", .var "x"]) := by decide
example : (match Gen.plZLabels (exOps true) none (some "z") false exZs with
    | .ok it => takeLabels 3 it | .error _ => none) = some [some "a", some "b", some "c"] := by decide
example : (match Gen.plZLabels (exOps true) (some ["p", "q", "r"]) (some "z") false exZs with
    | .ok it => takeLabels 3 it | .error _ => none) = some [some "p", some "q", some "r"] := by decide
-- the grid of panels of the translated `calc_row_col_datasets`
example : (Gen.plRowCol (exOps true) { ds := exDS } (some "z") none).map
    (fun g => (g.1.map (·.map (·.map fun p => (p.1, p.2.1))), g.2)) = some ([[[("z", 0)]], [[("z", 1)]], [[("z", 2)]]], 3, 1) := by decide
example : (Gen.plRowCol (exOps true) { ds := exDS } (some "x") (some "z")).map (fun g => g.2) = some (2, 3) := by decide

end PlotPrep
