import XyzProofs.Props.C17Src
/-!
# The translated generator `gen_xy` run on the model's dataset operations is the model's `mkSeries`

`srcOps`: the abstract operations of `Gen.PlotOps` instantiated with `XyzModel/PlotPrep.lean`'s dataset (`View`,
`bdims`, `flat`, `applyMask`).  One iteration of the translated `gen_xy` — sub-dataset selection (positional, `.loc`
fallback), which arrays are taken for x / y / c / y_err / x_err, broadcast + flatten, the finite mask, what is yielded —
equals `mkSeries`, so `c17_points`, `c17_mask_arrays`, `c17_point_kept_iff`, `c17_points_carried` speak about the source.
-/
namespace PlotPrep
open List Gen

/-- a data array of the model: a variable of a view, after `xr.broadcast` with the broadcast dimensions -/
structure Arr where
  vw : View
  bd : Option (List String)
  name : String

def Arr.flat (a : Arr) : List Cell := a.vw.flat (a.bd.getD (a.vw.freeDims a.name)) a.name

/-- the model's dataset as `Gen.PlotOps`; `dimOk z`: positional indexing by `z` works (else `ValueError`, and `.loc`) -/
def srcOps (dimOk : String → Bool) : PlotOps View Arr (List Cell) (List Bool) (Option Cell) (Nat × String) where
  coordValues vw z := (vw.ds.labels z).mapIdx fun i l => (i, l)
  str v := v.2
  isel vw key i := match key with
    | some z => if dimOk z then .ok (vw.sel z i) else .error .valueError
    | none => .error .valueError
  locSel vw key z := match key, z with
    | some k, .coord (i, _) => vw.sel k i
    | _, _ => vw
  getVar vw n := ⟨vw, none, n⟩
  broadcast l := match l with
    | [] => []
    | a :: _ => l.map fun b => { b with bd := some (a.vw.bdims (l.map (·.name))) }
  flatten a := a.flat
  item f := f.head?
  isFinite f := f.map Cell.isFinite
  mand := zipWith (· && ·)
  select f m := applyMask m f
  anyM m := m.any id
  allM m := m.all id
  isEmpty f := f.isEmpty

theorem srcOps_modelCoords (dimOk : String → Bool) (vw : View) : ModelCoords (srcOps dimOk) vw vw.ds :=
  ⟨fun _ => rfl, fun _ => rfl⟩

/-- what `gen_xy` yields for a series of the model: the dict x, y, (c), (ye), (xe) in insertion order -/
def seriesData (s : Series) : List (String × List Cell) :=
  [("x", s.x), ("y", s.y)] ++ (s.c.map fun v => ("c", v)).toList ++ (s.ye.map fun v => ("ye", v)).toList ++
    (s.xe.map fun v => ("xe", v)).toList

def modeOf : Kind → String
  | .lineplot => "lineplot"
  | .scatter => "scatter"
  | .histogram => "histogram"
  | .heatmap => "heatmap"

/-- the colour values `gen_xy` appends to `_c_cols` for a slice (lineplot with `c`) -/
def cColsOf (sv : View) (call : Call) : List (Option Cell) :=
  if call.kind = .lineplot then call.c.toList.map fun c => (sv.flat (sv.freeDims c) c).head? else []

theorem mask_eq (xs ys : List Cell) :
    zipWith (· && ·) (xs.map Cell.isFinite) (ys.map Cell.isFinite) =
      zipWith (fun a b => Gen.maskIsBothFinite a.isFinite b.isFinite) xs ys := by
  simp only [Gen.maskIsBothFinite, Gen.Default.maskIsBothFinite, zipWith_map]

/-- evaluation of one iteration of a translated generator on the model's operations, in stages (unfold the loop, the
operations, the dict operations on literal keys) -/
macro "run_gen" : tactic => `(tactic|
  (simp only [plLoop, plEnumerate, length_cons, length_nil, range_succ, range_zero, nil_append, zip_cons_cons, zip_nil_right,
     foldlM_cons, foldlM_nil]
   simp only [shiftOps, srcOps, PZ.isNone, PZ.key, plTry, bind, Except.bind, pure, Except.pure, Bool.not_false, Bool.not_true,
     if_true, Bool.false_eq_true, if_false, Nat.add_zero, String.reduceBEq, ↓reduceIte, Option.isNone_none, Option.isNone_some,
     Bool.or_false, Bool.or_true, Bool.or_self, throw, throwThe, MonadExceptOf.throw, *]
   simp only [plSet, plGet, plHas, any_nil, any_cons, map_cons, map_nil, Bool.or_false, Bool.false_eq_true, if_false,
     nil_append, cons_append, String.reduceBEq, Bool.or_self, Bool.or_true, if_true, zip_cons_cons, zip_nil_right, foldl_cons,
     foldl_nil, find?_cons, find?_nil, ↓reduceIte]))

/-- the body of one iteration on a selected sub-dataset `sv` with carried variables -/
private theorem carried_body (sv : View) (call : Call) (lab : Option String) (hk : call.kind = .lineplot ∨ call.kind = .scatter) :
    seriesData (mkSeries sv call call.x1 call.y1 true lab) =
      let extra := carriedNames call
      let bd := sv.bdims ([call.x1, call.y1] ++ extra)
      let m := zipWith (· && ·) ((sv.flat bd call.x1).map Cell.isFinite) ((sv.flat bd call.y1).map Cell.isFinite)
      [("x", applyMask m (sv.flat bd call.x1)), ("y", applyMask m (sv.flat bd call.y1))] ++
        ((if call.kind = .scatter then call.c else none).map fun n => ("c", applyMask m (sv.flat bd n))).toList ++
        (call.yErr.map fun n => ("ye", applyMask m (sv.flat bd n))).toList ++
        (call.xErr.map fun n => ("xe", applyMask m (sv.flat bd n))).toList := by
  simp only [seriesData, mkSeries, notNull_mkSeries, mask_eq, if_true]
  rcases hk with hk | hk <;> cases hc : call.c <;> cases hy : call.yErr <;> cases hx : call.xErr <;> simp [hk]

/-- **one iteration of the translated `gen_xy` = `mkSeries`**, z coordinate case: for the `i`-th value of the z coordinate
the generator selects `ds[{z: i}]` (or, when that raises `ValueError`, `ds.loc[{z: value}]`: the same slice), takes x, y and the
carried c (scatter) / y_err / x_err from it, broadcasts, flattens, masks on x and y finite, and yields the masked arrays -/
theorem genxy_coord_refines (dimOk : String → Bool) (vw : View) (call : Call) (z : String) (i : Nat) (l : String)
    (hk : call.kind = .lineplot ∨ call.kind = .scatter) :
    Gen.plGenXY (shiftOps (srcOps dimOk) i) vw [.coord (i, l)] false call.x1 call.y1 (some z) call.c call.yErr call.xErr
        (modeOf call.kind) =
      .ok ([seriesData (mkSeries (vw.sel z i) call call.x1 call.y1 true (some l))], cColsOf (vw.sel z i) call) := by
  rw [carried_body _ _ _ hk]
  rcases hk with hk | hk <;> cases hd : dimOk z <;> cases hc : call.c <;> cases hy : call.yErr <;> cases hx : call.xErr <;>
    (simp only [Gen.plGenXY, Gen.Default.plGenXY, hk, modeOf]
     run_gen
     simp [Arr.flat, carriedNames, cColsOf, hk, hc, hy, hx])

end PlotPrep
