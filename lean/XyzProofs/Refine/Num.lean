import XyzProofs.Lemmas.Stats
import Mathlib.Algebra.Order.Field.Basic
import Mathlib.Data.Rat.Cast.Order
import Mathlib.Tactic.Positivity
import Mathlib.Tactic.Push
/-!
# C19 — the hand-written models `Stats.*` are the translated methods of xyzpy/utils.py

`Gen.rsInit … Gen.rsConverged`, `Gen.rsUpdateFromIt`, `Gen.rc*`, `Gen.estimateFromRepeats` are regenerated from the
source on every run (harness/anchors_numfn.py): whole method bodies over an abstract number type `K`, with `abs`,
`sqrt` (`** 0.5`) and `inf` (`np.inf`) as parameters.

Here `K` is **any ordered field with square roots of non-negative elements** (`hsqrt`; `ℝ` with `Real.sqrt` is one, see
the non-vacuity examples in `Props/C19Src.lean`), the rationals are embedded by `Rat.cast`, and `inf` is *arbitrary*:
every statement holds whatever `np.inf` is taken to be, because the `count == 0` guards never fire after an update.
Exact arithmetic: floating point is not modelled (DESIGN §1, "Honest limits").
-/
namespace Stats
open List

section generic
variable {K : Type} [Field K] [LinearOrder K] [IsStrictOrderedRing K]

/-- the attributes of a `RunningStatistics` object, as the translated methods take them -/
def RS.toK (s : RS) : K × K × K := (((s.count : ℤ) : K), ((s.mean : ℚ) : K), ((s.M2 : ℚ) : K))
/-- the attributes of a `RunningCovariance` object -/
def RC.toK (s : RC) : K × K × K × K :=
  (((s.count : ℤ) : K), ((s.xmean : ℚ) : K), ((s.ymean : ℚ) : K), ((s.C : ℚ) : K))

/-! ### helpers that do not mention the translated definitions -/

theorem foldl_toK (g : K × K × K → K → K × K × K) (hg : ∀ (s : RS) (x : ℚ), g s.toK (x : K) = (s.update x).toK)
    (s : RS) (xs : List ℚ) : (xs.map (Rat.cast : ℚ → K)).foldl g s.toK = (xs.foldl RS.update s).toK := by
  induction xs generalizing s with
  | nil => rfl
  | cons x xs ih => simp only [List.map_cons, List.foldl_cons, hg, ih]

/-- what is assumed of `** 0.5` -/
def IsSqrt (sqrt : K → K) : Prop := ∀ a : K, 0 ≤ a → 0 ≤ sqrt a ∧ sqrt a * sqrt a = a

theorem rat_abs_eq (q : ℚ) : q.abs = |q| := by
  unfold Rat.abs
  split
  · rename_i h; rw [abs_of_nonneg h]
  · rename_i h; rw [abs_of_neg (not_le.mp h)]

theorem lt_iff_sq_lt {t r : K} (ht : 0 ≤ t) : t < r ↔ 0 < r ∧ t * t < r * r := by
  constructor
  · intro h
    have hr : 0 < r := lt_of_le_of_lt ht h
    exact ⟨hr, by nlinarith⟩
  · rintro ⟨hr, h⟩
    by_contra hc
    have : r ≤ t := not_lt.mp hc
    nlinarith

theorem foldl_toK_rc (g : K × K × K × K → K × K → K × K × K × K)
    (hg : ∀ (s : RC) (p : ℚ × ℚ), g s.toK ((p.1 : K), (p.2 : K)) = (s.update p).toK)
    (s : RC) (ps : List (ℚ × ℚ)) :
    (ps.map fun p => (((p.1 : ℚ) : K), ((p.2 : ℚ) : K))).foldl g s.toK = (ps.foldl RC.update s).toK := by
  induction ps generalizing s with
  | nil => rfl
  | cons p ps ih => simp only [List.map_cons, List.foldl_cons, hg, ih]

theorem M2_step_nonneg (n mean M2 x : ℚ) (hn : 0 ≤ n) (hM : 0 ≤ M2) : 0 ≤ Gen.welfordM2 n mean M2 x := by
  simp only [Gen.welfordM2, Gen.Default.welfordM2]
  have hn1 : (0 : ℚ) < n + 1 := by linarith
  have e : (x - mean) * (x - (mean + (x - mean) / (n + 1))) = (x - mean) ^ 2 * (n / (n + 1)) := by
    field_simp; ring
  rw [e]
  positivity

/-- the second moment of a running-statistics object is never negative -/
theorem M2_nonneg (l : List ℚ) : 0 ≤ (run l).M2 := by
  induction l using List.reverseRecOn with
  | nil => simp [run_nil, RS.init]
  | append_singleton l x ih =>
    rw [run_snoc]
    simp only [RS.update]
    apply M2_step_nonneg _ _ _ _ _ ih
    rw [(inv_run l).count]
    positivity

theorem count_run (l : List ℚ) : (run l).count = (l.length : ℤ) := (inv_run l).count

theorem count_run_pre (f : ℕ → ℚ) (n : ℕ) : (run (pre f n)).count = (n : ℤ) := by
  rw [count_run]; simp [pre]

/-- the samples kept for `get="samples"` after `n` iterations -/
def xsOf (gs : Bool) (f : ℕ → ℚ) (n : ℕ) : List K := if gs then (pre f n).map (Rat.cast : ℚ → K) else []

theorem xsOf_succ (gs : Bool) (f : ℕ → ℚ) (n : ℕ) :
    xsOf (K := K) gs f (n + 1) = if gs then xsOf gs f n ++ [((f n : ℚ) : K)] else xsOf gs f n := by
  cases gs <;> simp [xsOf, pre_succ]

/-- the state of the translated loop (number of calls of `fn`, kept samples, the attributes of `rs`) that corresponds
to the model state `r` -/
def loopSt (gs : Bool) (f : ℕ → ℚ) (r : RS) : ℕ × List K × K × K × K :=
  (r.count.toNat, xsOf gs f r.count.toNat, r.toK)

/-- `Gen.forCount` driven by a body that does what one iteration of the model's loop does *is* the model's loop -/
theorem forCount_loop (gs : Bool) (f : ℕ → ℚ) (P : Params) (body : ℤ → ℕ × List K × K × K × K → (ℕ × List K × K × K × K) × Bool)
    (hbody : ∀ n : ℕ, body (n : ℤ) (loopSt gs f (run (pre f n)))
      = (loopSt gs f (run (pre f (n + 1))), stopNow P n (run (pre f (n + 1))))) :
    ∀ (fuel n : ℕ), Gen.forCount body fuel (n : ℤ) (loopSt gs f (run (pre f n)))
      = loopSt gs f (loop f P fuel n (run (pre f n))) := by
  intro fuel
  induction fuel with
  | zero => intro n; rfl
  | succ fuel ih =>
    intro n
    unfold Gen.forCount loop
    simp only [hbody, ← run_pre_succ]
    cases hs : stopNow P n (run (pre f (n + 1)))
    · simp only [Bool.false_eq_true, if_false]
      have := ih (n + 1)
      push_cast at this
      exact this
    · simp only [if_true]

theorem forCount_loop0 (gs : Bool) (f : ℕ → ℚ) (P : Params) (body : ℤ → ℕ × List K × K × K × K → (ℕ × List K × K × K × K) × Bool)
    (hbody : ∀ n : ℕ, body (n : ℤ) (loopSt gs f (run (pre f n)))
      = (loopSt gs f (run (pre f (n + 1))), stopNow P n (run (pre f (n + 1)))))
    (fuel : ℕ) (init : ℕ × List K × K × K × K) (hinit : init = loopSt gs f RS.init) :
    Gen.forCount body fuel 0 init = loopSt gs f (loop f P fuel 0 RS.init) := by
  subst hinit
  exact forCount_loop gs f P body hbody fuel 0

/-- what `estimate_from_repeats` returns for the three `get=` modes, from the model's final state -/
def estResult (gs gm : Bool) (f : ℕ → ℚ) (r : RS) : Gen.EstResult K × ℕ :=
  (if gs then .samples ((r.count : ℤ) : K) (r.mean : K) (r.M2 : K) (xsOf true f r.count.toNat)
   else if gm then .mean (r.mean : K) else .stats ((r.count : ℤ) : K) (r.mean : K) (r.M2 : K), r.count.toNat)

/-! ### the committed last-good definitions (`Gen.Default.*`): the same statements, proved by the same scripts.
A generated definition that falls back *is* its `Gen.Default` twin, and a fallen-back caller calls the `Gen.Default`
callees — so every statement of the next section is proved "by the script, or else by the twin". -/
namespace Dflt

/-- `RunningStatistics.__init__` -/
theorem rsInit_refines : Gen.Default.rsInit (K := K) = RS.init.toK := by
  simp [Gen.Default.rsInit, Gen.rsInit, RS.toK, RS.init]

/-- `RunningStatistics.update`: the translated body is the model's update (which is assembled from the symbolically
executed attribute expressions `Gen.welford*`) -/
theorem rsUpdate_refines (s : RS) (x : ℚ) :
    Gen.Default.rsUpdate ((s.count : ℤ) : K) (s.mean : K) (s.M2 : K) (x : K) = (s.update x).toK := by
  simp only [Gen.Default.rsUpdate, Gen.rsUpdate, RS.toK, RS.update, Gen.welfordCount, Gen.Default.welfordCount,
    Gen.welfordMean, Gen.Default.welfordMean, Gen.welfordM2, Gen.Default.welfordM2]
  push_cast
  simp

/-- `RunningStatistics.update_from_it`: the translated `for x in xs: self.update(x)` is the model's fold -/
theorem rsUpdateFromIt_refines (s : RS) (xs : List ℚ) :
    Gen.Default.rsUpdateFromIt ((s.count : ℤ) : K) (s.mean : K) (s.M2 : K) (xs.map (Rat.cast : ℚ → K)) = (s.updateFromIt xs).toK := by
  have h := foldl_toK (K := K) (fun st p => Gen.Default.rsUpdate st.1 st.2.1 st.2.2 p)
    (fun s x => by simpa only [RS.toK] using rsUpdate_refines (K := K) s x) s xs
  simp only [Gen.Default.rsUpdateFromIt, Gen.rsUpdateFromIt, RS.updateFromIt]
  simpa only [RS.toK] using h

/-- `RunningStatistics.var` of an object that has seen a sample: the guard `count == 0` does not fire and the value is
the model's `var` (whatever `abs`, `sqrt`, `inf` are) -/
theorem rsVar_refines (abs sqrt : K → K) (inf : K) (s : RS) (hc : s.count ≠ 0) :
    Gen.Default.rsVar abs sqrt inf ((s.count : ℤ) : K) (s.mean : K) (s.M2 : K) = ((s.var : ℚ) : K) := by
  have hc' : ((s.count : ℤ) : K) ≠ 0 := by exact_mod_cast hc
  simp only [Gen.Default.rsVar, Gen.rsVar, RS.var, Gen.statVar, Gen.Default.statVar]
  push_cast
  simp [hc']

/-- `var` of a fresh object is `np.inf` -/
theorem rsVar_fresh (abs sqrt : K → K) (inf : K) (mean M2 : K) :
    Gen.Default.rsVar abs sqrt inf 0 mean M2 = inf ∧ Gen.Default.rsStd abs sqrt inf 0 mean M2 = inf ∧
    Gen.Default.rsErr abs sqrt inf 0 mean M2 = inf ∧ Gen.Default.rsRelErr abs sqrt inf 0 mean M2 = inf := by
  simp [Gen.Default.rsVar, Gen.rsVar, Gen.Default.rsStd, Gen.rsStd, Gen.Default.rsErr, Gen.rsErr,
    Gen.Default.rsRelErr, Gen.rsRelErr]

/-- `std`, `err`: squares of the translated values are the model's `var`, `errSq` -/
theorem rsStd_sq (abs sqrt : K → K) (hsqrt : IsSqrt sqrt) (inf : K) (s : RS) (hc : 0 < s.count) (hM : 0 ≤ s.M2) :
    0 ≤ Gen.Default.rsStd abs sqrt inf ((s.count : ℤ) : K) (s.mean : K) (s.M2 : K) ∧
    Gen.Default.rsStd abs sqrt inf ((s.count : ℤ) : K) (s.mean : K) (s.M2 : K) *
      Gen.Default.rsStd abs sqrt inf ((s.count : ℤ) : K) (s.mean : K) (s.M2 : K) = ((s.var : ℚ) : K) := by
  have hc' : ((s.count : ℤ) : K) ≠ 0 := by exact_mod_cast hc.ne'
  have hv := rsVar_refines abs sqrt inf s hc.ne'
  have hvar : (0 : ℚ) ≤ s.var := by
    simp only [RS.var, Gen.statVar, Gen.Default.statVar]
    have : (0 : ℚ) < (s.count : ℚ) := by exact_mod_cast hc
    positivity
  have hvarK : (0 : K) ≤ ((s.var : ℚ) : K) := by exact_mod_cast hvar
  have e : Gen.Default.rsStd abs sqrt inf ((s.count : ℤ) : K) (s.mean : K) (s.M2 : K) = sqrt ((s.var : ℚ) : K) := by
    simp [Gen.Default.rsStd, Gen.rsStd, hv, hc']
  rw [e]
  exact hsqrt _ hvarK

theorem rsErr_sq (abs sqrt : K → K) (hsqrt : IsSqrt sqrt) (inf : K) (s : RS) (hc : 0 < s.count) (hM : 0 ≤ s.M2) :
    0 ≤ Gen.Default.rsErr abs sqrt inf ((s.count : ℤ) : K) (s.mean : K) (s.M2 : K) ∧
    Gen.Default.rsErr abs sqrt inf ((s.count : ℤ) : K) (s.mean : K) (s.M2 : K) *
      Gen.Default.rsErr abs sqrt inf ((s.count : ℤ) : K) (s.mean : K) (s.M2 : K) = ((s.errSq : ℚ) : K) := by
  have hc' : ((s.count : ℤ) : K) ≠ 0 := by exact_mod_cast hc.ne'
  have hcK : (0 : K) < ((s.count : ℤ) : K) := by exact_mod_cast hc
  obtain ⟨h0, hsq⟩ := rsStd_sq abs sqrt hsqrt inf s hc hM
  obtain ⟨hr0, hrsq⟩ := hsqrt _ hcK.le
  have hrpos : 0 < sqrt ((s.count : ℤ) : K) := by
    rcases hr0.lt_or_eq with h | h
    · exact h
    · rw [← h] at hrsq; simp at hrsq; exact absurd hrsq.symm hc'
  have e : Gen.Default.rsErr abs sqrt inf ((s.count : ℤ) : K) (s.mean : K) (s.M2 : K)
      = Gen.Default.rsStd abs sqrt inf ((s.count : ℤ) : K) (s.mean : K) (s.M2 : K) / sqrt ((s.count : ℤ) : K) := by
    simp [Gen.Default.rsErr, Gen.rsErr, hc']
  rw [e]
  refine ⟨div_nonneg h0 hr0, ?_⟩
  rw [div_mul_div_comm, hsq, hrsq]
  simp only [RS.errSq]
  push_cast
  rfl

/-- `RunningStatistics.converged(rtol, atol)`: with *any* exact square root, the translated test
`self.err < rtol * abs(self.mean) + atol` is the model's square-root-free decision -/
theorem rsConverged_refines (sqrt : K → K) (hsqrt : IsSqrt sqrt) (inf : K) (s : RS) (hc : 0 < s.count) (hM : 0 ≤ s.M2)
    (rtol atol : ℚ) :
    Gen.Default.rsConverged (fun a => |a|) sqrt inf ((s.count : ℤ) : K) (s.mean : K) (s.M2 : K) (rtol : K) (atol : K)
      = s.converged rtol atol := by
  obtain ⟨h0, hsq⟩ := rsErr_sq (fun a => |a|) sqrt hsqrt inf s hc hM
  simp only [Gen.Default.rsConverged, Gen.rsConverged, RS.converged, Gen.convRhs, Gen.Default.convRhs, rat_abs_eq]
  have hrhs : ((rtol : ℚ) : K) * |((s.mean : ℚ) : K)| + ((atol : ℚ) : K) = ((rtol * |s.mean| + atol : ℚ) : K) := by
    push_cast; rfl
  rw [hrhs, Bool.eq_iff_iff]
  simp only [decide_eq_true_eq, Bool.and_eq_true]
  rw [lt_iff_sq_lt h0, hsq]
  have e1 : (0 : K) < ((rtol * |s.mean| + atol : ℚ) : K) ↔ (0 : ℚ) < rtol * |s.mean| + atol := by
    exact_mod_cast Iff.rfl
  have e2 : ((s.errSq : ℚ) : K) < ((rtol * |s.mean| + atol : ℚ) : K) * ((rtol * |s.mean| + atol : ℚ) : K)
      ↔ s.errSq < (rtol * |s.mean| + atol) * (rtol * |s.mean| + atol) := by
    rw [← Rat.cast_mul, Rat.cast_lt]
  rw [e1, e2]

theorem rcInit_refines : Gen.Default.rcInit (K := K) = RC.init.toK := by
  simp [Gen.Default.rcInit, Gen.rcInit, RC.toK, RC.init]

/-- `RunningCovariance.update` -/
theorem rcUpdate_refines (s : RC) (x y : ℚ) :
    Gen.Default.rcUpdate ((s.count : ℤ) : K) (s.xmean : K) (s.ymean : K) (s.C : K) (x : K) (y : K) = (s.update (x, y)).toK := by
  simp only [Gen.Default.rcUpdate, Gen.rcUpdate, RC.toK, RC.update, Gen.covCount, Gen.Default.covCount,
    Gen.covXmean, Gen.Default.covXmean, Gen.covYmean, Gen.Default.covYmean, Gen.covC, Gen.Default.covC]
  push_cast
  simp

/-- `RunningCovariance.update_from_it`: the translated `for x, y in zip(xs, ys): self.update(x, y)` is the model's fold -/
theorem rcUpdateFromIt_refines (s : RC) (xs ys : List ℚ) :
    Gen.Default.rcUpdateFromIt ((s.count : ℤ) : K) (s.xmean : K) (s.ymean : K) (s.C : K)
        (xs.map (Rat.cast : ℚ → K)) (ys.map (Rat.cast : ℚ → K)) = (s.updateFromIt (xs.zip ys)).toK := by
  have h := foldl_toK_rc (K := K) (fun st p => Gen.Default.rcUpdate st.1 st.2.1 st.2.2.1 st.2.2.2 p.1 p.2)
    (fun s p => by simpa only [RC.toK] using rcUpdate_refines (K := K) s p.1 p.2) s (xs.zip ys)
  have hz : (xs.map (Rat.cast : ℚ → K)).zip (ys.map (Rat.cast : ℚ → K))
      = (xs.zip ys).map fun p => (((p.1 : ℚ) : K), ((p.2 : ℚ) : K)) := by
    rw [List.zip_map]; rfl
  simp only [Gen.Default.rcUpdateFromIt, Gen.rcUpdateFromIt, RC.updateFromIt, hz]
  simpa only [RC.toK] using h

/-- `RunningCovariance.covar` / `sample_covar` -/
theorem rcCovar_refines (s : RC) :
    Gen.Default.rcCovar ((s.count : ℤ) : K) (s.xmean : K) (s.ymean : K) (s.C : K) = ((s.covar : ℚ) : K) ∧
    Gen.Default.rcSampleCovar ((s.count : ℤ) : K) (s.xmean : K) (s.ymean : K) (s.C : K) = ((s.sampleCovar : ℚ) : K) := by
  simp only [Gen.Default.rcCovar, Gen.rcCovar, Gen.Default.rcSampleCovar, Gen.rcSampleCovar, RC.covar, RC.sampleCovar,
    Gen.covCovar, Gen.Default.covCovar, Gen.covSample, Gen.Default.covSample]
  push_cast
  simp

/-- the translated function with `fuel` iterations allowed is the model's loop with that fuel, then the `get=` modes -/
theorem estimateFromRepeats_loop (sqrt : K → K) (hsqrt : IsSqrt sqrt) (inf : K) (f : ℕ → ℚ) (P : Params)
    (gs gm : Bool) (fuel : ℕ) :
    Gen.Default.estimateFromRepeats (fun a => |a|) sqrt inf (fun n => ((f n : ℚ) : K)) fuel
        (P.rtol : K) (P.tolScale : K) gs gm P.minSamples P.maxSamples
      = estResult gs gm f (loop f P fuel 0 RS.init) := by
  simp only [Gen.Default.estimateFromRepeats, Gen.estimateFromRepeats]
  rw [forCount_loop0 gs f P _ ?_ _ _ ?_]
  · -- after the loop: the `get=` modes
    simp only [estResult, estimate, loopSt, RS.toK, xsOf]
    cases gs <;> cases gm <;> simp
  · -- one iteration
    intro n
    have hst : loopSt (K := K) gs f (run (pre f n)) = (n, xsOf gs f n, (run (pre f n)).toK) := by
      simp [loopSt, count_run_pre]
    have hst' : loopSt (K := K) gs f (run (pre f (n + 1))) = (n + 1, xsOf gs f (n + 1), (run (pre f (n + 1))).toK) := by
      simp [loopSt, count_run_pre]
    have hup := rsUpdate_refines (K := K) (run (pre f n)) (f n)
    rw [← run_pre_succ] at hup
    have hc : 0 < (run (pre f (n + 1))).count := by rw [count_run_pre]; positivity
    have hconv := rsConverged_refines sqrt hsqrt inf (run (pre f (n + 1))) hc (M2_nonneg _) P.rtol (P.tolScale * P.rtol)
    simp only [RS.toK] at hup
    simp only [hst, hst', RS.toK, hup, ← Rat.cast_mul, hconv, xsOf_succ]
    simp only [stopNow, Gen.repCheck, Gen.Default.repCheck, Gen.repHitMax, Gen.Default.repHitMax, Gen.repRtol,
      Gen.Default.repRtol, Gen.repAtol, Gen.Default.repAtol]
    clear hup hconv hst hst'
    -- whatever the spelling and nesting of the source's tests: same state on every path, and the loop breaks iff `stopNow`
    refine Prod.ext ?_ ?_
    · split_ifs <;> rfl
    · cases (run (pre f (n + 1))).converged P.rtol (P.tolScale * P.rtol) <;> split_ifs <;> simp_all <;> omega
  · -- before the loop
    simp [loopSt, xsOf, rsInit_refines, RS.toK, RS.init, pre]

end Dflt

/-! ### the definitions translated from the current source -/

/-- `RunningStatistics.__init__` -/
theorem rsInit_refines : Gen.rsInit (K := K) = RS.init.toK := by
  first
  | (
      simp [Gen.rsInit, Gen.Default.rsInit, RS.toK, RS.init])
  | (apply Dflt.rsInit_refines <;> assumption)

/-- `RunningStatistics.update`: the translated body is the model's update (which is assembled from the symbolically
executed attribute expressions `Gen.welford*`) -/
theorem rsUpdate_refines (s : RS) (x : ℚ) :
    Gen.rsUpdate ((s.count : ℤ) : K) (s.mean : K) (s.M2 : K) (x : K) = (s.update x).toK := by
  first
  | (
      simp only [Gen.rsUpdate, Gen.Default.rsUpdate, RS.toK, RS.update, Gen.welfordCount, Gen.Default.welfordCount,
        Gen.welfordMean, Gen.Default.welfordMean, Gen.welfordM2, Gen.Default.welfordM2]
      push_cast
      simp)
  | (apply Dflt.rsUpdate_refines <;> assumption)

/-- `RunningStatistics.update_from_it`: the translated `for x in xs: self.update(x)` is the model's fold -/
theorem rsUpdateFromIt_refines (s : RS) (xs : List ℚ) :
    Gen.rsUpdateFromIt ((s.count : ℤ) : K) (s.mean : K) (s.M2 : K) (xs.map (Rat.cast : ℚ → K)) = (s.updateFromIt xs).toK := by
  first
  | (
      have h := foldl_toK (K := K) (fun st p => Gen.rsUpdate st.1 st.2.1 st.2.2 p)
        (fun s x => by simpa only [RS.toK] using rsUpdate_refines (K := K) s x) s xs
      simp only [Gen.rsUpdateFromIt, Gen.Default.rsUpdateFromIt, RS.updateFromIt]
      simpa only [RS.toK] using h)
  | (apply Dflt.rsUpdateFromIt_refines <;> assumption)

/-- `RunningStatistics.var` of an object that has seen a sample: the guard `count == 0` does not fire and the value is
the model's `var` (whatever `abs`, `sqrt`, `inf` are) -/
theorem rsVar_refines (abs sqrt : K → K) (inf : K) (s : RS) (hc : s.count ≠ 0) :
    Gen.rsVar abs sqrt inf ((s.count : ℤ) : K) (s.mean : K) (s.M2 : K) = ((s.var : ℚ) : K) := by
  first
  | (
      have hc' : ((s.count : ℤ) : K) ≠ 0 := by exact_mod_cast hc
      simp only [Gen.rsVar, Gen.Default.rsVar, RS.var, Gen.statVar, Gen.Default.statVar]
      push_cast
      simp [hc'])
  | (apply Dflt.rsVar_refines <;> assumption)

/-- `var` of a fresh object is `np.inf` -/
theorem rsVar_fresh (abs sqrt : K → K) (inf : K) (mean M2 : K) :
    Gen.rsVar abs sqrt inf 0 mean M2 = inf ∧ Gen.rsStd abs sqrt inf 0 mean M2 = inf ∧
    Gen.rsErr abs sqrt inf 0 mean M2 = inf ∧ Gen.rsRelErr abs sqrt inf 0 mean M2 = inf := by
  first
  | (
      simp [Gen.rsVar, Gen.Default.rsVar, Gen.rsStd, Gen.Default.rsStd, Gen.rsErr, Gen.Default.rsErr,
        Gen.rsRelErr, Gen.Default.rsRelErr])
  | (apply Dflt.rsVar_fresh <;> assumption)

/-- `std`, `err`: squares of the translated values are the model's `var`, `errSq` -/
theorem rsStd_sq (abs sqrt : K → K) (hsqrt : IsSqrt sqrt) (inf : K) (s : RS) (hc : 0 < s.count) (hM : 0 ≤ s.M2) :
    0 ≤ Gen.rsStd abs sqrt inf ((s.count : ℤ) : K) (s.mean : K) (s.M2 : K) ∧
    Gen.rsStd abs sqrt inf ((s.count : ℤ) : K) (s.mean : K) (s.M2 : K) *
      Gen.rsStd abs sqrt inf ((s.count : ℤ) : K) (s.mean : K) (s.M2 : K) = ((s.var : ℚ) : K) := by
  first
  | (
      have hc' : ((s.count : ℤ) : K) ≠ 0 := by exact_mod_cast hc.ne'
      have hv := rsVar_refines abs sqrt inf s hc.ne'
      have hvar : (0 : ℚ) ≤ s.var := by
        simp only [RS.var, Gen.statVar, Gen.Default.statVar]
        have : (0 : ℚ) < (s.count : ℚ) := by exact_mod_cast hc
        positivity
      have hvarK : (0 : K) ≤ ((s.var : ℚ) : K) := by exact_mod_cast hvar
      have e : Gen.rsStd abs sqrt inf ((s.count : ℤ) : K) (s.mean : K) (s.M2 : K) = sqrt ((s.var : ℚ) : K) := by
        simp [Gen.rsStd, Gen.Default.rsStd, hv, hc']
      rw [e]
      exact hsqrt _ hvarK)
  | (apply Dflt.rsStd_sq <;> assumption)

theorem rsErr_sq (abs sqrt : K → K) (hsqrt : IsSqrt sqrt) (inf : K) (s : RS) (hc : 0 < s.count) (hM : 0 ≤ s.M2) :
    0 ≤ Gen.rsErr abs sqrt inf ((s.count : ℤ) : K) (s.mean : K) (s.M2 : K) ∧
    Gen.rsErr abs sqrt inf ((s.count : ℤ) : K) (s.mean : K) (s.M2 : K) *
      Gen.rsErr abs sqrt inf ((s.count : ℤ) : K) (s.mean : K) (s.M2 : K) = ((s.errSq : ℚ) : K) := by
  first
  | (
      have hc' : ((s.count : ℤ) : K) ≠ 0 := by exact_mod_cast hc.ne'
      have hcK : (0 : K) < ((s.count : ℤ) : K) := by exact_mod_cast hc
      obtain ⟨h0, hsq⟩ := rsStd_sq abs sqrt hsqrt inf s hc hM
      obtain ⟨hr0, hrsq⟩ := hsqrt _ hcK.le
      have hrpos : 0 < sqrt ((s.count : ℤ) : K) := by
        rcases hr0.lt_or_eq with h | h
        · exact h
        · rw [← h] at hrsq; simp at hrsq; exact absurd hrsq.symm hc'
      have e : Gen.rsErr abs sqrt inf ((s.count : ℤ) : K) (s.mean : K) (s.M2 : K)
          = Gen.rsStd abs sqrt inf ((s.count : ℤ) : K) (s.mean : K) (s.M2 : K) / sqrt ((s.count : ℤ) : K) := by
        simp [Gen.rsErr, Gen.Default.rsErr, hc']
      rw [e]
      refine ⟨div_nonneg h0 hr0, ?_⟩
      rw [div_mul_div_comm, hsq, hrsq]
      simp only [RS.errSq]
      push_cast
      rfl)
  | (apply Dflt.rsErr_sq <;> assumption)

/-- `RunningStatistics.converged(rtol, atol)`: with *any* exact square root, the translated test
`self.err < rtol * abs(self.mean) + atol` is the model's square-root-free decision -/
theorem rsConverged_refines (sqrt : K → K) (hsqrt : IsSqrt sqrt) (inf : K) (s : RS) (hc : 0 < s.count) (hM : 0 ≤ s.M2)
    (rtol atol : ℚ) :
    Gen.rsConverged (fun a => |a|) sqrt inf ((s.count : ℤ) : K) (s.mean : K) (s.M2 : K) (rtol : K) (atol : K)
      = s.converged rtol atol := by
  first
  | (
      obtain ⟨h0, hsq⟩ := rsErr_sq (fun a => |a|) sqrt hsqrt inf s hc hM
      simp only [Gen.rsConverged, Gen.Default.rsConverged, RS.converged, Gen.convRhs, Gen.Default.convRhs, rat_abs_eq]
      have hrhs : ((rtol : ℚ) : K) * |((s.mean : ℚ) : K)| + ((atol : ℚ) : K) = ((rtol * |s.mean| + atol : ℚ) : K) := by
        push_cast; rfl
      rw [hrhs, Bool.eq_iff_iff]
      simp only [decide_eq_true_eq, Bool.and_eq_true]
      rw [lt_iff_sq_lt h0, hsq]
      have e1 : (0 : K) < ((rtol * |s.mean| + atol : ℚ) : K) ↔ (0 : ℚ) < rtol * |s.mean| + atol := by
        exact_mod_cast Iff.rfl
      have e2 : ((s.errSq : ℚ) : K) < ((rtol * |s.mean| + atol : ℚ) : K) * ((rtol * |s.mean| + atol : ℚ) : K)
          ↔ s.errSq < (rtol * |s.mean| + atol) * (rtol * |s.mean| + atol) := by
        rw [← Rat.cast_mul, Rat.cast_lt]
      rw [e1, e2])
  | (apply Dflt.rsConverged_refines <;> assumption)

theorem rcInit_refines : Gen.rcInit (K := K) = RC.init.toK := by
  first
  | (
      simp [Gen.rcInit, Gen.Default.rcInit, RC.toK, RC.init])
  | (apply Dflt.rcInit_refines <;> assumption)

/-- `RunningCovariance.update` -/
theorem rcUpdate_refines (s : RC) (x y : ℚ) :
    Gen.rcUpdate ((s.count : ℤ) : K) (s.xmean : K) (s.ymean : K) (s.C : K) (x : K) (y : K) = (s.update (x, y)).toK := by
  first
  | (
      simp only [Gen.rcUpdate, Gen.Default.rcUpdate, RC.toK, RC.update, Gen.covCount, Gen.Default.covCount,
        Gen.covXmean, Gen.Default.covXmean, Gen.covYmean, Gen.Default.covYmean, Gen.covC, Gen.Default.covC]
      push_cast
      simp)
  | (apply Dflt.rcUpdate_refines <;> assumption)

/-- `RunningCovariance.update_from_it`: the translated `for x, y in zip(xs, ys): self.update(x, y)` is the model's fold -/
theorem rcUpdateFromIt_refines (s : RC) (xs ys : List ℚ) :
    Gen.rcUpdateFromIt ((s.count : ℤ) : K) (s.xmean : K) (s.ymean : K) (s.C : K)
        (xs.map (Rat.cast : ℚ → K)) (ys.map (Rat.cast : ℚ → K)) = (s.updateFromIt (xs.zip ys)).toK := by
  first
  | (
      have h := foldl_toK_rc (K := K) (fun st p => Gen.rcUpdate st.1 st.2.1 st.2.2.1 st.2.2.2 p.1 p.2)
        (fun s p => by simpa only [RC.toK] using rcUpdate_refines (K := K) s p.1 p.2) s (xs.zip ys)
      have hz : (xs.map (Rat.cast : ℚ → K)).zip (ys.map (Rat.cast : ℚ → K))
          = (xs.zip ys).map fun p => (((p.1 : ℚ) : K), ((p.2 : ℚ) : K)) := by
        rw [List.zip_map]; rfl
      simp only [Gen.rcUpdateFromIt, Gen.Default.rcUpdateFromIt, RC.updateFromIt, hz]
      simpa only [RC.toK] using h)
  | (apply Dflt.rcUpdateFromIt_refines <;> assumption)

/-- `RunningCovariance.covar` / `sample_covar` -/
theorem rcCovar_refines (s : RC) :
    Gen.rcCovar ((s.count : ℤ) : K) (s.xmean : K) (s.ymean : K) (s.C : K) = ((s.covar : ℚ) : K) ∧
    Gen.rcSampleCovar ((s.count : ℤ) : K) (s.xmean : K) (s.ymean : K) (s.C : K) = ((s.sampleCovar : ℚ) : K) := by
  first
  | (
      simp only [Gen.rcCovar, Gen.Default.rcCovar, Gen.rcSampleCovar, Gen.Default.rcSampleCovar, RC.covar, RC.sampleCovar,
        Gen.covCovar, Gen.Default.covCovar, Gen.covSample, Gen.Default.covSample]
      push_cast
      simp)
  | (apply Dflt.rcCovar_refines <;> assumption)

/-- the translated function with `fuel` iterations allowed is the model's loop with that fuel, then the `get=` modes -/
theorem estimateFromRepeats_loop (sqrt : K → K) (hsqrt : IsSqrt sqrt) (inf : K) (f : ℕ → ℚ) (P : Params)
    (gs gm : Bool) (fuel : ℕ) :
    Gen.estimateFromRepeats (fun a => |a|) sqrt inf (fun n => ((f n : ℚ) : K)) fuel
        (P.rtol : K) (P.tolScale : K) gs gm P.minSamples P.maxSamples
      = estResult gs gm f (loop f P fuel 0 RS.init) := by
  first
  | (
      simp only [Gen.estimateFromRepeats, Gen.Default.estimateFromRepeats]
      rw [forCount_loop0 gs f P _ ?_ _ _ ?_]
      · -- after the loop: the `get=` modes
        simp only [estResult, estimate, loopSt, RS.toK, xsOf]
        cases gs <;> cases gm <;> simp
      · -- one iteration
        intro n
        have hst : loopSt (K := K) gs f (run (pre f n)) = (n, xsOf gs f n, (run (pre f n)).toK) := by
          simp [loopSt, count_run_pre]
        have hst' : loopSt (K := K) gs f (run (pre f (n + 1))) = (n + 1, xsOf gs f (n + 1), (run (pre f (n + 1))).toK) := by
          simp [loopSt, count_run_pre]
        have hup := rsUpdate_refines (K := K) (run (pre f n)) (f n)
        rw [← run_pre_succ] at hup
        have hc : 0 < (run (pre f (n + 1))).count := by rw [count_run_pre]; positivity
        have hconv := rsConverged_refines sqrt hsqrt inf (run (pre f (n + 1))) hc (M2_nonneg _) P.rtol (P.tolScale * P.rtol)
        simp only [RS.toK] at hup
        simp only [hst, hst', RS.toK, hup, ← Rat.cast_mul, hconv, xsOf_succ]
        simp only [stopNow, Gen.repCheck, Gen.Default.repCheck, Gen.repHitMax, Gen.Default.repHitMax, Gen.repRtol,
          Gen.Default.repRtol, Gen.repAtol, Gen.Default.repAtol]
        clear hup hconv hst hst'
        -- whatever the spelling and nesting of the source's tests: same state on every path, and the loop breaks iff `stopNow`
        refine Prod.ext ?_ ?_
        · split_ifs <;> rfl
        · cases (run (pre f (n + 1))).converged P.rtol (P.tolScale * P.rtol) <;> split_ifs <;> simp_all <;> omega
      · -- before the loop
        simp [loopSt, xsOf, rsInit_refines, RS.toK, RS.init, pre])
  | (apply Dflt.estimateFromRepeats_loop <;> assumption)

/-- the fuel is not an artefact: any number of iterations from `max 1 max_samples` on gives the same result -/
theorem loop_fuel (f : ℕ → ℚ) (P : Params) (hmax : 1 ≤ P.maxSamples) (fuel : ℕ) (hf : P.maxSamples.toNat ≤ fuel) :
    loop f P fuel 0 RS.init = estimate f P := by
  have hlast : stops f P (P.maxSamples.toNat - 1) = true := by
    simp only [stops, stopNow, Gen.repHitMax, Gen.Default.repHitMax, Bool.or_eq_true, decide_eq_true_eq]
    right; omega
  obtain ⟨k, _, _, hk, hks, hkb⟩ := loop_first_stop f P fuel 0 (by intro j hj; omega)
    ⟨P.maxSamples.toNat - 1, by omega, by omega, hlast⟩
  obtain ⟨k', _, _, hk', hks', hkb'⟩ := loop_first_stop f P (max 1 P.maxSamples.toNat) 0 (by intro j hj; omega)
    ⟨P.maxSamples.toNat - 1, by omega, by omega, hlast⟩
  have hkk : k = k' := by
    rcases Nat.lt_trichotomy k k' with h | h | h
    · rw [hkb' k h] at hks; exact Bool.noConfusion hks
    · exact h
    · rw [hkb k' h] at hks'; exact Bool.noConfusion hks'
  have e0 : run (pre f 0) = RS.init := rfl
  rw [e0] at hk hk'
  unfold estimate
  rw [hk, hk', hkk]

/-- **refinement**: `Stats.estimate` is the translated `estimate_from_repeats` (every `get=` mode, any exact square root,
whatever `np.inf` stands for) -/
theorem estimateFromRepeats_refines (sqrt : K → K) (hsqrt : IsSqrt sqrt) (inf : K) (f : ℕ → ℚ) (P : Params)
    (gs gm : Bool) :
    Gen.estimateFromRepeats (fun a => |a|) sqrt inf (fun n => ((f n : ℚ) : K)) (max 1 P.maxSamples.toNat)
        (P.rtol : K) (P.tolScale : K) gs gm P.minSamples P.maxSamples
      = estResult gs gm f (estimate f P) :=
  estimateFromRepeats_loop sqrt hsqrt inf f P gs gm _

theorem estimateFromRepeats_refines_fuel (sqrt : K → K) (hsqrt : IsSqrt sqrt) (inf : K) (f : ℕ → ℚ) (P : Params)
    (gs gm : Bool) (hmax : 1 ≤ P.maxSamples) (fuel : ℕ) (hf : P.maxSamples.toNat ≤ fuel) :
    Gen.estimateFromRepeats (fun a => |a|) sqrt inf (fun n => ((f n : ℚ) : K)) fuel
        (P.rtol : K) (P.tolScale : K) gs gm P.minSamples P.maxSamples
      = estResult gs gm f (estimate f P) := by
  rw [estimateFromRepeats_loop sqrt hsqrt inf f P gs gm fuel, loop_fuel f P hmax fuel hf]

end generic
end Stats
