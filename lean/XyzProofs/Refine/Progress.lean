import XyzModel.Crop
/-!
# Progress queries: the hand-written model is the translated source

`Gen.cropIsPrepared`, `Gen.cropCalcProgress`, `Gen.cropIsReadyToReap`, `Gen.cropMissingResults`, `Gen.cropNumSownBatches`,
`Gen.cropNumResults` are the whole bodies of `Crop.is_prepared`, `calc_progress`, `is_ready_to_reap`, `missing_results` and
the properties `num_sown_batches` / `num_results`, translated from the source on every run (harness/anchors_grow.py)
as functions of *directory queries*: does the info file exist, what batch settings does it hold, how many names match
the batch / result glob, is result file `x` a file.  Instantiated with the model's directory they are exactly the
functions the C08 theorems are about (`Crop.calcProgress`, `Crop.isReady`, `Crop.missingResults`).
-/
set_option linter.unusedSimpArgs false
set_option linter.unusedVariables false
namespace Refine
open Crop

variable {β : Type}

/-- the directory queries, answered by the model's directory -/
def qInfoExists (s : St β) : Bool := match s.dir with
  | some d => d.info.isSome
  | none => false
def qInfo (s : St β) (g : Info → Nat) : Option Int := match s.dir with
  | some d => d.info.map (fun i => (g i : Int))
  | none => none
def qBatches (s : St β) : Int := match s.dir with
  | some d => d.batches.length
  | none => 0
def qResults (s : St β) : Int := match s.dir with
  | some d => d.results.length
  | none => 0
def qIsResult (s : St β) : Int → Bool := fun x => decide (0 ≤ x) && hasResult s x.toNat
def oi (o : Option Nat) : Option Int := o.map Int.ofNat

/-- the object's fields as the translated functions see them -/
def objSt (o : Obj) (sown results : Int) : Option Int × Option Int × Option Int × Int × Int :=
  (oi o.bs, oi o.nb, oi o.rem, sown, results)

macro "prog_cases " s:ident : tactic => `(tactic|
  (rcases $s:ident with ⟨o, _ | ⟨_ | info, bs, rs⟩⟩ <;>
    simp [Gen.cropCalcProgress, Gen.Default.cropCalcProgress, Gen.cropIsReadyToReap, Gen.Default.cropIsReadyToReap,
      Gen.cropNumSownBatches, Gen.Default.cropNumSownBatches, Gen.cropNumResults, Gen.Default.cropNumResults,
      Gen.isReady, Gen.Default.isReady, isReady,
      qInfoExists, qInfo, qBatches, qResults, objSt, oi, calcProgress, syncFromDisk] <;>
    try (congr 1 <;> (first | rfl | (apply decide_eq_decide.mpr; omega)))))

/-- `Crop.is_prepared` answers "the info file exists" — and looks at no other path -/
theorem isPrepared_refines (s : St β) (other : Bool) (nOther : Int) (isB : Int → Bool) (a b : Int) :
    Gen.cropIsPrepared (qInfoExists s) other (qInfo s (·.bs)) (qInfo s (·.nb)) (qInfo s (·.rem)) (qBatches s) (qResults s)
      nOther (qIsResult s) isB (oi s.obj.bs) (oi s.obj.nb) (oi s.obj.rem) a b = .ok (qInfoExists s) := by
  simp [Gen.cropIsPrepared, Gen.Default.cropIsPrepared]

/-- `Crop.calc_progress` is `Crop.calcProgress`: syncs the object from the info file and counts the names matching the
batch glob and the result glob (each its own); `-1, -1` for a crop that is not prepared -/
theorem calcProgress_refines (s : St β) (other : Bool) (nOther : Int) (isB : Int → Bool) (a b : Int) :
    Gen.cropCalcProgress (qInfoExists s) other (qInfo s (·.bs)) (qInfo s (·.nb)) (qInfo s (·.rem)) (qBatches s) (qResults s)
      nOther (qIsResult s) isB (oi s.obj.bs) (oi s.obj.nb) (oi s.obj.rem) a b
      = .ok (objSt (calcProgress s).1.obj (calcProgress s).2.sown (calcProgress s).2.results) := by
  prog_cases s

/-- `Crop.is_ready_to_reap` is `Crop.isReady`: the object is synced the same way and the answer is the same Boolean -/
theorem isReadyToReap_refines (s : St β) (other : Bool) (nOther : Int) (isB : Int → Bool) (a b : Int) :
    Gen.cropIsReadyToReap (qInfoExists s) other (qInfo s (·.bs)) (qInfo s (·.nb)) (qInfo s (·.rem)) (qBatches s) (qResults s)
      nOther (qIsResult s) isB (oi s.obj.bs) (oi s.obj.nb) (oi s.obj.rem) a b
      = .ok ((isReady s).2, objSt (isReady s).1.obj (calcProgress s).2.sown (calcProgress s).2.results) := by
  prog_cases s
  -- a body that tests "no results" first (an early return / a guard) leaves an `if` on the list of results
  all_goals (
    split
    · next h => subst h; simp
    · next h =>
      have hpos := List.length_pos_iff.mpr h
      simp [hpos] <;> (first | rfl | (apply decide_eq_decide.mpr; omega)))

/-- the properties `num_sown_batches` / `num_results` are the two counts of `Crop.calcProgress` -/
theorem numSownBatches_refines (s : St β) (other : Bool) (nOther : Int) (isB : Int → Bool) (a b : Int) :
    Gen.cropNumSownBatches (qInfoExists s) other (qInfo s (·.bs)) (qInfo s (·.nb)) (qInfo s (·.rem)) (qBatches s) (qResults s)
      nOther (qIsResult s) isB (oi s.obj.bs) (oi s.obj.nb) (oi s.obj.rem) a b
      = .ok ((calcProgress s).2.sown, objSt (calcProgress s).1.obj (calcProgress s).2.sown (calcProgress s).2.results) := by
  prog_cases s

theorem numResults_refines (s : St β) (other : Bool) (nOther : Int) (isB : Int → Bool) (a b : Int) :
    Gen.cropNumResults (qInfoExists s) other (qInfo s (·.bs)) (qInfo s (·.nb)) (qInfo s (·.rem)) (qBatches s) (qResults s)
      nOther (qIsResult s) isB (oi s.obj.bs) (oi s.obj.nb) (oi s.obj.rem) a b
      = .ok ((calcProgress s).2.results, objSt (calcProgress s).1.obj (calcProgress s).2.sown (calcProgress s).2.results) := by
  prog_cases s

/-- Python's `range(1, nb + 1)` filtered by "result file x is not a file" is the model's list of missing ids -/
theorem missing_list (s : St β) (nb : Nat) :
    (Gen.rangeInt 1 ((nb : Int) + 1)).filter (fun x => !(qIsResult s x))
      = (((List.range nb).map (· + 1)).filter (fun i => !hasResult s i)).map Int.ofNat := by
  have h : (((nb : Int) + 1) - 1).toNat = nb := by omega
  simp only [Gen.rangeInt, h, List.filter_map, List.map_map]
  congr 1
  · funext k
    simp only [Function.comp, Int.ofNat_eq_natCast]
    omega
  · apply List.filter_congr
    intro k _
    simp only [Function.comp, qIsResult]
    have h0 : (0 : Int) ≤ 1 + (k : Int) := by omega
    have h1 : (1 + (k : Int)).toNat = k + 1 := by omega
    simp [h0, h1]

theorem hasResult_calcProgress (s : St β) (i : Nat) : hasResult (calcProgress s).1 i = hasResult s i := by
  rcases s with ⟨o, _ | ⟨_ | info, bs, rs⟩⟩ <;> simp [calcProgress, syncFromDisk, hasResult]

/-- `Crop.missing_results` is `Crop.missingResults`: the ids `1..num_batches` (as synced from the info file) without a
result file, in increasing order; `TypeError` when `num_batches` is not known -/
theorem missingResults_refines (s : St β) (other : Bool) (nOther : Int) (isB : Int → Bool) (a b : Int) :
    Gen.cropMissingResults (qInfoExists s) other (qInfo s (·.bs)) (qInfo s (·.nb)) (qInfo s (·.rem)) (qBatches s) (qResults s)
      nOther (qIsResult s) isB (oi s.obj.bs) (oi s.obj.nb) (oi s.obj.rem) a b
      = match (missingResults s).2 with
        | .ok ms => .ok (ms.map Int.ofNat,
            objSt (missingResults s).1.obj (calcProgress s).2.sown (calcProgress s).2.results)
        | .error _ => .error .typeError := by
  have hml := fun nb => missing_list s nb
  rcases s with ⟨⟨obs, _ | onb, orem, osh⟩, _ | ⟨_ | info, bs, rs⟩⟩ <;>
    simp [Gen.cropMissingResults, Gen.Default.cropMissingResults, missingResults,
      qInfoExists, qInfo, qBatches, qResults, objSt, oi, calcProgress, syncFromDisk] <;>
    (try (first | exact hml _ | (rw [hml]; simp [hasResult]) | (simp only [hml]; simp [hasResult])))

/-- `Crop.grow(batch_ids)` hands exactly the given ids (a bare int as a one-element tuple), in the given order, each
with this crop, to the module-level `grow` -/
theorem cropGrowIds_spec (isInt : Bool) (single : Int) (many : List Int) :
    Gen.cropGrowIds isInt single many = if isInt then [single] else many := by
  cases isInt <;> simp [Gen.cropGrowIds, Gen.Default.cropGrowIds]

/-- `Crop.grow_missing()` grows exactly what `missing_results()` lists -/
theorem growMissingIds_spec (ms : List Int) : Gen.growMissingIds ms = ms := by
  simp [Gen.growMissingIds, Gen.Default.growMissingIds]

/-! Non-vacuity: three batches sown, batch 2 grown -/
example : Gen.cropMissingResults true false (some 1) (some 3) (some 0) 3 1 0 (fun x => x == 2) (fun _ => true)
    none none none 0 0 = .ok ([1, 3], some 1, some 3, some 0, 3, 1) := by
  simp [Gen.cropMissingResults, Gen.Default.cropMissingResults]; decide
example : Gen.cropIsReadyToReap true false (some 1) (some 3) (some 0) 3 3 0 (fun _ => true) (fun _ => true)
    none none none 0 0 = .ok (true, some 1, some 3, some 0, 3, 3) := by
  simp [Gen.cropIsReadyToReap, Gen.Default.cropIsReadyToReap]
example : Gen.cropIsReadyToReap false false none none none 0 0 0 (fun _ => false) (fun _ => false)
    none none none 0 0 = .ok (false, none, none, none, -1, -1) := by
  simp [Gen.cropIsReadyToReap, Gen.Default.cropIsReadyToReap]

end Refine
