import XyzProofs.Refine.Core
import XyzModel.ToDs
import XyzModel.Gen.Extracted
/-!
# Argument forwarding of the labelled entry points — theorems on the records translated from the source

`Gen.flowRunnerInit`, `Gen.flowRunCombos`, `Gen.flowRunCases`, `Gen.flowLabel`, `Gen.flowHarvestCombos`,
`Gen.flowHarvestCases`, `Gen.flowGenCases`, `Gen.flowSampleCombos`, `Gen.flowComboToDs`, `Gen.flowCaseToDs` are regenerated
from xyzpy/gen/farming.py, combo_runner.py, case_runner.py on every run (harness/pyflow2lean.py, harness/anchors_flow.py):
for each entry point, which stored description / per-call argument reaches which parameter of which callee, and what the
body writes to objects that outlive the call.

Proved here, on those records:
* every entry point forwards ALL descriptions, none dropped, none swapped (`*_forwards`, `chain_*`: decidable tables,
  insensitive to the order of keyword arguments, to positional vs keyword spelling and to local names);
* per-run constants win over stored ones, the stored dict is not changed, nothing lingers for the next run
  (`run_constants_*`, `run_keeps_descriptions`, `run_twice_constants`);
* `run_cases` zips tuple cases with exactly the per-call `fn_args` when given, else with the runner's (`run_cases_fn_args`);
* `sample_combos` hands `run_cases` the keys of the very dict the values were drawn from, which is the defaults updated
  with the per-call combos (`sample_combos_flow`, `keys_update`).
-/
set_option linter.unusedSimpArgs false
set_option linter.unusedVariables false
namespace Forwarding
open Gen CoreRefine

/-! ## vocabulary on the records -/

/-- simplify under the assumption that the test `c` came out as `b` -/
def assume (c : FlowE) (b : Bool) : FlowE → FlowE
  | .ite c' t e => if c' = c then (if b then assume c b t else assume c b e)
                   else .ite (assume c b c') (assume c b t) (assume c b e)
  | .attr e n => .attr (assume c b e) n
  | .item e k => .item (assume c b e) k
  | .merge x y => .merge (assume c b x) (assume c b y)
  | .ap f x => .ap (assume c b f) (assume c b x)
  | .kw n e => .kw n (assume c b e)
  | e => e

/-- the callee's parameters replaced by what a caller hands over (`σ n = none`: not given, the callee's default) -/
def subst (σ : String → Option FlowE) : FlowE → FlowE
  | .param n => (σ n).getD (.param n)
  | .ite c t e => .ite (subst σ c) (subst σ t) (subst σ e)
  | .attr e n => .attr (subst σ e) n
  | .item e k => .item (subst σ e) k
  | .merge x y => .merge (subst σ x) (subst σ y)
  | .ap f x => .ap (subst σ f) (subst σ x)
  | .kw n e => .kw n (subst σ e)
  | e => e

/-- conditionals on a literal flag are decided -/
def norm : FlowE → FlowE
  | .ite c t e =>
    match norm c with
    | .lit "False" => norm e
    | .lit "True" => norm t
    | c' => .ite c' (norm t) (norm e)
  | .attr e n => .attr (norm e) n
  | .item e k => .item (norm e) k
  | .merge x y => .merge (norm x) (norm y)
  | .ap f x => .ap (norm f) (norm x)
  | .kw n e => .kw n (norm e)
  | e => e

def arg (c : FlowCall) (k : String) : Option FlowE := c.kws.lookup k

/-- the call hands over exactly the keyword arguments `expected` (in any order), nothing positionally left unnamed -/
def forwards (c : FlowCall) (expected : List (String × FlowE)) : Bool :=
  c.pos.isEmpty && c.kws.length == expected.length && expected.all fun p => decide (c.kws.lookup p.1 = some p.2)

def callUnder (t : FlowE) (b : Bool) (c : FlowCall) : FlowCall :=
  { c with kws := c.kws.map fun p => (p.1, assume t b p.2), pos := c.pos.map (assume t b), splat := c.splat.map (assume t b) }

/-- what a callee's argument is in terms of the CALLER's stored descriptions and parameters -/
def through (caller callee : FlowCall) (k : String) : Option FlowE :=
  (arg callee k).map fun e => norm (subst (arg caller) e)

/-- the attribute `a` of the object after the path, as a term over the state and the arguments on entry -/
def storedAfter (p : FlowPath) (a : String) : FlowE := (p.writes.lookup (.stored a)).getD (.stored a)

/-- only the attribute `a` is written, and no object handed in by the caller is changed -/
def writesOnly (p : FlowPath) (a : String) : Bool := p.writes.all fun w => decide (w.1 = .stored a)

theorem storedAfter_of_writesOnly (p : FlowPath) (a b : String) (h : writesOnly p a = true) (hb : b ≠ a) :
    storedAfter p b = .stored b := by
  unfold storedAfter
  have : p.writes.lookup (FlowE.stored b) = none := by
    rw [List.lookup_eq_none_iff]
    intro w hw
    have := (List.all_eq_true.mp h) w hw
    simp only [decide_eq_true_eq] at this
    simp [this, hb]
  rw [this]; rfl

/-! ## dicts as association lists: the value of a dict-valued term -/
section dicts
variable {V : Type}

/-- functions that hand back the content of a dict(-like) argument unchanged: `dict(x)` and the normaliser `dictify`
under its four names -/
def contentKeeping : List String := ["dict", "dictify", "parse_constants", "parse_resources", "parse_attrs", "parse_var_coords"]

/-- the association list a term denotes: `st a` the stored dict `self.<a>`, `pr n` the dict given as parameter `n`
(`[]` for an empty tuple / `None` where the source tests for it: `isNone n`) -/
def evalDict (st pr : String → List (String × V)) (isNone : String → Bool) : FlowE → Option (List (String × V))
  | .stored a => some (st a)
  | .param n => some (pr n)
  | .lit s => if s = "{}" ∨ s = "()" then some [] else none
  | .merge a b =>
    match evalDict st pr isNone a, evalDict st pr isNone b with
    | some x, some y => some (Py.dictUpdate x y)
    | _, _ => none
  | .ap (.fn f) x => if f ∈ contentKeeping then evalDict st pr isNone x else none
  | .ite (.ap (.fn "is None") (.param n)) t e => if isNone n then evalDict st pr isNone t else evalDict st pr isNone e
  | _ => none

theorem update_nil (d : List (String × V)) : Py.dictUpdate d [] = d := rfl

theorem get_update_notin (e d : List (String × V)) (k : String) (h : k ∉ e.map Prod.fst) :
    Py.dictGet (Py.dictUpdate d e) k = Py.dictGet d k := by
  unfold Py.dictUpdate
  induction e generalizing d with
  | nil => rfl
  | cons x t ih =>
    simp only [List.map_cons, List.mem_cons, not_or] at h
    rw [List.foldl_cons, ih _ h.2, get_set]
    simp [h.1]

/-- **the later dict wins**: a key of `e` (keys distinct, as in a dict) has `e`'s value after `d.update(e)` / `{**d, **e}` -/
theorem get_update_mem (e d : List (String × V)) (k : String) (v : V) (hnd : (e.map Prod.fst).Nodup) (h : (k, v) ∈ e) :
    Py.dictGet (Py.dictUpdate d e) k = some v := by
  unfold Py.dictUpdate
  induction e generalizing d with
  | nil => cases h
  | cons x t ih =>
    simp only [List.map_cons, List.nodup_cons] at hnd
    rw [List.foldl_cons]
    rcases List.mem_cons.mp h with h | h
    · subst h
      have := get_update_notin t (Py.dictSet d k v) k hnd.1
      unfold Py.dictUpdate at this
      rw [this, get_set]; simp
    · exact ih _ hnd.2 h

theorem keys_set (d : List (String × V)) (k : String) (v : V) :
    (Py.dictSet d k v).map Prod.fst = if k ∈ d.map Prod.fst then d.map Prod.fst else d.map Prod.fst ++ [k] := by
  unfold Py.dictSet
  by_cases h : k ∈ d.map Prod.fst
  · have hany : d.any (fun e => e.1 == k) = true := by
      obtain ⟨x, hx, rfl⟩ := List.mem_map.mp h
      exact List.any_eq_true.mpr ⟨x, hx, by simp⟩
    rw [if_pos hany, if_pos h, List.map_map]
    apply List.map_congr_left
    intro x _
    by_cases hx : x.1 = k <;> simp [hx]
  · have hany : ¬ d.any (fun e => e.1 == k) = true := by
      intro hh
      obtain ⟨x, hx, hk⟩ := List.any_eq_true.mp hh
      exact h (List.mem_map.mpr ⟨x, hx, by simpa using hk⟩)
    rw [if_neg hany, if_neg h]; simp

/-- **key order of `{**d, **e}`**: the keys of `d` in their order, then the keys of `e` that are new, in `e`'s order -/
theorem keys_update (d e : List (String × V)) :
    (Py.dictUpdate d e).map Prod.fst = e.foldl (fun ks x => if x.1 ∈ ks then ks else ks ++ [x.1]) (d.map Prod.fst) := by
  unfold Py.dictUpdate
  induction e generalizing d with
  | nil => rfl
  | cons x t ih => rw [List.foldl_cons, List.foldl_cons, ih, keys_set]

/-- the keys of the first dict keep their places -/
theorem keys_update_prefix (d e : List (String × V)) : d.map Prod.fst <+: (Py.dictUpdate d e).map Prod.fst := by
  rw [keys_update]
  generalize d.map Prod.fst = ks
  induction e generalizing ks with
  | nil => exact List.prefix_refl _
  | cons x t ih =>
    rw [List.foldl_cons]
    by_cases h : x.1 ∈ ks
    · rw [if_pos h]; exact ih ks
    · rw [if_neg h]; exact (List.prefix_append ks [x.1]).trans (ih _)

end dicts

/-- the `i`-th recorded call / path of a record (a dummy when there is none: every theorem also states the counts) -/
def call (F : Flow) (i : Nat) : FlowCall := F.calls.getD i ⟨.lit "<none>", [], [], [], []⟩
def path (F : Flow) (i : Nat) : FlowPath := F.paths.getD i ⟨[], .lit "<none>", []⟩
def argD (c : FlowCall) (k : String) : FlowE := (arg c k).getD (.lit "<none>")
/-- the name of the function at the head of an application -/
def headFn : FlowE → String
  | .ap f _ => headFn f
  | .fn s => s
  | _ => ""

/-! ## `Runner.__init__`: which parser fills which stored description -/

def initTable : List (String × FlowE) :=
  [("fn", .param "fn"),
   ("_var_names", .ap (.fn "parse_var_names") (.param "var_names")),
   ("_fn_args", .ap (.ap (.fn "parse_fn_args") (.param "fn")) (.param "fn_args")),
   ("_var_dims", .ap (.ap (.fn "parse_var_dims") (.param "var_dims")) (.ap (.fn "parse_var_names") (.param "var_names"))),
   ("_var_coords", .ap (.fn "parse_var_coords") (.param "var_coords")),
   ("_constants", .ap (.fn "parse_constants") (.param "constants")),
   ("_resources", .ap (.fn "parse_resources") (.param "resources")),
   ("_attrs", .ap (.fn "parse_attrs") (.param "attrs")),
   ("default_runner_settings", .param "default_runner_settings")]

/-- **`Runner.__init__`**: each description is stored under its own name, parsed by its own parser (the dimensions
against the parsed variable names); no call is made and no argument object is changed -/
theorem runner_init_stores :
    Gen.flowRunnerInit.calls = [] ∧ Gen.flowRunnerInit.paths.length = 1 ∧
    (initTable.all fun e => decide (storedAfter (path Gen.flowRunnerInit 0) e.1 = e.2)) = true ∧
    ((path Gen.flowRunnerInit 0).writes.all fun w => match w.1 with | .stored _ => true | _ => false) = true := by
  decide

/-! ## `Runner.run_combos` / `run_cases` -/

/-- the stored descriptions as the runner methods must hand them on (constants are treated apart: merged per run) -/
def descTable : List (String × FlowE) :=
  [("fn", .stored "fn"), ("var_names", .stored "_var_names"), ("var_dims", .stored "_var_dims"),
   ("var_coords", .stored "_var_coords"), ("resources", .stored "_resources"), ("attrs", .stored "_attrs"),
   ("parse", .lit "False")]

def runnerSplat : List FlowE := [.merge (.stored "default_runner_settings") (.param "runner_settings")]

/-- the `fn_args` in force in `run_cases`: the per-call ones, the runner's when none are given -/
def fnArgsInForce : FlowE := .ite (.ap (.fn "is None") (.param "fn_args")) (.stored "_fn_args") (.param "fn_args")

/-- **`run_combos` forwards every stored description** to `combo_runner_to_ds` under its own keyword, with
`parse=False`, the parsed combos, the per-run settings over the default ones; `constants` is the only other keyword -/
theorem run_combos_forwards :
    Gen.flowRunCombos.calls.length = 1 ∧
    let c := call Gen.flowRunCombos 0
    c.callee = .fn "combo_runner_to_ds" ∧ c.cond = [] ∧ c.splat = runnerSplat ∧
      forwards c (descTable ++ [("combos", .ap (.fn "parse_combos") (.param "combos")),
                                ("constants", argD c "constants")]) = true := by
  decide

/-- **`run_cases` forwards every stored description** to `case_runner_to_ds`, together with the `fn_args` in force and
the cases parsed against those same `fn_args` -/
theorem run_cases_forwards :
    Gen.flowRunCases.calls.length = 1 ∧
    let c := call Gen.flowRunCases 0
    c.callee = .fn "case_runner_to_ds" ∧ c.cond = [] ∧ c.splat = runnerSplat ∧
      forwards c (descTable ++ [("fn_args", fnArgsInForce),
        ("cases", .ap (.ap (.fn "parse_cases") (.param "cases")) fnArgsInForce), ("constants", argD c "constants")]) = true := by
  decide

/-- **`run_cases` with explicit `fn_args` zips with exactly those** (and hands exactly those on); with none given, the
runner's own -/
theorem run_cases_fn_args :
    let c := call Gen.flowRunCases 0
    let isNone : FlowE := .ap (.fn "is None") (.param "fn_args")
    (arg c "fn_args").map (assume isNone false) = some (.param "fn_args") ∧
    (arg c "cases").map (assume isNone false) = some (.ap (.ap (.fn "parse_cases") (.param "cases")) (.param "fn_args")) ∧
    (arg c "fn_args").map (assume isNone true) = some (.stored "_fn_args") ∧
    (arg c "cases").map (assume isNone true) = some (.ap (.ap (.fn "parse_cases") (.param "cases")) (.stored "_fn_args")) := by
  decide

section constants
variable {V : Type}

/-- **per-run constants win**: the `constants` handed on by `run_combos` / `run_cases` are the stored ones updated with
the per-run ones — whatever way the source spells the merge (see `per_run_wins` for what that means key by key) -/
theorem run_combos_constants (st pr : String → List (String × V)) (isNone : String → Bool) :
    (arg (call Gen.flowRunCombos 0) "constants").bind (evalDict st pr isNone)
      = some (Py.dictUpdate (st "_constants") (pr "constants")) := by
  simp [call, arg, List.lookup, Gen.flowRunCombos, Gen.Default.flowRunCombos, evalDict, contentKeeping]

theorem run_cases_constants (st pr : String → List (String × V)) (isNone : String → Bool) :
    (arg (call Gen.flowRunCases 0) "constants").bind (evalDict st pr isNone)
      = some (Py.dictUpdate (st "_constants") (pr "constants")) := by
  simp [call, arg, List.lookup, Gen.flowRunCases, Gen.Default.flowRunCases, evalDict, contentKeeping]

/-- a per-run constant has the per-run value, a name given only at construction keeps the stored value -/
theorem per_run_wins (stored perRun : List (String × V)) (hnd : (perRun.map Prod.fst).Nodup) (k : String) :
    (∀ v, (k, v) ∈ perRun → Py.dictGet (Py.dictUpdate stored perRun) k = some v) ∧
    (k ∉ perRun.map Prod.fst → Py.dictGet (Py.dictUpdate stored perRun) k = Py.dictGet stored k) :=
  ⟨fun v h => get_update_mem perRun stored k v hnd h, get_update_notin perRun stored k⟩

/-- **the run leaves the Runner's descriptions alone**: the only thing either method writes is `_last_ds`; in particular
the stored constants dict is not changed in place, nor is any object handed in by the caller -/
theorem run_keeps_descriptions :
    Gen.flowRunCombos.paths.length = 1 ∧ writesOnly (path Gen.flowRunCombos 0) "_last_ds" = true ∧
    Gen.flowRunCases.paths.length = 1 ∧ writesOnly (path Gen.flowRunCases 0) "_last_ds" = true := by
  decide

/-- the dict-valued attribute `a` after the path (`st a` when the path does not write it) -/
def stateAfter (p : FlowPath) (st pr : String → List (String × V)) (isNone : String → Bool) (a : String) :
    List (String × V) :=
  (evalDict st pr isNone (storedAfter p a)).getD (st a)

theorem stateAfter_of_writesOnly (p : FlowPath) (st pr : String → List (String × V)) (isNone : String → Bool)
    (h : writesOnly p "_last_ds" = true) (a : String) (ha : a ≠ "_last_ds") : stateAfter p st pr isNone a = st a := by
  unfold stateAfter
  rw [storedAfter_of_writesOnly p "_last_ds" a h ha]; rfl

/-- **nothing lingers**: two consecutive runs of the same Runner, the first with any per-run constants, the second
with none: the second run's function is handed exactly the constants the Runner was built with -/
theorem run_twice_constants (st pr1 pr2 : String → List (String × V)) (isNone : String → Bool)
    (h2 : pr2 "constants" = []) :
    (arg (call Gen.flowRunCombos 0) "constants").bind
        (evalDict (stateAfter (path Gen.flowRunCombos 0) st pr1 isNone) pr2 isNone) = some (st "_constants") ∧
    (arg (call Gen.flowRunCases 0) "constants").bind
        (evalDict (stateAfter (path Gen.flowRunCases 0) st pr1 isNone) pr2 isNone) = some (st "_constants") := by
  obtain ⟨_, hw1, _, hw2⟩ := run_keeps_descriptions
  rw [run_combos_constants, run_cases_constants, h2, update_nil, update_nil,
    stateAfter_of_writesOnly _ st pr1 isNone hw1 _ (by decide), stateAfter_of_writesOnly _ st pr1 isNone hw2 _ (by decide)]
  exact ⟨rfl, rfl⟩

end constants

/-! ## `label`, `Harvester.harvest_*`, `Sampler.sample_combos` -/

def labelTable : List (String × FlowE) :=
  ["fn", "var_names", "fn_args", "var_dims", "var_coords", "constants", "resources", "attrs"].map fun n => (n, .param n)

/-- **`label(...)(fn)`** builds the Runner from the decorator's arguments, each under its own name, and wraps THAT
runner as a Harvester / Sampler when asked -/
theorem label_forwards :
    Gen.flowLabel.calls.length = 3 ∧
    let r := call Gen.flowLabel 0; let h := call Gen.flowLabel 1; let s := call Gen.flowLabel 2
    r.callee = .fn "Runner" ∧ r.cond = [] ∧ forwards r labelTable = true ∧ r.splat = [.param "default_runner_settings"] ∧
      h.callee = .fn "Harvester" ∧ h.cond = [(.param "harvester", true)] ∧ arg h "runner" = some (.ret 0) ∧
      s.callee = .fn "Sampler" ∧ s.cond = [(.param "sampler", true)] ∧
      (arg s "runner").map (assume (.param "harvester") false) = some (.ret 0) := by
  decide

def addDsTable : List (String × FlowE) :=
  [("new_ds", .ret 0), ("sync", .param "sync"), ("overwrite", .param "overwrite"), ("chunks", .param "chunks"),
   ("engine", .param "engine")]

/-- **`harvest_combos` / `harvest_cases`** run through the runner's own `run_combos` / `run_cases` (so every stored
description is forwarded by `run_*_forwards`), with all the caller's runner settings, and merge what THAT run returned -/
theorem harvest_forwards :
    Gen.flowHarvestCombos.calls.length = 2 ∧ Gen.flowHarvestCases.calls.length = 2 ∧
    let r := call Gen.flowHarvestCombos 0; let a := call Gen.flowHarvestCombos 1
    let r' := call Gen.flowHarvestCases 0; let a' := call Gen.flowHarvestCases 1
    r.callee = .attr (.stored "runner") "run_combos" ∧ r.cond = [] ∧ r.pos = [] ∧ r.kws.map Prod.fst = ["combos"] ∧
      r.splat = [.param "runner_settings"] ∧ a.cond = [] ∧ forwards a addDsTable = true ∧
    r'.callee = .attr (.stored "runner") "run_cases" ∧ r'.cond = [] ∧ r'.pos = [] ∧ r'.kws = [("cases", .param "cases")] ∧
      r'.splat = [.param "runner_settings"] ∧ a'.cond = [] ∧ forwards a' addDsTable = true := by
  decide

/-- the combos a Sampler draws from: the defaults updated with the per-call ones -/
def samplerCombos : FlowE :=
  .merge (.stored "default_combos") (.ite (.ap (.fn "is None") (.param "combos")) (.lit "{}") (.ap (.fn "dict") (.param "combos")))

/-- **`gen_cases_fnargs`** returns the keys of the merged combos and rows drawn from that same dict -/
theorem gen_cases_flow :
    Gen.flowGenCases.paths.length = 1 ∧ Gen.flowGenCases.calls = [] ∧
    let p := path Gen.flowGenCases 0
    p.writes = [] ∧
      p.ret = .ap (.ap (.fn "tuple") (.ap (.fn "tuple") (.attr samplerCombos "keys")))
                (.ap (.fn "tuple") (.ap (.ap (.fn (headFn (match p.ret with | .ap _ (.ap _ x) => x | _ => .lit ""))) (.param "n")) samplerCombos)) := by
  decide

/-- **`sample_combos`** hands `run_cases` the drawn rows together with, as `fn_args`, the keys of the very dict the rows
were drawn from (in that dict's order), asks for a DataFrame, passes every per-call setting on, records what that
run returned as `last_df` and appends it; the defaults are not changed -/
theorem sample_combos_flow :
    Gen.flowSampleCombos.calls.length = 2 ∧ Gen.flowSampleCombos.paths.length = 1 ∧
    let r := call Gen.flowSampleCombos 0; let a := call Gen.flowSampleCombos 1; let p := path Gen.flowSampleCombos 0
    r.callee = .attr (.stored "runner") "run_cases" ∧ r.cond = [] ∧ r.splat = [.param "case_runner_settings"] ∧
      forwards r [("fn_args", .ap (.fn "tuple") (.attr samplerCombos "keys")),
                  ("cases", .ap (.fn "tuple") (.ap (.ap (.fn (headFn (match argD r "cases" with | .ap _ x => x | _ => .lit ""))) (.param "n")) samplerCombos)),
                  ("to_df", .lit "True")] = true ∧
      forwards a [("new_df", .ret 0), ("engine", .param "engine")] = true ∧
      p.ret = .ret 0 ∧ writesOnly p "_last_df" = true ∧ storedAfter p "_last_df" = .ret 0 := by
  decide

/-- the dict the Sampler draws from, as an association list: per-call combos win, the keys of the defaults come first in
their own order, then the new ones (`keys_update`) -/
theorem samplerCombos_value {V : Type} (st pr : String → List (String × V)) (isNone : String → Bool)
    (hn : isNone "combos" = true → pr "combos" = []) :
    evalDict st pr isNone samplerCombos = some (Py.dictUpdate (st "default_combos") (pr "combos")) := by
  cases h : isNone "combos"
  · simp [samplerCombos, evalDict, contentKeeping, h]
  · simp [samplerCombos, evalDict, contentKeeping, h, hn h, update_nil]

/-! ## `combo_runner_to_ds` / `case_runner_to_ds` -/

/-- the `info` dict `combo_runner_to_ds` creates: handed to the core run, read afterwards -/
def infoDict (cases : FlowE) : FlowE := .ite (.ap (.ap (.fn "or") cases) (.param "to_df")) (.lit "{}") (.lit "None")

def sameName (ns : List String) : List (String × FlowE) := ns.map fun n => (n, .param n)

/-- **`combo_runner_to_ds(parse=False)`**: the core run gets the function, combos, cases, shuffle and executor options
as given, `flat = to_df`, the `info` dict, and as constants the resources updated with the constants (constants win);
the DataFrame labelling (iff `to_df`) gets the core run's results, the settings the core run left in THAT `info` dict,
attrs / resources / var_names as given; the Dataset labelling (otherwise) gets the core run's results and var_names /
var_dims / var_coords / constants (without the resources) / attrs as given -/
theorem combo_to_ds_forwards :
    Gen.flowComboToDs.calls.length = 3 ∧
    let core := callUnder (.param "parse") false (call Gen.flowComboToDs 0)
    let df := callUnder (.param "parse") false (call Gen.flowComboToDs 1)
    let ds := callUnder (.param "parse") false (call Gen.flowComboToDs 2)
    core.callee = .fn "combo_runner_core" ∧ core.cond = [] ∧ core.splat = [] ∧
      forwards core (sameName ["fn", "combos", "cases", "shuffle", "parallel", "num_workers", "executor", "verbosity"] ++
        [("constants", .merge (.param "resources") (.param "constants")), ("flat", .param "to_df"),
         ("info", infoDict (.param "cases")), ("split", argD core "split")]) = true ∧
      df.callee = .fn "results_to_df" ∧ df.cond = [(.param "to_df", true)] ∧
      forwards df (sameName ["attrs", "resources", "var_names"] ++
        [("results_linear", .ret 0), ("settings", .item (infoDict (.param "cases")) "settings")]) = true ∧
      ds.callee = .fn "results_to_ds" ∧ ds.cond = [(.param "to_df", false)] ∧
      forwards ds (sameName ["var_names", "var_dims", "var_coords", "constants", "attrs"] ++
        [("results", .ret 0), ("combos", argD ds "combos")]) = true := by
  decide

/-- with `parse=True` every description goes through its own parser first -/
theorem combo_to_ds_parses :
    let core := callUnder (.param "parse") true (call Gen.flowComboToDs 0)
    let df := callUnder (.param "parse") true (call Gen.flowComboToDs 1)
    let ds := callUnder (.param "parse") true (call Gen.flowComboToDs 2)
    arg core "constants" = some (.merge (.ap (.fn "parse_resources") (.param "resources"))
                                          (.ap (.fn "parse_constants") (.param "constants"))) ∧
      arg ds "constants" = some (.ap (.fn "parse_constants") (.param "constants")) ∧
      arg ds "var_names" = some (.ap (.fn "parse_var_names") (.param "var_names")) ∧
      arg ds "var_coords" = some (.ap (.fn "parse_var_coords") (.param "var_coords")) ∧
      arg df "resources" = some (.ap (.fn "parse_resources") (.param "resources")) ∧
      arg df "var_names" = some (.ap (.fn "parse_var_names") (.param "var_names")) := by
  decide

/-- **`case_runner_to_ds(parse=False)`** hands everything on to `combo_runner_to_ds` under the same names, with
`parse=False` -/
theorem case_to_ds_forwards :
    Gen.flowCaseToDs.calls.length = 1 ∧
    let c := callUnder (.param "parse") false (call Gen.flowCaseToDs 0)
    c.callee = .fn "combo_runner_to_ds" ∧ c.cond = [] ∧ c.splat = [] ∧
      forwards c (sameName ["fn", "combos", "var_names", "var_dims", "var_coords", "cases", "constants", "resources", "attrs",
        "shuffle", "to_df", "parallel", "num_workers", "executor", "verbosity"] ++ [("parse", .lit "False")]) = true := by
  decide

/-! ## end to end: from the Runner's stored descriptions to the labelling -/

/-- **`Runner.run_combos` → `combo_runner_to_ds` → `results_to_ds` / `results_to_df` / the swept function**: the Dataset
is labelled with the Runner's own var_names / var_dims / var_coords / attrs and the merged constants; the function is
called with the stored resources updated with the merged constants; the DataFrame gets the stored attrs / resources /
var_names — none dropped, none swapped -/
theorem chain_run_combos :
    let c := call Gen.flowRunCombos 0
    let core := call Gen.flowComboToDs 0; let df := call Gen.flowComboToDs 1; let ds := call Gen.flowComboToDs 2
    let k := argD c "constants"
    through c ds "var_names" = some (.stored "_var_names") ∧ through c ds "var_dims" = some (.stored "_var_dims") ∧
      through c ds "var_coords" = some (.stored "_var_coords") ∧ through c ds "attrs" = some (.stored "_attrs") ∧
      through c ds "constants" = some k ∧
      through c core "constants" = some (.merge (.stored "_resources") k) ∧ through c core "fn" = some (.stored "fn") ∧
      through c df "attrs" = some (.stored "_attrs") ∧ through c df "resources" = some (.stored "_resources") ∧
      through c df "var_names" = some (.stored "_var_names") := by
  decide

/-- two hops: the argument of the innermost callee in terms of the outermost caller's state and parameters -/
def through2 (caller mid callee : FlowCall) (k : String) : Option FlowE :=
  (arg callee k).map fun e => norm (subst (through caller mid) e)

/-- the same through `run_cases` → `case_runner_to_ds` → `combo_runner_to_ds` → the labelling / the swept function -/
theorem chain_run_cases :
    let c := call Gen.flowRunCases 0
    let m := call Gen.flowCaseToDs 0
    let core := call Gen.flowComboToDs 0; let df := call Gen.flowComboToDs 1; let ds := call Gen.flowComboToDs 2
    let k := argD c "constants"
    through c m "parse" = some (.lit "False") ∧ through c m "fn_args" = none ∧
      through2 c m ds "var_names" = some (.stored "_var_names") ∧ through2 c m ds "var_dims" = some (.stored "_var_dims") ∧
      through2 c m ds "var_coords" = some (.stored "_var_coords") ∧ through2 c m ds "attrs" = some (.stored "_attrs") ∧
      through2 c m ds "constants" = some k ∧
      through2 c m core "constants" = some (.merge (.stored "_resources") k) ∧ through2 c m core "fn" = some (.stored "fn") ∧
      through2 c m core "cases" = some (argD c "cases") ∧
      through2 c m df "attrs" = some (.stored "_attrs") ∧ through2 c m df "resources" = some (.stored "_resources") ∧
      through2 c m df "var_names" = some (.stored "_var_names") := by
  decide

/-! Non-vacuity -/
example : (Gen.flowRunCombos.calls.map (·.kws.length)) = [9] := by decide
example : arg (call Gen.flowRunCases 0) "var_coords" = some (.stored "_var_coords") := by decide
example : evalDict (V := Nat) (fun a => if a = "_constants" then [("a", 1), ("b", 2)] else [])
    (fun n => if n = "constants" then [("b", 5), ("c", 7)] else []) (fun _ => false)
    (.merge (.stored "_constants") (.ap (.fn "dict") (.param "constants"))) = some [("a", 1), ("b", 5), ("c", 7)] := by decide
example : Py.dictGet (Py.dictUpdate [("a", 1), ("b", 2)] [("b", 5), ("c", 7)]) "b" = some 5 := by decide
example : (Py.dictUpdate [("x", 1), ("y", 2)] [("z", 0), ("x", 9)]).map Prod.fst = ["x", "y", "z"] := by decide
example : assume (.ap (.fn "is None") (.param "fn_args")) false fnArgsInForce = .param "fn_args" := by decide
example : norm (subst (fun n => if n = "parse" then some (.lit "False") else none)
    (.ite (.param "parse") (.ap (.fn "parse_attrs") (.param "attrs")) (.param "attrs"))) = .param "attrs" := by decide

end Forwarding
