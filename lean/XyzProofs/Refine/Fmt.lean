import XyzProofs.Lemmas.Fmt
import XyzProofs.Lemmas.FmtTotal
/-!
# C20 — the hand-written model `Fmt.format` is the translated body of `format_number_with_error`

`Gen.fmtNumberWithError` is the whole body of the function in xyzpy/utils.py, translated statement by statement on every
run (harness/anchors_numfn.py): the exponent rule, the hide rule *with its branch structure*, which values are rescaled and
by which powers of ten, the suffix, the mantissa / exponent split, the digit count, and the shape of the returned
f-string.  Floats are an opaque type and their decimal formatting is a set of named abstract operations (parameters
`sciSplit intOf dropDot ltAbsDiv scale`).

Here the operations are instantiated with the model's primitives (`Src.*`), for an input `i : Inp`:
* floats are *names* (`V`): `x`, `err`, and what `scale` makes of them — the name records the total power of ten, so that
  `x / 10**head / 10**(x_exponent - head)` is the datum `i.axs` exactly when the two exponents add up to the function's
  own `x_exponent` (an edit of either exponent changes the name, and the proof below fails);
* `f"{v:.{p}e}".split("e")` is `Fmt.sci (value of v) p` (mantissa digits as an integer, decimal exponent);
* `err < abs(x / 10)` is the datum `i.lt` — for these operands and this divisor only;
* the returned f-string is read back into the structured `Out` by `outOf` (shape `digits(mm)` or `digits(mm)e±kk`).
-/
namespace Fmt
namespace Src

/-- the floats the function handles, by name -/
inductive V where
  | x | err
  | sx (e : ℤ)      -- `x / 10**a / 10**b`, `a + b = e`
  | serr (e : ℤ)    -- `err / 10**a / 10**b`
deriving DecidableEq

def scale : V → ℤ → ℤ → V
  | .x, a, b => .sx (a + b)
  | .err, a, b => .serr (a + b)
  | .sx e, a, b => .sx (e + a + b)
  | .serr e, a, b => .serr (e + a + b)

/-- the exact absolute value of a named float: scaled by the function's own exponent it is the datum handed to the model
(`axs`, `errs`: the floats Python computes), scaled by anything else the exact quotient -/
def val (i : Inp) : V → ℚ
  | .x => i.ax
  | .err => i.err
  | .sx e => if kOf i = some e then i.axs else i.ax / pow10 e
  | .serr e => if kOf i = some e then i.errs else i.err / pow10 e

/-- does the printed number carry the sign of `x`? -/
def negOf (i : Inp) : V → Bool
  | .x => i.neg
  | .sx _ => i.neg
  | _ => false

/-- `f"{v:.{p}e}".split("e")`: (mantissa digits as an integer, decimal exponent); `0.0…e+00` for zero -/
def sciSplit (i : Inp) (v : V) (p : ℕ) : ℤ × ℤ :=
  if val i v = 0 then (0, 0) else (sci (val i v) p).getD (0, 0)

/-- `a < abs(b / n)`: the float comparison is a datum for `err < abs(x / 10)`; exact otherwise -/
def ltAbsDiv (i : Inp) (a b : V) (n : ℤ) : Bool :=
  if a = .err ∧ b = .x ∧ n = 10 then i.lt else decide (val i a < val i b / (n : ℚ))

/-- the translated function on the model's primitives -/
def pieces (i : Inp) : List (Gen.Piece V ℕ) :=
  Gen.fmtNumberWithError (sciSplit i) id Int.toNat (ltAbsDiv i) scale .x .err

/-- reading the returned f-string: `{v:.{d}f}({m})` optionally followed by `e{k:+03d}` -/
def outOf (i : Inp) : List (Gen.Piece V ℕ) → Option Out
  | [.fixed v d, .lit .lparen, .str m, .lit .rparen] =>
      some { neg := negOf i v, n := (fixed (val i v) d.toNat).toNat, d := d.toNat, m := m, k := none }
  | [.fixed v d, .lit .lparen, .str m, .lit .rparen, .lit .e, .intP03 k] =>
      some { neg := negOf i v, n := (fixed (val i v) d.toNat).toNat, d := d.toNat, m := m, k := some k }
  | _ => none

/-- `format_number_with_error` as translated from the source, on the model's primitives -/
def format (i : Inp) : Option Out := outOf i (pieces i)

end Src

open Src in
/-- **refinement**: for every value, every positive error and positive rescaled error, the hand-written model is the
translated source -/
theorem format_refines (i : Inp) (herr : 0 < i.err) (hax : 0 ≤ i.ax) (herrs : 0 < i.errs) :
    Src.format i = format i := by
  obtain ⟨m6, e6, hse⟩ := sci_total herr 6
  -- the decimal exponent of x
  have hxe : ∃ xe, expOf i.ax = some xe ∧ (sciSplit i .x 6).2 = xe := by
    unfold expOf sciSplit val
    by_cases h0 : i.ax = 0
    · exact ⟨0, by simp [h0], by simp [h0]⟩
    · obtain ⟨mx, ex, hsx⟩ := sci_total (lt_of_le_of_ne hax (Ne.symm h0)) 6
      exact ⟨ex, by simp [h0, hsx], by simp [h0, hsx]⟩
  obtain ⟨xe, hxe1, hxe2⟩ := hxe
  have hee : (sciSplit i .err 6).2 = e6 := by
    simp [sciSplit, val, herr.ne', hse]
  have hk : kOf i = some (Gen.fmtExp xe e6) := by
    simp [kOf, hxe1, hse]
  unfold Src.format pieces
  simp only [Gen.fmtNumberWithError, Gen.Default.fmtNumberWithError, id, hxe2, hee]
  simp only [Gen.fmtExp, Gen.Default.fmtExp] at hk
  generalize max xe (e6 + 1) = k at hk ⊢
  have hlt : ltAbsDiv i V.err V.x 10 = i.lt := by simp [ltAbsDiv]
  have hadd : ∀ a : ℤ, a + (k - a) = k := by intro a; omega
  rw [hlt]
  by_cases hh : hide i k = true
  · -- the exponent is hidden: x and err are formatted as they are
    have hc := hh
    simp only [hide, Gen.fmtHide, Gen.Default.fmtHide] at hc
    obtain ⟨m, E, hs⟩ := sci_total herr 1
    have hss : sciSplit i V.err 1 = (m, E) := by simp [sciSplit, val, herr.ne', hs]
    first
    | (simp [Fmt.format, hk, shownErr, shownX, hh, hc, hs, hss, outOf, val, negOf, Gen.fmtDigits, Gen.Default.fmtDigits]; done)
    | -- a body that decides the rule by nested tests (if / elif / else) repeats the formatting in every branch
      (by_cases h0 : k = 0 <;> by_cases hm1 : k = -1 <;> by_cases h1 : k = 1 <;> cases hl : i.lt <;>
        simp_all [Fmt.format, shownErr, shownX, outOf, val, negOf, Gen.fmtDigits, Gen.Default.fmtDigits] <;> (try omega))
  · -- the exponent is shown: both are rescaled by 10**k, in two steps
    have hh : hide i k = false := by simpa using hh
    have hc := hh
    simp only [hide, Gen.fmtHide, Gen.Default.fmtHide] at hc
    obtain ⟨m, E, hs⟩ := sci_total herrs 1
    have hss : sciSplit i (V.serr k) 1 = (m, E) := by simp [sciSplit, val, hk, herrs.ne', hs]
    first
    | (simp [Fmt.format, hk, shownErr, shownX, hh, hc, hs, hss, outOf, val, negOf, scale, hadd, Gen.fmtDigits,
        Gen.Default.fmtDigits]; done)
    | (by_cases h0 : k = 0 <;> by_cases hm1 : k = -1 <;> by_cases h1 : k = 1 <;> cases hl : i.lt <;>
        simp_all [Fmt.format, shownErr, shownX, outOf, val, negOf, scale, Gen.fmtDigits, Gen.Default.fmtDigits] <;>
        (try omega))
end Fmt
