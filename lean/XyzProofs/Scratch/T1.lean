import XyzProofs.Refine.PlotSrc
namespace PlotPrep
open List Gen
set_option maxHeartbeats 400000 in
example (dimOk : String → Bool) (vw : View) (x1 y1 : String) (z : String) (i : Nat) (l : String) (hd : dimOk z = true) (c : String) :
    Gen.plGenXY (shiftOps (srcOps dimOk) i) vw [.coord (i, l)] false x1 y1 (some z) none (some c) none
        "lineplot" = .ok ([], []) := by
  simp only [Gen.plGenXY, Gen.Default.plGenXY]
  simp only [plLoop, plEnumerate, length_cons, length_nil, range_succ, range_zero, nil_append, zip_cons_cons, zip_nil_right, foldlM_cons, foldlM_nil]
  simp only [shiftOps, srcOps, hd, PZ.isNone, plTry, bind, Except.bind, pure, Except.pure, Bool.not_false, if_true, Bool.false_eq_true, if_false, Nat.add_zero]
  simp only [plSet, plGet, plHas, any_nil, any_cons, map_cons, map_nil, Bool.or_false, Bool.false_eq_true, if_false, nil_append, cons_append, String.reduceBEq, Bool.or_self, Bool.or_true, Bool.true_or, if_true, zip_cons_cons, zip_nil_right, foldl_cons, foldl_nil, find?_cons, find?_nil]
  trace_state
  sorry
