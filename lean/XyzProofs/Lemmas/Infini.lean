import Mathlib.Tactic.Linarith
import Mathlib.Tactic.FieldSimp
import Mathlib.Tactic.Ring
import XyzProofs.Lemmas.PlotPrep
import XyzModel.Infini
/-! Helper lemmas for `Infini` (C18). Property theorems are in `Props/C18.lean`. -/
namespace Infini
open List PlotPrep

variable {α β : Type}

/-- a `filterMap` whose results remember their argument: the arguments of the results are the filtered inputs -/
theorem filterMap_map_key (f : α → Option β) (g : β → α) (h : ∀ a b, f a = some b → g b = a) (l : List α) :
    (l.filterMap f).map g = l.filter fun a => (f a).isSome := by
  induction l with
  | nil => rfl
  | cons a l ih =>
    simp only [filterMap_cons, filter_cons]
    cases hf : f a with
    | none => simpa using ih
    | some b => simp [ih, h a b hf]

theorem mem_filterMap_key (f : α → Option β) (l : List α) (b : β) :
    b ∈ l.filterMap f ↔ ∃ a ∈ l, f a = some b := by
  simp [mem_filterMap]

theorem posOf_lt (n : String) (mds : List MDim) (p : Nat) (h : posOf n mds = some p) : p < mds.length := by
  induction mds generalizing p with
  | nil => simp [posOf] at h
  | cons md rest ih =>
    simp only [posOf] at h
    split at h
    · cases h; simp
    · cases hr : posOf n rest with
      | none => simp [hr] at h
      | some q =>
        simp only [hr, Option.map_some, Option.some.injEq] at h
        subst h
        simpa using ih q hr

/-- a choice enumerated for the iterated dimensions picks an existing entry of each of them -/
theorem choice_bound (mds : List MDim) (ch : List Nat) (h : ch ∈ choicesOf mds) (p : Nat) (hp : p < mds.length) :
    ch.getD p 0 < (mds.map (·.entries.length)).getD p 0 := by
  obtain ⟨hl, hb⟩ := (mem_prod _ ch).mp h
  have hp' : p < (mds.map (·.entries.length)).length := by simpa using hp
  have hpc : p < ch.length := by rw [hl]; exact hp'
  have := hb p hpc hp'
  simpa [getD_eq_getElem?_getD, getElem?_eq_getElem hpc, getElem?_eq_getElem hp'] using this

theorem nodup_choicesOf (mds : List MDim) : (choicesOf mds).Nodup := nodup_prod _

/-- double counting: summing over bins the number of values in the bin = summing over values the number of bins
holding the value -/
theorem sum_filter_length_comm {γ δ : Type} (p : γ → δ → Bool) (bs : List γ) (vs : List δ) :
    (bs.map fun b => (vs.filter (p b)).length).sum = (vs.map fun v => (bs.filter fun b => p b v).length).sum := by
  induction vs with
  | nil =>
    simp only [filter_nil, length_nil, map_nil, sum_nil]
    induction bs with
    | nil => rfl
    | cons b bs ihb => simpa using ihb
  | cons v vs ih =>
    simp only [filter_cons, map_cons, sum_cons]
    rw [← ih]
    clear ih
    induction bs with
    | nil => simp
    | cons b bs ihb =>
      simp only [map_cons, sum_cons, filter_cons]
      cases p b v <;> simp [ihb] <;> omega

/-! ### lemmas and specification-level definitions used by the property theorems -/

theorem lineOf_some (f : Final) (ch : List Nat) (l : Line) (h : f.lineOf ch = some l) :
    l.loc = ch ∧ (f.mask ch).any id = true ∧
    l.i = (f.propIdx "row" ch).getD 0 ∧ l.j = (f.propIdx "col" ch).getD 0 ∧ l.style = f.style ch ∧
    l.x = (if f.req.join then applyMask (f.mask ch) f.sliceX else f.sliceX) ∧
    l.y = (if f.req.join then applyMask (f.mask ch) (f.sliceY ch) else f.sliceY ch) := by
  by_cases hm : (f.mask ch).any id = true
  · simp only [Final.lineOf, hm, if_true, Option.some.injEq] at h
    subst h
    exact ⟨rfl, hm, rfl, rfl, rfl, rfl, rfl⟩
  · simp [Final.lineOf, hm] at h

theorem lineOf_isSome (f : Final) (ch : List Nat) : (f.lineOf ch).isSome = (f.mask ch).any id := by
  by_cases hm : (f.mask ch).any id = true
  · simp [Final.lineOf, hm]
  · simp only [Bool.not_eq_true] at hm
    simp [Final.lineOf, hm]

/-- a slice "has data" iff at some x position its value is not null (and x is not null) -/
theorem mask_any_iff (f : Final) (ch : List Nat) :
    (f.mask ch).any id = true ↔
      ∃ k, k < f.st.ds.size f.req.x ∧ (f.valueAt ch [(f.req.x, k)]).notNull = true ∧
        notNan (f.st.ds.cell f.req.x [(f.req.x, k)]) = true := by
  simp only [Final.mask, Final.sliceY, Final.sliceX, zipWith_map, zipWith_self, any_map, any_eq_true, mem_range,
    Function.comp, id, Gen.infMaskBothNotNull, Gen.Default.infMaskBothNotNull, Bool.and_eq_true]

theorem length_filter_beq_of_nodup {α : Type} [BEq α] [LawfulBEq α] (l : List α) (a : α) (h : l.Nodup) (ha : a ∈ l) :
    (l.filter (fun b => b == a)).length = 1 := by
  induction l with
  | nil => simp at ha
  | cons x xs ih =>
    have hx := (nodup_cons.mp h)
    rw [filter_cons]
    by_cases hxa : x = a
    · subst hxa
      have : xs.filter (fun b => b == x) = [] := by
        apply filter_eq_nil_iff.mpr
        intro b hb hbe
        exact hx.1 (by rw [← (beq_iff_eq.mp hbe)]; exact hb)
      simp [this]
    · have hmem : a ∈ xs := by
        rcases mem_cons.mp ha with h' | h'
        · exact absurd h'.symm hxa
        · exact h'
      simp [hxa, ih hx.2 hmem]

theorem propIdx_lt (f : Final) (prop : String) (ch : List Nat) (h : ch ∈ f.choices) :
    (f.propIdx prop ch).getD 0 < f.propSize prop := by
  unfold Final.propIdx Final.propSize
  cases hp : f.propPos prop with
  | none => simp
  | some p =>
    have hlt : p < f.remaining.length := by
      unfold Final.propPos at hp
      split at hp
      · exact posOf_lt _ _ _ hp
      · cases hp
    simpa using choice_bound f.remaining ch h p hlt

theorem linspace_injective (a b : Rat) (hab : a ≠ b) (n i j : Nat) (hij : i < j) (hj : j < n) :
    linspace a b n i ≠ linspace a b n j := by
  unfold linspace
  have h1 : ¬ n ≤ 1 := by omega
  simp only [h1, if_false]
  have hpos : (0 : Rat) < ((n - 1 : Nat) : Rat) := by
    have : 0 < n - 1 := by omega
    exact_mod_cast this
  have hne : ((n - 1 : Nat) : Rat) ≠ 0 := ne_of_gt hpos
  intro h
  have hba : b - a ≠ 0 := sub_ne_zero.mpr (Ne.symm hab)
  field_simp at h
  have h2 : (i : Rat) = (j : Rat) := by
    have := mul_left_cancel₀ hba (by linarith : (b - a) * (i : Rat) = (b - a) * (j : Rat))
    exact this
  have : i = j := by exact_mod_cast h2
  omega

theorem markers_nodup : Gen.markersDefault.Nodup := by
  simp only [Gen.markersDefault, Gen.Default.markersDefault]
  decide

theorem linestyles_nodup : Gen.linestylesDefault.Nodup := by
  simp only [Gen.linestylesDefault, Gen.Default.linestylesDefault]
  decide

theorem getD_inj_of_nodup {l : List String} (h : l.Nodup) (i j : Nat) (hi : i < l.length) (hj : j < l.length)
    (hij : i ≠ j) : l.getD i "" ≠ l.getD j "" := by
  intro he
  simp only [getD_eq_getElem?_getD, getElem?_eq_getElem hi, getElem?_eq_getElem hj, Option.getD_some] at he
  have hp := (pairwise_iff_getElem.mp h)
  rcases Nat.lt_or_gt_of_ne hij with hlt | hlt
  · exact hp i j hi hj hlt he
  · exact hp j i hj hi hlt he.symm

theorem linspace_ends (a b : Rat) (n : Nat) (hn : 2 ≤ n) : linspace a b n 0 = a ∧ linspace a b n (n - 1) = b := by
  unfold linspace
  have h1 : ¬ n ≤ 1 := by omega
  simp only [h1, if_false]
  have hpos : (0 : Rat) < ((n - 1 : Nat) : Rat) := by
    have : 0 < n - 1 := by omega
    exact_mod_cast this
  have hne : ((n - 1 : Nat) : Rat) ≠ 0 := ne_of_gt hpos
  constructor
  · simp
  · field_simp
    ring

theorem inBin_last (a b v : Rat) : inBin (a, b, true) v = true ↔ a ≤ v ∧ v ≤ b := by
  simp only [inBin, Bool.and_eq_true, decide_eq_true_eq, Bool.or_eq_true, Bool.true_and, beq_iff_eq]
  constructor
  · rintro ⟨h1, h2 | h2⟩
    · exact ⟨h1, le_of_lt h2⟩
    · exact ⟨h1, le_of_eq h2⟩
  · rintro ⟨h1, h2⟩
    exact ⟨h1, lt_or_eq_of_le h2⟩

theorem inBin_mid (a b v : Rat) : inBin (a, b, false) v = true ↔ a ≤ v ∧ v < b := by
  simp [inBin]

/-- with strictly increasing edges a value lies in exactly one bin if it is inside `[first edge, last edge]` and in
none otherwise -/
theorem covered (a b : Rat) (rest : List Rat) (hs : (a :: b :: rest).Pairwise (· < ·)) (v : Rat) :
    ((bins (a :: b :: rest)).filter fun bn => inBin bn v).length =
      if a ≤ v ∧ v ≤ (b :: rest).getLast (by simp) then 1 else 0 := by
  induction rest generalizing a b with
  | nil =>
    have hb : bins [a, b] = [(a, b, true)] := rfl
    rw [hb]
    by_cases hin : inBin (a, b, true) v = true
    · have := (inBin_last a b v).mp hin
      simp [hin, this]
    · have : ¬ (a ≤ v ∧ v ≤ b) := fun h => hin ((inBin_last a b v).mpr h)
      simp [hin, this]
  | cons c r ih =>
    have hs' : (b :: c :: r).Pairwise (· < ·) := (pairwise_cons.mp hs).2
    have hab : a < b := (pairwise_cons.mp hs).1 b (by simp)
    have hbl : b < (c :: r).getLast (by simp) :=
      (pairwise_cons.mp hs').1 _ (getLast_mem (l := c :: r) (by simp))
    have ih' := ih b c hs'
    have hb : bins (a :: b :: c :: r) = (a, b, false) :: bins (b :: c :: r) := rfl
    have hl : (b :: c :: r).getLast (by simp) = (c :: r).getLast (by simp) := by simp
    rw [hb, filter_cons, hl]
    by_cases hin : inBin (a, b, false) v = true
    · obtain ⟨h1, h2⟩ := (inBin_mid a b v).mp hin
      have hnb : ¬ b ≤ v := not_le.mpr h2
      have hz : ((bins (b :: c :: r)).filter fun bn => inBin bn v).length = 0 := by
        rw [ih']; simp [hnb]
      have hvl : v ≤ (c :: r).getLast (by simp) := le_of_lt (lt_trans h2 hbl)
      simp only [hin, if_true, length_cons, hz, h1, hvl, and_self]
    · have hnot : ¬ (a ≤ v ∧ v < b) := fun h => hin ((inBin_mid a b v).mpr h)
      simp only [hin, Bool.false_eq_true, if_false]
      rw [ih']
      by_cases hbv : b ≤ v
      · have hav : a ≤ v := le_trans (le_of_lt hab) hbv
        simp [hbv, hav]
      · have hvb : v < b := not_le.mp hbv
        have hna : ¬ a ≤ v := fun h => hnot ⟨h, hvb⟩
        simp [hbv, hna]

theorem valueAt_plain (f : Final) (ch : List Nat) (extra : Env) (h : f.aggd = []) :
    f.valueAt ch extra = .cell (f.st.ds.cell f.st.var (extra ++ envOfChoice f.remaining ch)) := by
  simp [Final.valueAt, h]

theorem ds_initMappedDim (st : State) (p : String) (m : Mapping) : (initMappedDim st p m).ds = st.ds := by
  unfold initMappedDim
  simp only
  split <;> split <;> split <;> rfl

theorem ds_initAll_aux (props : List String) (st : State) (maps : List (String × Mapping)) :
    (props.foldl (fun st p => match lookupMap maps p with
      | some m => initMappedDim st p m
      | none => st) st).ds = st.ds := by
  induction props generalizing st with
  | nil => rfl
  | cons p ps ih =>
    simp only [foldl_cons]
    rw [ih]
    split
    · exact ds_initMappedDim ..
    · rfl

end Infini
