import XyzModel.Harvest
import XyzProofs.Lemmas.Dataset
/-! Helper lemmas for the store / Harvester model. Property theorems are in `Props/C05.lean` and `Props/C14.lean`. -/
namespace StoreIO
open DS

/-! ### stores -/

theorem alookup_sset {β} (s : GStore β) (k k' : String) (x : β) :
    alookup (sset s k x) k' = if k = k' then some x else alookup s k' := by
  induction s with
  | nil => simp [sset, alookup]
  | cons e r ih =>
    obtain ⟨k0, y⟩ := e
    simp only [sset]
    by_cases h0 : k0 = k
    · subst h0
      simp only [if_true, alookup]
      by_cases h1 : k0 = k' <;> simp [h1]
    · simp only [h0, if_false, alookup, ih]
      by_cases h1 : k0 = k'
      · subst h1
        have : ¬ k = k0 := fun h => h0 h.symm
        simp [this]
      · simp [h1]

theorem alookup_serase {β} (s : GStore β) (k k' : String) :
    alookup (serase s k) k' = if k = k' then none else alookup s k' := by
  induction s with
  | nil => simp [serase, alookup]
  | cons e r ih =>
    obtain ⟨k0, y⟩ := e
    simp only [serase]
    by_cases h0 : k0 = k
    · subst h0
      simp only [if_true, ih, alookup]
      by_cases h1 : k0 = k' <;> simp [h1]
    · simp only [h0, if_false, alookup, ih]
      by_cases h1 : k0 = k'
      · subst h1
        have : ¬ k = k0 := fun h => h0 h.symm
        simp [this]
      · simp [h1]

/-! ### attribute rewriting -/

theorem coerceAttr_idem (a : Attr) : coerceAttr (coerceAttr a) = coerceAttr a := by
  cases a with
  | none => rfl
  | bool b => cases b <;> rfl
  | str s => rfl
  | int i => rfl
  | num r => rfl

theorem coerceAttrs_idem (e : Engine) (d : Dataset) : coerceAttrs e (coerceAttrs e d) = coerceAttrs e d := by
  unfold coerceAttrs
  by_cases h : coercesAttrs e = true
  · simp [h, List.map_map, Function.comp_def, coerceAttr_idem]
  · simp [h]

theorem get_coerceAttrs (e : Engine) (d : Dataset) (n : String) (p : Pt) : (coerceAttrs e d).get n p = d.get n p := by
  unfold coerceAttrs; split <;> rfl

theorem coordsOf_coerceAttrs (e : Engine) (d : Dataset) (dim : String) :
    (coerceAttrs e d).coordsOf dim = d.coordsOf dim := by
  unfold coerceAttrs; split <;> rfl

theorem coords_coerceAttrs (e : Engine) (d : Dataset) : (coerceAttrs e d).coords = d.coords := by
  unfold coerceAttrs; split <;> rfl

theorem vars_coerceAttrs (e : Engine) (d : Dataset) : (coerceAttrs e d).vars = d.vars := by
  unfold coerceAttrs; split <;> rfl

end StoreIO
