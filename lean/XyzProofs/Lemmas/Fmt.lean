import XyzModel.Fmt
import Mathlib.Tactic.Linarith
import Mathlib.Tactic.NormNum
import Mathlib.Tactic.Positivity
import Mathlib.Tactic.Ring
import Mathlib.Tactic.FieldSimp
import Mathlib.Algebra.Order.Field.Rat
import Mathlib.Algebra.Order.Field.Power
import Mathlib.Algebra.Order.AbsoluteValue.Basic
/-!
Helper lemmas for C20: `pow10` is `10 ^ e`, the rounding function is within ½, what a self-checked `sci` result
means (`IsSci`), the size bounds that follow from it, and how `format` decomposes.
-/
namespace Fmt

theorem pow10_eq (e : ℤ) : pow10 e = (10 : ℚ) ^ e := by
  unfold pow10
  split
  · rename_i h
    have he : e = ((e.toNat : ℕ) : ℤ) := (Int.toNat_of_nonneg h).symm
    conv_rhs => rw [he]
    rw [zpow_natCast]
    push_cast
    rfl
  · rename_i h
    have he : e = -(((-e).toNat : ℕ) : ℤ) := by omega
    conv_rhs => rw [he]
    rw [zpow_neg, zpow_natCast]
    push_cast
    rw [one_div]

theorem pow10_pos (e : ℤ) : 0 < pow10 e := by rw [pow10_eq]; positivity

theorem natPow_cast (d : ℕ) : (((10 ^ d : ℕ) : ℚ)) = (10 : ℚ) ^ d := by push_cast; rfl

/-- round-half-even is within one half -/
theorem round_spec (q : ℚ) : |q - (roundHalfEven q : ℚ)| ≤ 1 / 2 := by
  have h1 := Rat.floor_le q
  have h2 := Rat.lt_floor_add_one q
  push_cast at h2
  unfold roundHalfEven
  simp only
  split_ifs with a b c <;> rw [abs_le] <;> constructor <;> push_cast <;> linarith

theorem round_nonneg {q : ℚ} (hq : 0 ≤ q) : 0 ≤ roundHalfEven q := by
  have hf : 0 ≤ q.floor := Rat.le_floor_iff.mpr (by simpa using hq)
  unfold roundHalfEven
  simp only
  split_ifs <;> omega

/-- `(m, e)` is `q` correctly rounded to `p + 1` significant digits -/
structure IsSci (q : ℚ) (p : ℕ) (m e : ℤ) : Prop where
  lo : (10 : ℚ) ^ p ≤ m
  hi : (m : ℚ) < (10 : ℚ) ^ (p + 1)
  err : |q - m * (10 : ℚ) ^ (e - p)| ≤ (1 / 2) * (10 : ℚ) ^ (e - p)

theorem sci_isSci {q : ℚ} {p : ℕ} {m e : ℤ} (h : sci q p = some (m, e)) : IsSci q p m e := by
  unfold sci at h
  simp only at h
  split at h
  · rename_i hok
    have hr : sciRaw q p = (m, e) := by simpa using h
    rw [hr] at hok
    simp only [sciOk, Bool.and_eq_true, decide_eq_true_eq] at hok
    obtain ⟨⟨⟨h1, h2⟩, h3⟩, h4⟩ := hok
    rw [pow10_eq] at h3 h4
    refine ⟨?_, ?_, ?_⟩
    · have : (((10 ^ p : ℕ) : ℤ) : ℚ) ≤ (m : ℚ) := by exact_mod_cast h1
      simpa using this
    · have : (m : ℚ) < (((10 ^ (p + 1) : ℕ) : ℤ) : ℚ) := by exact_mod_cast h2
      simpa using this
    · rw [abs_le]; constructor <;> linarith
  · simp at h

/-- `q < 10^(e+1)` whenever `(m, e)` is its rounding -/
theorem lt_of_isSci {q : ℚ} {p : ℕ} {m e : ℤ} (h : IsSci q p m e) : q < (10 : ℚ) ^ (e + 1) := by
  have hpos : (0 : ℚ) < (10 : ℚ) ^ (e - p) := by positivity
  have h1 := (abs_le.mp h.err).2
  have hm : (m : ℚ) + 1 ≤ (10 : ℚ) ^ (p + 1) := by
    have h' : (m : ℚ) < ((10 ^ (p + 1) : ℤ) : ℚ) := by push_cast; exact h.hi
    have h'' : m < 10 ^ (p + 1) := by exact_mod_cast h'
    have : m + 1 ≤ 10 ^ (p + 1) := by omega
    exact_mod_cast this
  have hsplit : (10 : ℚ) ^ (e + 1) = (10 : ℚ) ^ (p + 1) * (10 : ℚ) ^ (e - p) := by
    rw [← zpow_natCast, ← zpow_add₀ (by norm_num : (10 : ℚ) ≠ 0)]
    congr 1; push_cast; ring
  rw [hsplit]
  nlinarith

/-- `q ≥ (10^p − ½)·10^(e−p)` -/
theorem ge_of_isSci {q : ℚ} {p : ℕ} {m e : ℤ} (h : IsSci q p m e) :
    ((10 : ℚ) ^ p - 1 / 2) * (10 : ℚ) ^ (e - p) ≤ q := by
  have hpos : (0 : ℚ) < (10 : ℚ) ^ (e - p) := by positivity
  have h1 := (abs_le.mp h.err).1
  nlinarith [h.lo]

/-- a value below 95 has a two-digit rounding with exponent at most 1 -/
theorem E_le_one_of_lt {q : ℚ} {m E : ℤ} (h : IsSci q 1 m E) (hq : q < 95) : E ≤ 1 := by
  by_contra hc
  have hE : (2 : ℤ) ≤ E := by omega
  have hge := ge_of_isSci h
  have : (10 : ℚ) ^ (1 : ℤ) ≤ (10 : ℚ) ^ (E - (1 : ℕ)) := by
    apply zpow_le_zpow_right₀ (by norm_num)
    push_cast; omega
  norm_num at hge this
  nlinarith

theorem zpow10_le_one {k : ℤ} (hk : k ≤ 0) : (10 : ℚ) ^ k ≤ 1 := by
  have : (10 : ℚ) ^ k ≤ (10 : ℚ) ^ (0 : ℤ) := zpow_le_zpow_right₀ (by norm_num) hk
  simpa using this

/-- number of decimals shown = `1 − E` (the last shown digit of the value is the second digit of the error) -/
theorem digits_eq {E : ℤ} (hE : E ≤ 1) : (((Gen.fmtDigits E).toNat : ℕ) : ℤ) = 1 - E := by
  simp only [Gen.fmtDigits, Gen.Default.fmtDigits]
  omega

/-- decomposition of a successful `format` -/
theorem format_some {i : Inp} {o : Out} (h : format i = some o) :
    ∃ k m E, kOf i = some k ∧ sci (shownErr i k) 1 = some (m, E) ∧
      o = { neg := i.neg, n := (fixed (shownX i k) (Gen.fmtDigits E).toNat).toNat, d := (Gen.fmtDigits E).toNat,
            m := m.toNat, k := if hide i k then none else some k } := by
  unfold format at h
  split at h
  · simp at h
  · rename_i k hk
    split at h
    · simp at h
    · rename_i r hr
      refine ⟨k, r.1, r.2, hk, hr, ?_⟩
      simp only [Option.some.injEq] at h
      exact h.symm

/-- decomposition of a successful `kOf` -/
theorem kOf_some {i : Inp} {k : ℤ} (h : kOf i = some k) :
    ∃ xe m6 ee, expOf i.ax = some xe ∧ sci i.err 6 = some (m6, ee) ∧ k = Gen.fmtExp xe ee := by
  unfold kOf at h
  split at h
  · rename_i xe r h1 h2
    exact ⟨xe, r.1, r.2, h1, h2, by simpa using h.symm⟩
  · simp at h

end Fmt
