import XyzModel.Core
/-! Helper lemmas for `Core`/`Nest`. Property theorems are in `XyzProofs/Props/C01.lean`, `C02.lean`. -/
namespace Core
open List

variable {V β : Type}

theorem nest_snoc (vals : List (List V)) (last : List V) (g : List V → Nest β) :
    nest (vals ++ [last]) g = nest vals (fun p => .node (last.map fun v => g (p ++ [v]))) := by
  induction vals generalizing g with
  | nil => simp [nest]
  | cons vs rest ih =>
    simp only [List.cons_append, nest]
    congr 1
    apply List.map_congr_left
    intro v _
    rw [ih]

theorem loop_eq (dflt : Nest β) (rvals : List (List V)) (store : List V → Option (Nest β)) :
    loop dflt rvals store = nest rvals.reverse (fun p => (store p).getD dflt) := by
  induction rvals generalizing store with
  | nil => simp [loop, nest]
  | cons last rrest ih =>
    simp only [loop, List.reverse_cons]
    rw [ih, nest_snoc]
    rfl

/-- the iterative `_unflatten` computes the recursive nesting -/
theorem unflatten_eq (dflt : Nest β) (vals : List (List V)) (store : List V → Option (Nest β)) :
    unflatten dflt vals store = nest vals (fun p => (store p).getD dflt) := by
  simp [unflatten, loop_eq]

/-- position `idx` of the nested result holds `g` at the values selected by `idx` -/
theorem nest_get (vals : List (List V)) (g : List V → Nest β) (idx : List Nat) (p : List V)
    (h : pick vals idx = some p) : (nest vals g).get idx = some (g p) := by
  induction vals generalizing g idx p with
  | nil =>
    cases idx with
    | nil => simp [pick] at h; subst h; simp [nest, Nest.get]
    | cons i is => simp [pick] at h
  | cons vs rest ih =>
    cases idx with
    | nil => simp [pick] at h
    | cons i is =>
      simp only [pick] at h
      split at h
      · rename_i v q hv hq
        simp at h; subst h
        simp only [nest, Nest.get]
        rw [List.getElem?_map, hv]
        simp [ih _ _ _ hq]
      · simp at h

theorem mem_product_of_pick (vals : List (List V)) (idx : List Nat) (p : List V)
    (h : pick vals idx = some p) : p ∈ product vals := by
  induction vals generalizing idx p with
  | nil =>
    cases idx with
    | nil => simp [pick] at h; subst h; simp [product]
    | cons i is => simp [pick] at h
  | cons vs rest ih =>
    cases idx with
    | nil => simp [pick] at h
    | cons i is =>
      simp only [pick] at h
      split at h
      · rename_i v q hv hq
        simp at h; subst h
        simp only [product, List.mem_flatMap, List.mem_map]
        exact ⟨v, List.mem_of_getElem? hv, q, ih _ _ hq, rfl⟩
      · simp at h

theorem length_of_pick (vals : List (List V)) (idx : List Nat) (p : List V)
    (h : pick vals idx = some p) : p.length = vals.length := by
  induction vals generalizing idx p with
  | nil =>
    cases idx with
    | nil => simp [pick] at h; subst h; rfl
    | cons i is => simp [pick] at h
  | cons vs rest ih =>
    cases idx with
    | nil => simp [pick] at h
    | cons i is =>
      simp only [pick] at h
      split at h
      · rename_i v q hv hq
        simp at h; subst h
        simp [ih _ _ hq]
      · simp at h

/-! ### shuffling -/

theorem sort_map_range (h : Nat → β) (σ : List Nat) (n : Nat) (hσ : σ ~ List.range n) :
    (σ.map (fun i => (i, h i))).mergeSort keyLE = (List.range n).map (fun i => (i, h i)) := by
  have hperm : (σ.map (fun i => (i, h i))).mergeSort keyLE ~ (List.range n).map (fun i => (i, h i)) :=
    (mergeSort_perm _ _).trans (hσ.map _)
  have hs1 : ((σ.map (fun i => (i, h i))).mergeSort keyLE).Pairwise (fun a b => keyLE a b) := by
    apply pairwise_mergeSort
    · intro a b c; simp [keyLE]; omega
    · intro a b; simp [keyLE]; omega
  have hs2 : ((List.range n).map (fun i => (i, h i))).Pairwise (fun a b => keyLE a b) := by
    rw [List.pairwise_map]
    exact (List.pairwise_lt_range (n := n)).imp (by intro a b h; simp [keyLE]; omega)
  apply Perm.eq_of_pairwise (le := fun a b => keyLE a b) _ hs1 hs2 hperm
  intro a b ha hb hab hba
  have ha' := hperm.mem_iff.mp ha
  simp at ha' hb
  obtain ⟨i, _, rfl⟩ := ha'
  obtain ⟨j, _, rfl⟩ := hb
  simp [keyLE] at hab hba
  have : i = j := by omega
  subst this; rfl

theorem zip_map_eq {α} (f : α → β) (settings : List α) (σ : List Nat) (d : α) :
    σ.zip ((applyPerm σ settings d).map f) = σ.map (fun i => (i, f (settings.getD i d))) := by
  unfold applyPerm
  induction σ with
  | nil => simp
  | cons a t ih => simp only [List.map_cons, List.zip_cons_cons, ih]

/-- shuffle, run, sort back: the results come out in enumeration order, for every permutation -/
theorem runShuffled_eq {α} (f : α → β) (settings : List α) (σ : List Nat) (d : α)
    (hσ : σ ~ List.range settings.length) :
    runShuffled f settings σ d = settings.map f := by
  unfold runShuffled
  simp only [zip_map_eq]
  rw [sort_map_range (fun i => f (settings.getD i d)) σ _ hσ]
  apply List.ext_getElem
  · simp
  · intro i h1 h2
    simp at h1 h2 ⊢
    simp [h2]

theorem applyPerm_perm {α} (σ : List Nat) (l : List α) (d : α) (hσ : σ ~ List.range l.length) :
    applyPerm σ l d ~ l := by
  unfold applyPerm
  have h1 : σ.map (fun i => l.getD i d) ~ (List.range l.length).map (fun i => l.getD i d) := hσ.map _
  have h2 : (List.range l.length).map (fun i => l.getD i d) = l := by
    apply List.ext_getElem
    · simp
    · intro i h1 h2
      simp at h1 h2 ⊢
      simp [h2]
  rw [h2] at h1
  exact h1

theorem applyPerm_length {α} (σ : List Nat) (l : List α) (d : α) : (applyPerm σ l d).length = σ.length := by
  simp [applyPerm]

/-! ### the dict built from `zip(locs, results)` -/

theorem lookup_zip_map (f : List Nat → β) (locs : List (List Nat)) (p : List Nat) (hp : p ∈ locs) :
    lookup (locs.zip (locs.map f)) p = some (f p) := by
  induction locs with
  | nil => simp at hp
  | cons q rest ih =>
    simp only [List.map_cons, List.zip_cons_cons, lookup, List.find?_cons]
    by_cases hq : q = p
    · subst hq; simp
    · have : (q == p) = false := by simpa using hq
      simp only [this]
      have hp' : p ∈ rest := by
        rcases List.mem_cons.mp hp with h | h
        · exact absurd h.symm hq
        · exact h
      exact ih hp'

theorem lookup_zip_map_none (f : List Nat → β) (locs : List (List Nat)) (p : List Nat) (hp : p ∉ locs) :
    lookup (locs.zip (locs.map f)) p = none := by
  induction locs with
  | nil => simp [lookup]
  | cons q rest ih =>
    simp only [List.map_cons, List.zip_cons_cons, lookup, List.find?_cons]
    have hq : q ≠ p := fun h => hp (h ▸ List.mem_cons_self)
    have : (q == p) = false := by simpa using hq
    simp only [this]
    exact ih (fun h => hp (List.mem_cons_of_mem _ h))

theorem mapM_ok {ε α γ : Type} (g : α → γ) (l : List α) :
    l.mapM (fun x => (Except.ok (g x) : Except ε γ)) = Except.ok (l.map g) := by
  induction l with
  | nil => rfl
  | cons a t ih =>
    rw [List.mapM_cons, ih]
    rfl

end Core
