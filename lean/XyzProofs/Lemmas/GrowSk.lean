import XyzModel.Crop
/-!
# Plans: "attempt these effects in this order, stop at the first that raises"

The generated skeletons of `grow` (`Gen.growSk`) are built from single attempts and `Gen.skLoop`s; both are instances
of `runPlan`, and everything the C08 theorems need is a fact about `runPlan` for an arbitrary `fails`.
-/
set_option linter.unusedSimpArgs false
namespace GrowSk
open Gen

abbrev Out (ε : Type) := List ε × Option PyErr

/-- attempt the effects of `p` in order on top of the trace `t`; an effect that raises is recorded and ends the run -/
def runPlan {ε : Type} (fails : ε → Bool) : List ε → List ε → Out ε
  | [], t => (t, none)
  | e :: es, t => if fails e then (t ++ [e], some .other) else runPlan fails es (t ++ [e])

variable {ε : Type} (fails : ε → Bool)

theorem runPlan_append (p q t : List ε) :
    runPlan fails (p ++ q) t = skBindG (runPlan fails p t) (runPlan fails q) := by
  induction p generalizing t with
  | nil => simp [runPlan]
  | cons e es ih =>
    simp only [List.cons_append, runPlan]
    split
    · simp
    · exact ih _

theorem runPlan_single (e : ε) (t : List ε) :
    runPlan fails [e] t = if fails e then (t ++ [e], some .other) else (t ++ [e], none) := by
  simp [runPlan]

theorem skLoopB_trivial (item : Nat → ε) (n k : Nat) (t : List ε) :
    skLoopB fails item (fun _ t => (t, none)) n k t = runPlan fails ((List.range' k n).map item) t := by
  induction n generalizing k t with
  | zero => simp [skLoopB, runPlan]
  | succ n ih =>
    simp only [skLoopB, List.range'_succ, List.map_cons, runPlan]
    split
    · rfl
    · simp [ih]

/-- the loop helper of the generated text is a plan -/
theorem skLoop_eq (item : Nat → ε) (n : Nat) (t : List ε) :
    skLoop fails item n t = runPlan fails ((List.range n).map item) t := by
  simp [skLoop, skLoopB_trivial, List.range_eq_range']

/-- either every effect of the plan went through (and the trace is the whole plan), or the trace ends with the first
effect that raised -/
theorem runPlan_cases (p t : List ε) :
    ((∀ e ∈ p, fails e = false) ∧ runPlan fails p t = (t ++ p, none)) ∨
    (∃ pre e suf, p = pre ++ e :: suf ∧ (∀ x ∈ pre, fails x = false) ∧ fails e = true ∧
      runPlan fails p t = (t ++ pre ++ [e], some .other)) := by
  induction p generalizing t with
  | nil => left; simp [runPlan]
  | cons a as ih =>
    by_cases ha : fails a = true
    · right
      exact ⟨[], a, as, rfl, by simp, ha, by simp [runPlan, ha]⟩
    · have ha' : fails a = false := by simpa using ha
      rcases ih (t ++ [a]) with ⟨h1, h2⟩ | ⟨pre, e, suf, h1, h2, h3, h4⟩
      · left
        refine ⟨?_, by simp [runPlan, ha', h2]⟩
        intro x hx
        rcases List.mem_cons.mp hx with rfl | hx
        · exact ha'
        · exact h1 x hx
      · right
        refine ⟨a :: pre, e, suf, by simp [h1], ?_, h3, by simp [runPlan, ha', h4]⟩
        intro x hx
        rcases List.mem_cons.mp hx with rfl | hx
        · exact ha'
        · exact h2 x hx

theorem runPlan_ok_iff (p t : List ε) : (runPlan fails p t).2 = none ↔ ∀ e ∈ p, fails e = false := by
  rcases runPlan_cases fails p t with ⟨h1, h2⟩ | ⟨pre, e, suf, h1, _, h3, h4⟩
  · simp only [h2, true_iff]; exact h1
  · simp only [h4, reduceCtorEq, false_iff]
    intro h
    have := h e (by simp [h1])
    simp [h3] at this

theorem runPlan_ok_trace (p t : List ε) (h : (runPlan fails p t).2 = none) : (runPlan fails p t).1 = t ++ p := by
  rcases runPlan_cases fails p t with ⟨_, h2⟩ | ⟨pre, e, suf, _, _, _, h4⟩
  · simp [h2]
  · simp [h4] at h

/-- nothing is attempted that is not in the plan -/
theorem runPlan_mem (p t : List ε) (x : ε) (h : x ∈ (runPlan fails p t).1) : x ∈ t ∨ x ∈ p := by
  rcases runPlan_cases fails p t with ⟨_, h2⟩ | ⟨pre, e, suf, h1, _, _, h4⟩
  · rw [h2] at h; simpa using h
  · rw [h4] at h; subst h1
    simp only [List.mem_append, List.mem_singleton, List.mem_cons, List.not_mem_nil, or_false] at h ⊢
    rcases h with (h | h) | h
    · exact Or.inl h
    · exact Or.inr (Or.inl h)
    · exact Or.inr (Or.inr (Or.inl h))

/-- a plan whose last effect `w` occurs nowhere else: `w` is attempted iff everything before it went through, it is
then the last entry of the trace, and the run ends normally iff moreover `w` itself went through -/
theorem runPlan_last (p t : List ε) (w : ε) (hp : w ∉ p) (ht : w ∉ t) :
    (w ∈ (runPlan fails (p ++ [w]) t).1 ↔ ∀ e ∈ p, fails e = false) ∧
    (w ∈ (runPlan fails (p ++ [w]) t).1 → (runPlan fails (p ++ [w]) t).1 = t ++ p ++ [w]) ∧
    ((runPlan fails (p ++ [w]) t).2 = none ↔ (∀ e ∈ p, fails e = false) ∧ fails w = false) ∧
    ((runPlan fails (p ++ [w]) t).2 ≠ none → w ∈ (runPlan fails (p ++ [w]) t).1 → fails w = true) := by
  rw [runPlan_append]
  rcases runPlan_cases fails p t with ⟨h1, h2⟩ | ⟨pre, e, suf, h1, h2, h3, h4⟩
  · rw [h2, skBindG_ok, runPlan_single]
    by_cases hw : fails w = true
    · simp [hw, h1]
      exact h1
    · have hw' : fails w = false := by simpa using hw
      simp [hw', h1]
      exact h1
  · have hew : e ≠ w := by
      intro hc; subst hc; exact hp (by simp [h1])
    have hpre : w ∉ pre := by
      intro hc; exact hp (by simp [h1, hc])
    have hne : ¬ (∀ x ∈ p, fails x = false) := by
      intro hc
      have := hc e (by simp [h1])
      simp [h3] at this
    rw [h4, skBindG_err]
    have hnw : w ∉ t ++ pre ++ [e] := by
      simp only [List.mem_append, List.mem_singleton, not_or]
      exact ⟨⟨ht, hpre⟩, fun hc => hew hc.symm⟩
    refine ⟨⟨fun hc => absurd hc hnw, fun hc => absurd hc hne⟩, fun hc => absurd hc hnw, ?_, fun _ hc => absurd hc hnw⟩
    simp only [reduceCtorEq, false_iff, not_and]
    exact fun hc => absurd hc hne

end GrowSk
