import XyzModel.Dataset
/-! Helper lemmas for the finite-map datasets (`XyzModel/Dataset.lean`). Property theorems are in `Props/C05.lean`,
`C13.lean`, `C14.lean`. -/
namespace DS

/-! ### association lists -/

theorem alookup_append {β} (l₁ l₂ : List (String × β)) (k : String) :
    alookup (l₁ ++ l₂) k = (alookup l₁ k).orElse (fun _ => alookup l₂ k) := by
  induction l₁ with
  | nil => simp [alookup]
  | cons e r ih =>
    obtain ⟨k', x⟩ := e
    simp only [List.cons_append, alookup]
    split <;> simp [ih]

theorem alookup_map_val {β γ} (g : String → β → γ) (l : List (String × β)) (k : String) :
    alookup (l.map fun e => (e.1, g e.1 e.2)) k = (alookup l k).map (g k) := by
  induction l with
  | nil => simp [alookup]
  | cons e r ih =>
    obtain ⟨k', x⟩ := e
    simp only [List.map_cons, alookup]
    split
    · rename_i h; subst h; simp
    · exact ih

theorem alookup_filter_key {β} (P : String → Bool) (l : List (String × β)) (k : String) :
    alookup (l.filter fun e => P e.1) k = if P k then alookup l k else none := by
  induction l with
  | nil => simp [alookup]
  | cons e r ih =>
    obtain ⟨k', x⟩ := e
    simp only [List.filter_cons]
    by_cases hP : P k' = true
    · simp only [hP, if_true, alookup]
      by_cases hk : k' = k
      · subst hk; simp [hP]
      · simp [hk, ih]
    · simp only [hP, alookup]
      by_cases hk : k' = k
      · subst hk; simp [hP, ih]
      · simp [hk, ih]

theorem alookup_mem {β} (l : List (String × β)) (k : String) (x : β) (h : alookup l k = some x) : (k, x) ∈ l := by
  induction l with
  | nil => simp [alookup] at h
  | cons e r ih =>
    obtain ⟨k', y⟩ := e
    simp only [alookup] at h
    split at h
    · rename_i hk; subst hk; simp at h; subst h; simp
    · exact List.mem_cons_of_mem _ (ih h)

theorem alookup_isSome_of_mem {β} (l : List (String × β)) (k : String) (x : β) (h : (k, x) ∈ l) :
    (alookup l k).isSome = true := by
  induction l with
  | nil => simp at h
  | cons e r ih =>
    obtain ⟨k', y⟩ := e
    simp only [alookup]
    split
    · simp
    · rename_i hk
      rcases List.mem_cons.mp h with h | h
      · simp at h; exact absurd h.1.symm hk
      · exact ih h

/-! ### cell maps -/

theorem cget_append (a b : Cells) (p : Pt) : cget (a ++ b) p = (cget a p).orElse (fun _ => cget b p) := by
  induction a with
  | nil => simp [cget]
  | cons e r ih =>
    obtain ⟨q, t⟩ := e
    simp only [List.cons_append, cget]
    split <;> simp [ih]

theorem cget_filter_key (P : Pt → Bool) (b : Cells) (p : Pt) :
    cget (b.filter fun e => P e.1) p = if P p then cget b p else none := by
  induction b with
  | nil => simp [cget]
  | cons e r ih =>
    obtain ⟨q, t⟩ := e
    simp only [List.filter_cons]
    by_cases hP : P q = true
    · simp only [hP, if_true, cget]
      by_cases hq : q = p
      · subst hq; simp [hP]
      · simp [hq, ih]
    · simp only [hP, cget]
      by_cases hq : q = p
      · subst hq; simp [hP, ih]
      · simp [hq, ih]

/-- `a.combine_first(b)` pointwise: `a` where non-null, else `b` -/
theorem cget_combineFirst (a b : Cells) (p : Pt) :
    cget (combineFirst a b) p = (cget a p).orElse (fun _ => cget b p) := by
  unfold combineFirst
  rw [cget_append, cget_filter_key (fun q => (cget a q).isNone)]
  cases h : cget a p <;> simp

theorem cget_nil (p : Pt) : cget [] p = none := rfl

theorem cget_mem (c : Cells) (p : Pt) (t : Tok) (h : cget c p = some t) : (p, t) ∈ c := by
  induction c with
  | nil => simp [cget] at h
  | cons e r ih =>
    obtain ⟨q, u⟩ := e
    simp only [cget] at h
    split at h
    · rename_i hq; subst hq; simp at h; subst h; simp
    · exact List.mem_cons_of_mem _ (ih h)

theorem cget_isSome_of_mem (c : Cells) (p : Pt) (t : Tok) (h : (p, t) ∈ c) : (cget c p).isSome = true := by
  induction c with
  | nil => simp at h
  | cons e r ih =>
    obtain ⟨q, u⟩ := e
    simp only [cget]
    split
    · simp
    · rename_i hq
      rcases List.mem_cons.mp h with h | h
      · simp at h; exact absurd h.1.symm hq
      · exact ih h

/-- the conflict test is exactly: some point holds two different non-null values -/
theorem conflict_iff (a b : Cells) :
    conflict a b = true ↔ ∃ p x y, cget a p = some x ∧ cget b p = some y ∧ x ≠ y := by
  unfold conflict
  rw [List.any_eq_true]
  constructor
  · rintro ⟨e, _, h⟩
    cases ha : cget a e.1 with
    | none => simp [ha] at h
    | some x =>
      cases hb : cget b e.1 with
      | none => simp [ha, hb] at h
      | some y =>
        simp only [ha, hb, bne_iff_ne, ne_eq] at h
        exact ⟨e.1, x, y, ha, hb, h⟩
  · rintro ⟨p, x, y, ha, hb, hne⟩
    exact ⟨(p, y), cget_mem b p y hb, by simp [ha, hb, hne]⟩

/-! ### datasets -/

theorem cellsOf_mergeVars (f : Cells → Cells → Cells) (a b : List (String × Var)) (n : String)
    (hf : ∀ c, f [] c = c) :
    ((alookup (mergeVars f a b) n).map (·.cells)).getD [] =
      f (((alookup a n).map (·.cells)).getD []) (((alookup b n).map (·.cells)).getD []) := by
  unfold mergeVars
  rw [alookup_append,
    alookup_map_val (fun k (v : Var) => ({ v with cells := f v.cells (((alookup b k).map (·.cells)).getD []) } : Var)),
    alookup_filter_key (fun k => (alookup a k).isNone)]
  cases ha : alookup a n with
  | none => cases hb : alookup b n <;> simp [hf]
  | some v => simp

theorem Dataset.get_combineFirst (a b : Dataset) (n : String) (p : Pt) :
    (a.combineFirst b).get n p = (a.get n p).orElse (fun _ => b.get n p) := by
  unfold Dataset.get Dataset.cellsOf Dataset.combineFirst
  simp only
  rw [cellsOf_mergeVars DS.combineFirst a.vars b.vars n (by intro c; simp [DS.combineFirst, cget]),
    cget_combineFirst]

theorem Dataset.conflicts_iff (a b : Dataset) :
    a.conflicts b = true ↔ ∃ n p x y, a.get n p = some x ∧ b.get n p = some y ∧ x ≠ y := by
  unfold Dataset.conflicts
  rw [List.any_eq_true]
  constructor
  · rintro ⟨e, _, h⟩
    obtain ⟨p, x, y, h1, h2, h3⟩ := (conflict_iff _ _).mp h
    exact ⟨e.1, p, x, y, h1, h2, h3⟩
  · rintro ⟨n, p, x, y, h1, h2, h3⟩
    unfold Dataset.get at h1 h2
    cases hv : alookup a.vars n with
    | none => simp [Dataset.cellsOf, hv, cget] at h1
    | some v =>
      exact ⟨(n, v), alookup_mem _ _ _ hv, (conflict_iff _ _).mpr ⟨p, x, y, h1, h2, h3⟩⟩

/-! ### coordinates (outer join) -/

theorem mem_insertSorted (x y : Coord) (l : List Coord) : y ∈ insertSorted x l ↔ y = x ∨ y ∈ l := by
  induction l with
  | nil => simp [insertSorted]
  | cons z zs ih =>
    simp only [insertSorted]
    split
    · simp
    · split
      · rename_i h1 h2; subst h2; simp
      · simp only [List.mem_cons, ih]
        constructor
        · rintro (h | h | h) <;> simp [h]
        · rintro (h | h | h) <;> simp [h]

theorem mem_foldl_insertSorted (l acc : List Coord) (y : Coord) :
    y ∈ l.foldl (fun acc x => insertSorted x acc) acc ↔ y ∈ acc ∨ y ∈ l := by
  induction l generalizing acc with
  | nil => simp
  | cons x xs ih =>
    rw [List.foldl_cons, ih, mem_insertSorted]
    simp only [List.mem_cons]
    constructor
    · rintro ((h | h) | h) <;> simp [h]
    · rintro (h | h | h) <;> simp [h]

theorem mem_sortedUnion (xs ys : List Coord) (y : Coord) : y ∈ sortedUnion xs ys ↔ y ∈ xs ∨ y ∈ ys := by
  unfold sortedUnion
  rw [mem_foldl_insertSorted]
  simp

theorem alookup_unionCoords (a b : List (String × List Coord)) (d : String) (c : Coord) :
    c ∈ (alookup (unionCoords a b) d).getD [] ↔ c ∈ (alookup a d).getD [] ∨ c ∈ (alookup b d).getD [] := by
  unfold unionCoords
  rw [alookup_append,
    alookup_map_val (fun k (cs : List Coord) => sortedUnion cs ((alookup b k).getD [])),
    alookup_map_val (fun _ (cs : List Coord) => sortedUnion cs []),
    alookup_filter_key (fun k => (alookup a k).isNone)]
  cases ha : alookup a d with
  | none => cases hb : alookup b d <;> simp [mem_sortedUnion]
  | some v => simp [mem_sortedUnion]

theorem Dataset.coordsOf_combineFirst (a b : Dataset) (d : String) (c : Coord) :
    c ∈ (a.combineFirst b).coordsOf d ↔ c ∈ a.coordsOf d ∨ c ∈ b.coordsOf d := by
  unfold Dataset.coordsOf Dataset.combineFirst
  exact alookup_unionCoords a.coords b.coords d c

theorem Dataset.get_empty (n : String) (p : Pt) : ({} : Dataset).get n p = none := rfl
theorem Dataset.coordsOf_empty (d : String) : ({} : Dataset).coordsOf d = [] := rfl

end DS
