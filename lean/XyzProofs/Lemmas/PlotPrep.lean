import XyzModel.PlotPrep
/-! Helper lemmas for `PlotPrep` (C17): boolean masks, index enumeration. Property theorems are in `Props/C17.lean`. -/
namespace PlotPrep
open List

variable {α β γ : Type}

theorem applyMask_nil_left (l : List α) : applyMask [] l = [] := by simp [applyMask]
theorem applyMask_nil_right (m : List Bool) : applyMask m ([] : List α) = [] := by simp [applyMask]

theorem applyMask_cons (b : Bool) (m : List Bool) (x : α) (xs : List α) :
    applyMask (b :: m) (x :: xs) = if b then x :: applyMask m xs else applyMask m xs := by
  cases b <;> simp [applyMask]

/-- masking = filtering the positions whose mask bit is set -/
theorem applyMask_eq_filterMap (m : List Bool) (l : List α) :
    applyMask m l = (m.zip l).filterMap fun p => if p.1 then some p.2 else none := by
  induction m generalizing l with
  | nil => simp [applyMask]
  | cons b m ih =>
    cases l with
    | nil => simp [applyMask]
    | cons x xs => rw [applyMask_cons, ih]; cases b <;> simp

/-- two arrays masked by `f x y` and zipped = the pairs satisfying `f`, in order -/
theorem applyMask_zipWith_zip (f : α → β → Bool) : ∀ (xs : List α) (ys : List β),
    (applyMask (zipWith f xs ys) xs).zip (applyMask (zipWith f xs ys) ys) =
      (xs.zip ys).filter fun p => f p.1 p.2
  | [], ys => by simp [applyMask]
  | x :: xs, [] => by simp [applyMask]
  | x :: xs, y :: ys => by
    have ih := applyMask_zipWith_zip f xs ys
    simp only [zipWith_cons_cons, applyMask_cons, zip_cons_cons, filter_cons]
    cases h : f x y <;> simp [ih]

/-- a third array carried through the same mask stays aligned with the pairs -/
theorem applyMask_zipWith_zip₃ (f : α → β → Bool) : ∀ (xs : List α) (ys : List β) (zs : List γ),
    ((applyMask (zipWith f xs ys) xs).zip (applyMask (zipWith f xs ys) ys)).zip (applyMask (zipWith f xs ys) zs) =
      ((xs.zip ys).zip zs).filter fun t => f t.1.1 t.1.2
  | [], ys, zs => by simp [applyMask]
  | x :: xs, [], zs => by simp [applyMask]
  | x :: xs, y :: ys, [] => by simp [applyMask_nil_right]
  | x :: xs, y :: ys, z :: zs => by
    have ih := applyMask_zipWith_zip₃ f xs ys zs
    simp only [zipWith_cons_cons, applyMask_cons, zip_cons_cons, filter_cons]
    cases h : f x y <;> simp [ih]

theorem applyMask_all_false (m : List Bool) (l : List α) (h : ∀ b ∈ m, b = false) : applyMask m l = [] := by
  induction m generalizing l with
  | nil => simp [applyMask]
  | cons b m ih =>
    cases l with
    | nil => simp [applyMask]
    | cons x xs =>
      have hb : b = false := h b (by simp)
      subst hb
      rw [applyMask_cons]
      simpa using ih xs (fun b hb => h b (by simp [hb]))

theorem applyMask_sublist (m : List Bool) (l : List α) : (applyMask m l).Sublist l := by
  induction m generalizing l with
  | nil => simp [applyMask]
  | cons b m ih =>
    cases l with
    | nil => simp [applyMask]
    | cons x xs =>
      rw [applyMask_cons]
      cases b
      · simpa using (ih xs).trans (sublist_cons_self x xs)
      · simpa using (ih xs)

theorem length_applyMask (m : List Bool) (l : List α) (h : m.length ≤ l.length) :
    (applyMask m l).length = m.count true := by
  induction m generalizing l with
  | nil => simp [applyMask]
  | cons b m ih =>
    cases l with
    | nil => simp at h
    | cons x xs =>
      rw [applyMask_cons]
      have := ih xs (by simpa using h)
      cases b <;> simp [this]

theorem mem_zipWith_zip (f : α → β → γ) : ∀ (xs : List α) (ys : List β) (c : γ),
    c ∈ zipWith f xs ys → ∃ p ∈ xs.zip ys, c = f p.1 p.2
  | [], _, c, h => by simp at h
  | _ :: _, [], c, h => by simp at h
  | x :: xs, y :: ys, c, h => by
    simp only [zipWith_cons_cons, mem_cons] at h
    rcases h with rfl | h
    · exact ⟨(x, y), by simp, rfl⟩
    · obtain ⟨p, hp, rfl⟩ := mem_zipWith_zip f xs ys c h
      exact ⟨p, by simp [hp], rfl⟩

/-! ### index enumeration -/

theorem length_prod (shape : List Nat) : (prod shape).length = shape.foldr (· * ·) 1 := by
  induction shape with
  | nil => simp [prod]
  | cons n rest ih =>
    simp only [prod, length_flatMap, length_map, ih, foldr_cons]
    induction n with
    | zero => simp
    | succ k ihk => simp [range_succ, ihk, Nat.succ_mul]

theorem mem_prod (shape : List Nat) (p : List Nat) :
    p ∈ prod shape ↔ p.length = shape.length ∧ ∀ k (h : k < p.length) (h' : k < shape.length), p[k] < shape[k] := by
  induction shape generalizing p with
  | nil =>
    simp only [prod, mem_singleton, length_nil]
    constructor
    · rintro rfl; simp
    · rintro ⟨h, _⟩; exact length_eq_zero_iff.mp h
  | cons n rest ih =>
    simp only [prod, mem_flatMap, mem_range, mem_map]
    constructor
    · rintro ⟨i, hi, q, hq, rfl⟩
      obtain ⟨hl, hb⟩ := (ih q).mp hq
      refine ⟨by simp [hl], ?_⟩
      intro k h h'
      cases k with
      | zero => simpa using hi
      | succ k => simpa using hb k (by simpa using h) (by simpa using h')
    · rintro ⟨hl, hb⟩
      cases p with
      | nil => simp at hl
      | cons i q =>
        have h0 := hb 0 (by simp) (by simp)
        simp only [getElem_cons_zero] at h0
        refine ⟨i, h0, q, (ih q).mpr ⟨by simpa using hl, ?_⟩, rfl⟩
        intro k h h'
        have hk := hb (k + 1) (by simpa using h) (by simpa using h')
        simpa only [getElem_cons_succ] using hk

/-- no index tuple is enumerated twice -/
theorem nodup_prod (shape : List Nat) : (prod shape).Nodup := by
  induction shape with
  | nil => simp [prod]
  | cons n rest ih =>
    simp only [prod, Nodup]
    rw [pairwise_flatMap]
    refine ⟨fun i _ => ?_, ?_⟩
    · rw [pairwise_map]; exact ih.imp (fun h => by simpa using h)
    · have hr : (range n).Pairwise (· ≠ ·) := nodup_range
      refine hr.imp ?_
      intro a b hab x hx y hy
      simp only [mem_map] at hx hy
      obtain ⟨q, _, rfl⟩ := hx
      obtain ⟨q', _, rfl⟩ := hy
      simp [hab]

/-! ### lemmas and specification-level definitions used by the property theorems -/

theorem label_mkSeries (vw : View) (call : Call) (xn yn : String) (carry : Bool) (lab : Option String) :
    (mkSeries vw call xn yn carry lab).label = lab := rfl

theorem xySeries_labels (vw : View) (call : Call) (zs : List ZVal) :
    (xySeries vw call zs).map (·.label) = prepareZLabels zs := by
  simp only [xySeries, prepareZLabels, map_map]
  apply map_congr_left
  intro zv _
  cases zv <;> rfl

theorem hist_labels (vw : View) (call : Call) (zs : List ZVal) :
    (prepareHistogram vw call zs).map (·.label) = prepareZLabels zs := by
  simp only [prepareHistogram, prepareZLabels, map_map]
  apply map_congr_left
  intro zv _
  cases zv <;> rfl

theorem series_plotSingle (vw : View) (call : Call) (h : call.kind ≠ .heatmap) :
    (plotSingle vw call).series =
      if call.kind = .histogram then prepareHistogram vw call (prepareZVals vw.ds call)
      else xySeries vw call (prepareZVals vw.ds call) := by
  cases hk : call.kind <;> simp_all [plotSingle, prepareDataSingle, stepData, stepLegend, stepZLabels, stepZVals]

/-- the flattened x and y arrays of a slice (what `gen_xy` masks) -/
def sliceXs (vw : View) (call : Call) (xn yn : String) (carry : Bool) : List Cell :=
  vw.flat (vw.bdims ([xn, yn] ++ if carry then carriedNames call else [])) xn

def sliceYs (vw : View) (call : Call) (xn yn : String) (carry : Bool) : List Cell :=
  vw.flat (vw.bdims ([xn, yn] ++ if carry then carriedNames call else [])) yn

def sliceOf (vw : View) (call : Call) (xn yn : String) (carry : Bool) (n : String) : List Cell :=
  vw.flat (vw.bdims ([xn, yn] ++ if carry then carriedNames call else [])) n

/-- the slice arrays are the variables evaluated at every index tuple of the broadcast dimensions, in C order -/
theorem sliceOf_eq (vw : View) (call : Call) (xn yn : String) (carry : Bool) (n : String) :
    sliceOf vw call xn yn carry n =
      (prod ((vw.bdims ([xn, yn] ++ if carry then carriedNames call else [])).map vw.ds.size)).map fun p =>
        vw.ds.cell n (vw.envOf (vw.bdims ([xn, yn] ++ if carry then carriedNames call else [])) p) := rfl

/-- no array besides x and y enters the mask (from the extracted list of mask arrays) -/
theorem extraMaskNames_nil (call : Call) (xn yn : String) (carry : Bool) : extraMaskNames call xn yn carry = [] := by
  simp only [extraMaskNames, Gen.maskArrays, Gen.Default.maskArrays]
  rfl

/-- hence `not_null` is the source's combination of "x finite" and "y finite", whatever else is carried -/
theorem notNull_mkSeries (vw : View) (call : Call) (xn yn : String) (carry : Bool) (bd : List String) (xs ys : List Cell) :
    notNull vw bd xs ys (extraMaskNames call xn yn carry) =
      zipWith (fun a b => Gen.maskIsBothFinite a.isFinite b.isFinite) xs ys := by
  rw [extraMaskNames_nil]
  rfl

theorem carried_mkSeries (vw : View) (call : Call) (xn yn : String) (lab : Option String) :
    (mkSeries vw call xn yn true lab).ye = call.yErr.map (fun n => applyMask
      (zipWith (fun a b => Gen.maskIsBothFinite a.isFinite b.isFinite) (sliceXs vw call xn yn true) (sliceYs vw call xn yn true))
      (sliceOf vw call xn yn true n)) ∧
    (mkSeries vw call xn yn true lab).xe = call.xErr.map (fun n => applyMask
      (zipWith (fun a b => Gen.maskIsBothFinite a.isFinite b.isFinite) (sliceXs vw call xn yn true) (sliceYs vw call xn yn true))
      (sliceOf vw call xn yn true n)) ∧
    (call.kind = .scatter → (mkSeries vw call xn yn true lab).c = call.c.map (fun n => applyMask
      (zipWith (fun a b => Gen.maskIsBothFinite a.isFinite b.isFinite) (sliceXs vw call xn yn true) (sliceYs vw call xn yn true))
      (sliceOf vw call xn yn true n))) := by
  refine ⟨?_, ?_, ?_⟩
  · simp only [mkSeries, notNull_mkSeries, sliceXs, sliceYs, sliceOf, if_true]
  · simp only [mkSeries, notNull_mkSeries, sliceXs, sliceYs, sliceOf, if_true]
  · intro hk
    simp [mkSeries, notNull_mkSeries, hk, sliceXs, sliceYs, sliceOf]

theorem xy_mkSeries (vw : View) (call : Call) (xn yn : String) (carry : Bool) (lab : Option String) :
    (mkSeries vw call xn yn carry lab).x = applyMask
      (zipWith (fun a b => Gen.maskIsBothFinite a.isFinite b.isFinite) (sliceXs vw call xn yn carry) (sliceYs vw call xn yn carry))
      (sliceXs vw call xn yn carry) ∧
    (mkSeries vw call xn yn carry lab).y = applyMask
      (zipWith (fun a b => Gen.maskIsBothFinite a.isFinite b.isFinite) (sliceXs vw call xn yn carry) (sliceYs vw call xn yn carry))
      (sliceYs vw call xn yn carry) := by
  refine ⟨?_, ?_⟩ <;> simp only [mkSeries, notNull_mkSeries, sliceXs, sliceYs]

/-- the cells of the slice a histogram series is taken from -/
def histCells (vw : View) (call : Call) (zv : ZVal) : List Cell :=
  let sv := sliceView vw call zv
  let n := match zv with
    | .var n => n
    | _ => call.x1
  sv.flat (sv.freeDims n) n

theorem maskInvalid_spec (c : Cell) : maskInvalid c = c ∨ (c.isFinite = false ∧ maskInvalid c = .nan) := by
  cases c <;> simp [maskInvalid, Cell.isFinite]

/-- the selection a grid position stands for -/
def gridFixed (row col : Option String) (i j : Nat) : Env :=
  (match row with | some d => [(d, i)] | none => []) ++ (match col with | some d => [(d, j)] | none => [])

def nRows (ds : DS) (row : Option String) : Nat := match row with | some r => ds.size r | none => 1

def nCols (ds : DS) (col : Option String) : Nat := match col with | some c => ds.size c | none => 1

theorem calcRowCol_get (ds : DS) (row col : Option String) (i j : Nat) (hi : i < nRows ds row) (hj : j < nCols ds col) :
    ((calcRowCol ds row col)[i]?).bind (·[j]?) = some (i, j, gridFixed row col i j) := by
  cases row <;> cases col <;>
    simp_all [calcRowCol, gridFixed, nRows, nCols, getElem?_mapIdx, getElem?_range]

theorem calcRowCol_shape (ds : DS) (row col : Option String) :
    (calcRowCol ds row col).length = nRows ds row ∧ ∀ r ∈ calcRowCol ds row col, r.length = nCols ds col := by
  cases row <;> cases col <;> simp [calcRowCol, nRows, nCols, mem_mapIdx] <;>
    (intro r i _ h; subst h; simp)

theorem gridTitle_spec (ds : DS) (call : Call) (c : String) (hc : call.col = some c) (i j : Nat) :
    gridTitle ds call i j = if i = 0 then some s!"{c} = {(ds.tlabels c).getD j ""}" else none := by
  simp [gridTitle, hc]

theorem gridRowLabel_spec (ds : DS) (call : Call) (r : String) (hr : call.row = some r) (i j n : Nat) :
    gridRowLabel ds call i j n = if j + 1 = n then some s!"{r} = {(ds.tlabels r).getD i ""}" else none := by
  simp [gridRowLabel, hr]

/-- the colour a quantity is mapped to, for an arbitrary colour map `cmap`, normalisation `norm` of data values and
embedding `ofRat` of the relative positions used for non-numeric coordinates -/
def colourOf {Q C : Type} (cmap : Q → C) (norm : Cell → Q) (ofRat : Rat → Q) : Quant → C
  | .cell c => cmap (norm c)
  | .lin r => cmap (ofRat r)

theorem linspace01_first (n : Nat) : linspace01 0 n = 0 := by
  unfold linspace01
  split
  · rfl
  · simp [Rat.div_def, Rat.zero_mul]

end PlotPrep
