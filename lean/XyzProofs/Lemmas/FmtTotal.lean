import XyzProofs.Lemmas.Fmt
/-!
`sci` never gives up on a positive number: the digit-count estimate of `⌊log10 q⌋` is right, so the self-check of
`sci` always passes.  This turns the C20 theorems (stated for `format i = some o`) into statements about every input
with `err > 0`.
-/
namespace Fmt

theorem ndigits_pos (n : ℕ) : 0 < ndigits n := Nat.length_toDigits_pos

theorem ndigits_upper (n : ℕ) : n < 10 ^ ndigits n :=
  (Nat.length_toDigits_le_iff (b := 10) (by norm_num) (ndigits_pos n)).mp (Nat.le_refl _)

theorem ndigits_lower (n : ℕ) (hn : 0 < n) : 10 ^ (ndigits n - 1) ≤ n := by
  by_cases h1 : ndigits n = 1
  · rw [h1]; simp; omega
  · have hp := ndigits_pos n
    have hk : 0 < ndigits n - 1 := by omega
    by_contra hc
    have hlt : n < 10 ^ (ndigits n - 1) := by omega
    have h2 : (Nat.toDigits 10 n).length ≤ ndigits n - 1 :=
      (Nat.length_toDigits_le_iff (b := 10) (n := n) (by norm_num) hk).mpr hlt
    have h3 : (Nat.toDigits 10 n).length = ndigits n := rfl
    omega

theorem ten_zpow_split (a b : ℤ) : (10 : ℚ) ^ (a + b) = (10 : ℚ) ^ a * (10 : ℚ) ^ b :=
  zpow_add₀ (by norm_num) a b

/-- the digit-count estimate brackets `q` within two decades -/
theorem estimate_bounds {q : ℚ} (hq : 0 < q) :
    (10 : ℚ) ^ (((ndigits q.num.natAbs : ℤ) - (ndigits q.den : ℤ)) - 1) ≤ q ∧
    q < (10 : ℚ) ^ (((ndigits q.num.natAbs : ℤ) - (ndigits q.den : ℤ)) + 1) := by
  have hnum : 0 < q.num := Rat.num_pos.mpr hq
  have hden : 0 < q.den := q.den_pos
  set a := q.num.natAbs with ha
  set b := q.den with hb
  have ha0 : 0 < a := by omega
  have haq : (q.num : ℚ) = (a : ℚ) := by
    have : q.num = (a : ℤ) := by omega
    rw [this]; simp
  have hqab : q = (a : ℚ) / (b : ℚ) := by
    conv_lhs => rw [← Rat.num_div_den q]
    rw [haq]
  have hbq : (0 : ℚ) < (b : ℚ) := by exact_mod_cast hden
  have ua : (a : ℚ) < (10 : ℚ) ^ ((ndigits a : ℤ)) := by
    rw [zpow_natCast]; exact_mod_cast ndigits_upper a
  have ub : (b : ℚ) < (10 : ℚ) ^ ((ndigits b : ℤ)) := by
    rw [zpow_natCast]; exact_mod_cast ndigits_upper b
  have la : (10 : ℚ) ^ ((ndigits a : ℤ) - 1) ≤ (a : ℚ) := by
    have h := ndigits_lower a ha0
    have hp := ndigits_pos a
    have : ((ndigits a : ℤ) - 1) = ((ndigits a - 1 : ℕ) : ℤ) := by omega
    rw [this, zpow_natCast]; exact_mod_cast h
  have lb : (10 : ℚ) ^ ((ndigits b : ℤ) - 1) ≤ (b : ℚ) := by
    have h := ndigits_lower b hden
    have hp := ndigits_pos b
    have : ((ndigits b : ℤ) - 1) = ((ndigits b - 1 : ℕ) : ℤ) := by omega
    rw [this, zpow_natCast]; exact_mod_cast h
  constructor
  · -- 10^(da - db - 1) * b ≤ 10^(da - db - 1) * 10^db = 10^(da - 1) ≤ a
    rw [hqab, le_div_iff₀ hbq]
    have hpos : (0 : ℚ) < (10 : ℚ) ^ (((ndigits a : ℤ) - (ndigits b : ℤ)) - 1) := by positivity
    have e1 : (10 : ℚ) ^ (((ndigits a : ℤ) - (ndigits b : ℤ)) - 1) * (10 : ℚ) ^ ((ndigits b : ℤ)) =
        (10 : ℚ) ^ ((ndigits a : ℤ) - 1) := by
      rw [← ten_zpow_split]; congr 1; ring
    nlinarith
  · rw [hqab, div_lt_iff₀ hbq]
    have hpos : (0 : ℚ) < (10 : ℚ) ^ (((ndigits a : ℤ) - (ndigits b : ℤ)) + 1) := by positivity
    have e1 : (10 : ℚ) ^ (((ndigits a : ℤ) - (ndigits b : ℤ)) + 1) * (10 : ℚ) ^ ((ndigits b : ℤ) - 1) =
        (10 : ℚ) ^ ((ndigits a : ℤ)) := by
      rw [← ten_zpow_split]; congr 1; ring
    nlinarith

/-- **`floorLog10` is right**: `10^e ≤ q < 10^(e+1)` -/
theorem floorLog10_spec {q : ℚ} (hq : 0 < q) :
    (10 : ℚ) ^ (floorLog10 q) ≤ q ∧ q < (10 : ℚ) ^ (floorLog10 q + 1) := by
  obtain ⟨hl, hu⟩ := estimate_bounds hq
  unfold floorLog10
  simp only
  split_ifs with h
  · rw [pow10_eq] at h
    exact ⟨h, hu⟩
  · rw [pow10_eq] at h
    rw [not_le] at h
    refine ⟨hl, ?_⟩
    have : ((ndigits q.num.natAbs : ℤ) - (ndigits q.den : ℤ)) - 1 + 1 = (ndigits q.num.natAbs : ℤ) - (ndigits q.den : ℤ) := by ring
    rw [this]; exact h

theorem round_bounds {x : ℚ} {lo hi : ℤ} (hlo : (lo : ℚ) ≤ x) (hhi : x < (hi : ℚ)) :
    lo ≤ roundHalfEven x ∧ roundHalfEven x ≤ hi := by
  have h := abs_le.mp (round_spec x)
  constructor
  · have : ((lo - 1 : ℤ) : ℚ) < (roundHalfEven x : ℚ) := by push_cast; linarith [h.2]
    have : lo - 1 < roundHalfEven x := by exact_mod_cast this
    omega
  · have : (roundHalfEven x : ℚ) < ((hi + 1 : ℤ) : ℚ) := by push_cast; linarith [h.1]
    have : roundHalfEven x < hi + 1 := by exact_mod_cast this
    omega

/-- **`sci` is total on positive numbers**: its self-check always passes -/
theorem sciRaw_ok {q : ℚ} (hq : 0 < q) (p : ℕ) : sciOk q p (sciRaw q p) = true := by
  obtain ⟨hlo, hhi⟩ := floorLog10_spec hq
  set e := floorLog10 q with he
  have hu : (0 : ℚ) < (10 : ℚ) ^ (e - (p : ℤ)) := by positivity
  have hsplit_lo : (10 : ℚ) ^ (p : ℤ) * (10 : ℚ) ^ (e - (p : ℤ)) = (10 : ℚ) ^ e := by
    rw [← ten_zpow_split]; congr 1; ring
  have hsplit_hi : (10 : ℚ) ^ ((p : ℤ) + 1) * (10 : ℚ) ^ (e - (p : ℤ)) = (10 : ℚ) ^ (e + 1) := by
    rw [← ten_zpow_split]; congr 1; ring
  have hxlo : ((((10 ^ p : ℕ) : ℤ)) : ℚ) ≤ q / (10 : ℚ) ^ (e - (p : ℤ)) := by
    rw [le_div_iff₀ hu]
    have : ((((10 ^ p : ℕ) : ℤ)) : ℚ) = (10 : ℚ) ^ (p : ℤ) := by push_cast; rw [zpow_natCast]
    rw [this, hsplit_lo]; exact hlo
  have hxhi : q / (10 : ℚ) ^ (e - (p : ℤ)) < ((((10 ^ (p + 1) : ℕ) : ℤ)) : ℚ) := by
    rw [div_lt_iff₀ hu]
    have : ((((10 ^ (p + 1) : ℕ) : ℤ)) : ℚ) = (10 : ℚ) ^ ((p : ℤ) + 1) := by
      push_cast; rw [← zpow_natCast]; congr 1
    rw [this, hsplit_hi]; exact hhi
  obtain ⟨hmlo, hmhi⟩ := round_bounds hxlo hxhi
  have herr := abs_le.mp (round_spec (q / (10 : ℚ) ^ (e - (p : ℤ))))
  set m := roundHalfEven (q / (10 : ℚ) ^ (e - (p : ℤ))) with hm
  have hqx : q = (q / (10 : ℚ) ^ (e - (p : ℤ))) * (10 : ℚ) ^ (e - (p : ℤ)) := by field_simp
  -- the error bound in units of u
  have herr1 : q - (m : ℚ) * (10 : ℚ) ^ (e - (p : ℤ)) ≤ 1 / 2 * (10 : ℚ) ^ (e - (p : ℤ)) := by
    have := herr.2
    nlinarith
  have herr2 : (m : ℚ) * (10 : ℚ) ^ (e - (p : ℤ)) - q ≤ 1 / 2 * (10 : ℚ) ^ (e - (p : ℤ)) := by
    have := herr.1
    nlinarith
  have hraw : sciRaw q p = if m = ((10 ^ (p + 1) : ℕ) : ℤ) then (((10 ^ p : ℕ) : ℤ), e + 1) else (m, e) := by
    unfold sciRaw
    simp only [pow10_eq, ← he, ← hm]
  rw [hraw]
  split_ifs with hcarry
  · -- the mantissa rounded up to 10^(p+1): carried into the exponent
    simp only [sciOk, Bool.and_eq_true, decide_eq_true_eq, pow10_eq]
    have hu' : (10 : ℚ) ^ (e + 1 - (p : ℤ)) = 10 * (10 : ℚ) ^ (e - (p : ℤ)) := by
      have : e + 1 - (p : ℤ) = 1 + (e - (p : ℤ)) := by ring
      rw [this, ten_zpow_split]; norm_num
    have hmq : (m : ℚ) = 10 * ((((10 ^ p : ℕ) : ℤ)) : ℚ) := by
      rw [hcarry]; push_cast; ring
    refine ⟨⟨⟨le_refl _, ?_⟩, ?_⟩, ?_⟩
    · exact_mod_cast Nat.pow_lt_pow_right (by norm_num : 1 < 10) (Nat.lt_succ_self p)
    · rw [hu']; rw [hmq] at herr1; nlinarith
    · rw [hu']; rw [hmq] at herr2; nlinarith
  · simp only [sciOk, Bool.and_eq_true, decide_eq_true_eq, pow10_eq]
    refine ⟨⟨⟨hmlo, ?_⟩, herr1⟩, herr2⟩
    omega

theorem sci_total {q : ℚ} (hq : 0 < q) (p : ℕ) : ∃ m e, sci q p = some (m, e) := by
  refine ⟨(sciRaw q p).1, (sciRaw q p).2, ?_⟩
  unfold sci
  simp [sciRaw_ok hq p]


end Fmt
