import XyzModel.Crop
import XyzProofs.Lemmas.Batch
import XyzProofs.Lemmas.Core
/-! Helper lemmas for the coarse crop model (association lists, grow, stream). -/
namespace Crop
open Core List

variable {γ β : Type}

theorem lookup_nil (k : Nat) : lookup ([] : List (Nat × γ)) k = none := rfl

theorem lookup_append_singleton (l : List (Nat × γ)) (k k' : Nat) (v : γ) :
    lookup (l ++ [(k, v)]) k' = match lookup l k' with
      | some x => some x
      | none => if k = k' then some v else none := by
  unfold lookup
  rw [List.find?_append]
  cases h : l.find? (fun x => x.1 == k') with
  | some x => simp
  | none =>
    by_cases hk : k = k'
    · subst hk; simp
    · have : (k == k') = false := by simpa using hk
      simp [List.find?_cons, this, hk]

theorem lookup_filter_ne_self (l : List (Nat × γ)) (k : Nat) :
    lookup (l.filter (·.1 != k)) k = none := by
  unfold lookup
  have : (l.filter (·.1 != k)).find? (fun x => x.1 == k) = none := by
    apply List.find?_eq_none.mpr
    intro x hx
    have := (List.mem_filter.mp hx).2
    simpa using this
  rw [this]; rfl

theorem lookup_filter_ne_other (l : List (Nat × γ)) (k k' : Nat) (h : k' ≠ k) :
    lookup (l.filter (·.1 != k)) k' = lookup l k' := by
  unfold lookup
  congr 1
  induction l with
  | nil => rfl
  | cons x xs ih =>
    by_cases hx : x.1 = k
    · have hne : (x.1 == k') = false := by
        rw [beq_eq_false_iff_ne]; intro hh; exact h (hh ▸ hx)
      have hf : (x.1 != k) = false := by rw [bne_eq_false_iff_eq]; exact hx
      rw [List.filter_cons_of_neg (by simp [hf]), List.find?_cons_of_neg (by simp [hne])]
      exact ih
    · have hf : (x.1 != k) = true := by rw [bne_iff_ne]; exact hx
      simp only [List.filter_cons, hf, ↓reduceIte]
      by_cases hk' : x.1 = k'
      · have : (x.1 == k') = true := by rw [beq_iff_eq]; exact hk'
        rw [List.find?_cons_of_pos (by exact this), List.find?_cons_of_pos (by exact this)]
      · have : (x.1 == k') = false := by rw [beq_eq_false_iff_ne]; exact hk'
        rw [List.find?_cons_of_neg (by simp [this]), List.find?_cons_of_neg (by simp [this])]
        exact ih

theorem lookup_insert_self (l : List (Nat × γ)) (k : Nat) (v : γ) : lookup (insert l k v) k = some v := by
  unfold insert
  rw [lookup_append_singleton, lookup_filter_ne_self]
  simp

theorem lookup_insert_ne (l : List (Nat × γ)) (k k' : Nat) (v : γ) (h : k' ≠ k) :
    lookup (insert l k v) k' = lookup l k' := by
  unfold insert
  rw [lookup_append_singleton, lookup_filter_ne_other l k k' h]
  cases lookup l k' with
  | some x => rfl
  | none => simp [Ne.symm h]

theorem lookup_erase_self (l : List (Nat × γ)) (k : Nat) : lookup (erase l k) k = none :=
  lookup_filter_ne_self l k

theorem lookup_erase_ne (l : List (Nat × γ)) (k k' : Nat) (h : k' ≠ k) : lookup (erase l k) k' = lookup l k' :=
  lookup_filter_ne_other l k k' h

theorem lookup_foldl_insert_enumFrom (old : List (Nat × γ)) (new : List γ) (off k : Nat) :
    lookup ((enumFrom off new).foldl (fun acc kv => insert acc kv.1 kv.2) old) k =
      if h : off ≤ k ∧ k < off + new.length then some (new[k - off]'(by omega)) else lookup old k := by
  induction new generalizing old off with
  | nil =>
    have h : ¬ (off ≤ k ∧ k < off + ([] : List γ).length) := by simp
    simp only [enumFrom, List.foldl_nil, h, dite_false]
  | cons x xs ih =>
    simp only [enumFrom, List.foldl_cons]
    rw [ih]
    by_cases hk : k = off
    · subst hk
      have h1 : ¬ (k + 1 ≤ k ∧ k < k + 1 + xs.length) := by omega
      have h2 : k ≤ k ∧ k < k + (x :: xs).length := by simp
      simp only [h1, h2, dite_false, and_self, dite_true, lookup_insert_self, Nat.sub_self, List.getElem_cons_zero]
    · by_cases h1 : off + 1 ≤ k ∧ k < off + 1 + xs.length
      · have h2 : off ≤ k ∧ k < off + (x :: xs).length := by simp; omega
        simp only [h1, h2, and_self, dite_true]
        congr 1
        have : k - off = (k - (off + 1)) + 1 := by omega
        simp only [this, List.getElem_cons_succ]
      · have h2 : ¬ (off ≤ k ∧ k < off + (x :: xs).length) := by simp; omega
        simp only [h1, h2, dite_false]
        exact lookup_insert_ne _ _ _ _ hk

/-- inserting numbered files one by one: file `k` (1-based) ends up holding the `k`-th new entry, others are untouched -/
theorem lookup_foldl_insert_enum (old : List (Nat × γ)) (new : List γ) (k : Nat) :
    lookup ((enumFrom1 new).foldl (fun acc kv => insert acc kv.1 kv.2) old) k =
      if h : 1 ≤ k ∧ k ≤ new.length then some (new[k - 1]'(by omega)) else lookup old k := by
  unfold enumFrom1
  rw [lookup_foldl_insert_enumFrom]
  by_cases h : 1 ≤ k ∧ k ≤ new.length
  · have h' : 1 ≤ k ∧ k < 1 + new.length := by omega
    simp [h, h']
  · have h' : ¬ (1 ≤ k ∧ k < 1 + new.length) := by omega
    simp [h, h']

end Crop
