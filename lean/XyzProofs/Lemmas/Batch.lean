import XyzModel.Batch
/-! Helper lemmas about the Sower state machine. Property theorems are in `XyzProofs/Props/C07.lean`. -/
namespace Batch
open List

variable {α : Type}

theorem step_flat (c : Cfg) (s : St α) (x : α) :
    (step c s x).out.flatten ++ (step c s x).cur = s.out.flatten ++ s.cur ++ [x] := by
  unfold step
  simp only []
  split <;> simp [List.append_assoc]

theorem foldl_flat (c : Cfg) (l : List α) (s : St α) :
    (l.foldl (step c) s).out.flatten ++ (l.foldl (step c) s).cur = s.out.flatten ++ s.cur ++ l := by
  induction l generalizing s with
  | nil => simp
  | cons x xs ih => simp [List.foldl, ih, step_flat, List.append_assoc]

/-- every batch written so far is non-empty -/
theorem step_nonempty (c : Cfg) (s : St α) (x : α) (h : ∀ b ∈ s.out, b ≠ []) :
    ∀ b ∈ (step c s x).out, b ≠ [] := by
  unfold step
  simp only []
  split
  · intro b hb
    simp at hb
    rcases hb with hb | hb
    · exact h b hb
    · subst hb; simp
  · exact h

theorem foldl_nonempty (c : Cfg) (l : List α) (s : St α) (h : ∀ b ∈ s.out, b ≠ []) :
    ∀ b ∈ (l.foldl (step c) s).out, b ≠ [] := by
  induction l generalizing s with
  | nil => simpa using h
  | cons x xs ih => exact ih _ (step_nonempty c s x h)

/-- invariant: finished batches have exactly the prescribed size, the open one is strictly smaller -/
def Inv (c : Cfg) (s : St α) : Prop :=
  (∀ j (h : j < s.out.length), (s.out[j]).length = sizeOf c j) ∧
  s.cur.length < sizeOf c s.out.length

theorem step_inv (c : Cfg) (hb : 1 ≤ c.batchsize) (s : St α) (x : α) (h : Inv c s) :
    Inv c (step c s x) := by
  obtain ⟨h1, h2⟩ := h
  unfold step
  simp only []
  split
  · rename_i heq
    refine ⟨?_, ?_⟩
    · intro j hj
      simp at hj
      by_cases hjl : j < s.out.length
      · simp [List.getElem_append_left hjl, h1 j hjl]
      · have : j = s.out.length := by omega
        subst this
        simp only [Gen.sowerFlush, Gen.Default.sowerFlush, decide_eq_true_eq] at heq
        simp only [sizeOf, List.getElem_append_right (Nat.le_refl _), Nat.sub_self, List.getElem_cons_zero]
        simp only [List.length_append, List.length_cons, List.length_nil] at heq ⊢
        split at heq <;> rename_i hx <;> simp [hx] <;> omega
    · simp only [sizeOf, List.length_nil]; omega
  · rename_i hne
    refine ⟨h1, ?_⟩
    simp only [Gen.sowerFlush, Gen.Default.sowerFlush, decide_eq_true_eq] at hne
    simp only [sizeOf, List.length_append, List.length_cons, List.length_nil] at hne h2 ⊢
    split at hne <;> rename_i hx <;> simp [hx] at h2 ⊢ <;> omega

theorem foldl_inv (c : Cfg) (hb : 1 ≤ c.batchsize) (l : List α) (s : St α) (h : Inv c s) :
    Inv c (l.foldl (step c) s) := by
  induction l generalizing s with
  | nil => simpa using h
  | cons x xs ih => exact ih _ (step_inv c hb s x h)

theorem init_inv (c : Cfg) (hb : 1 ≤ c.batchsize) : Inv c ({ cur := [], out := [] } : St α) := by
  refine ⟨by intro j h; simp at h, ?_⟩
  simp [sizeOf]; omega

/-- sum of the first `m` values of `g` -/
def sumG (g : Nat → Nat) : Nat → Nat
  | 0 => 0
  | m+1 => sumG g m + g m

theorem sumG_succ' (g : Nat → Nat) (m : Nat) : sumG g (m+1) = g 0 + sumG (fun j => g (j+1)) m := by
  induction m with
  | zero => simp [sumG]
  | succ k ih => rw [sumG, ih]; simp [sumG]; omega

theorem length_flatten_of_sizes' (g : Nat → Nat) (out : List (List α))
    (h : ∀ j (hj : j < out.length), (out[j]).length = g j) :
    out.flatten.length = sumG g out.length := by
  induction out generalizing g with
  | nil => simp [sumG]
  | cons b t ih =>
    have h0 := h 0 (by simp)
    have ht : ∀ j (hj : j < t.length), (t[j]).length = g (j+1) := by
      intro j hj
      have := h (j+1) (by simp; omega)
      simpa using this
    simp only [List.flatten_cons, List.length_append, List.length_cons]
    rw [sumG_succ', ih (fun j => g (j+1)) ht]
    simp at h0
    omega

/-- sum of the first `m` prescribed sizes -/
def sumSizes (c : Cfg) (m : Nat) : Nat := sumG (sizeOf c) m

theorem length_flatten_of_sizes (c : Cfg) (out : List (List α))
    (h : ∀ j (hj : j < out.length), (out[j]).length = sizeOf c j) :
    out.flatten.length = sumSizes c out.length :=
  length_flatten_of_sizes' (sizeOf c) out h

end Batch
