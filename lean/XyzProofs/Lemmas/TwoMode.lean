/-!
# `same_gen`: two generated definitions denote the same function

A translated caller mentions `Gen.callee`; the committed last-good text of the caller (used when the caller cannot be
translated) mentions `Gen.Default.callee`.  The two callees are the same function whenever the callee's source is what
it was when the default was committed — definitionally (`rfl`) if the translation is textually the default, and otherwise
(a harmless rewrite of the callee: reordered tests, a dropped empty branch) after unfolding both and splitting every test.
-/
open Lean.Parser.Tactic in
syntax "same_gen" "[" simpLemma,* "]" : tactic
macro_rules
  | `(tactic| same_gen [$ds,*]) => `(tactic| first
      | rfl
      | (repeat (apply funext; intro _)
         simp only [$ds,*]
         repeat' split
         all_goals simp_all))
