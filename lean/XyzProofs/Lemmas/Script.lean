import XyzModel.Script
/-! Helper definitions and lemmas for C16 (generated cluster scripts). -/
namespace Scr
open List

/-! ### bracket / quote balance -/

/-- as many opening as closing brackets of each kind, quotes of each kind paired -/
def Bal (s : Str) : Prop :=
  s.count '(' = s.count ')' ∧ s.count '[' = s.count ']' ∧ s.count '{' = s.count '}' ∧
  s.count '\'' % 2 = 0 ∧ s.count '"' % 2 = 0

instance (s : Str) : Decidable (Bal s) := by unfold Bal; infer_instance

/-- no bracket and no quote at all -/
def Plain (s : Str) : Prop :=
  ∀ c ∈ s, c ≠ '(' ∧ c ≠ ')' ∧ c ≠ '[' ∧ c ≠ ']' ∧ c ≠ '{' ∧ c ≠ '}' ∧ c ≠ '\'' ∧ c ≠ '"'

theorem bal_nil : Bal [] := by decide

theorem bal_append {a b : Str} (ha : Bal a) (hb : Bal b) : Bal (a ++ b) := by
  unfold Bal at *
  simp only [List.count_append]
  omega

theorem bal_of_plain {s : Str} (h : Plain s) : Bal s := by
  have z : ∀ c : Char, (c = '(' ∨ c = ')' ∨ c = '[' ∨ c = ']' ∨ c = '{' ∨ c = '}' ∨ c = '\'' ∨ c = '"') →
      s.count c = 0 := by
    intro c hc
    apply List.count_eq_zero.mpr
    intro hm
    have := h c hm
    rcases hc with hc | hc | hc | hc | hc | hc | hc | hc <;> simp_all
  unfold Bal
  rw [z '(' (by simp), z ')' (by simp), z '[' (by simp), z ']' (by simp), z '{' (by simp), z '}' (by simp),
      z '\'' (by simp), z '"' (by simp)]
  simp

theorem plain_nil : Plain [] := by intro c hc; simp at hc

theorem plain_append {a b : Str} (ha : Plain a) (hb : Plain b) : Plain (a ++ b) := by
  intro c hc
  rcases List.mem_append.mp hc with h | h
  · exact ha c h
  · exact hb c h

theorem plain_cons {c : Char} {s : Str}
    (hc : c ≠ '(' ∧ c ≠ ')' ∧ c ≠ '[' ∧ c ≠ ']' ∧ c ≠ '{' ∧ c ≠ '}' ∧ c ≠ '\'' ∧ c ≠ '"') (hs : Plain s) :
    Plain (c :: s) := by
  intro d hd
  rcases List.mem_cons.mp hd with h | h
  · subst h; exact hc
  · exact hs d h

theorem plain_replicate_zero (n : Nat) : Plain (List.replicate n '0') := by
  intro c hc
  have := (List.mem_replicate.mp hc).2
  subst this
  decide

/-- `( body )` is balanced when `body` is and contains no parenthesis -/
theorem bal_append_open_close {body : Str} (hb : Bal body) (h1 : '(' ∉ body) (h2 : ')' ∉ body) :
    Bal (['('] ++ (body ++ [')'])) := by
  have z1 := List.count_eq_zero.mpr h1
  have z2 := List.count_eq_zero.mpr h2
  unfold Bal at *
  simp only [List.count_append,
    show (['('] : Str).count '(' = 1 from by decide, show (['('] : Str).count ')' = 0 from by decide,
    show (['('] : Str).count '[' = 0 from by decide, show (['('] : Str).count ']' = 0 from by decide,
    show (['('] : Str).count '{' = 0 from by decide, show (['('] : Str).count '}' = 0 from by decide,
    show (['('] : Str).count '\'' = 0 from by decide, show (['('] : Str).count '"' = 0 from by decide,
    show ([')'] : Str).count '(' = 0 from by decide, show ([')'] : Str).count ')' = 1 from by decide,
    show ([')'] : Str).count '[' = 0 from by decide, show ([')'] : Str).count ']' = 0 from by decide,
    show ([')'] : Str).count '{' = 0 from by decide, show ([')'] : Str).count '}' = 0 from by decide,
    show ([')'] : Str).count '\'' = 0 from by decide, show ([')'] : Str).count '"' = 0 from by decide]
  omega

/-- wrapping bracket-free text in one pair of parentheses -/
theorem bal_wrap {body : Str} (h : Plain body) : Bal ('(' :: body ++ [')']) := by
  have e : '(' :: body ++ [')'] = ['('] ++ (body ++ [')']) := rfl
  rw [e]
  exact bal_append_open_close (bal_of_plain h) (fun hm => (h _ hm).1 rfl) (fun hm => (h _ hm).2.1 rfl)

theorem digitChar_plain (d : Nat) :
    digitChar d ≠ '(' ∧ digitChar d ≠ ')' ∧ digitChar d ≠ '[' ∧ digitChar d ≠ ']' ∧ digitChar d ≠ '{' ∧
    digitChar d ≠ '}' ∧ digitChar d ≠ '\'' ∧ digitChar d ≠ '"' := by
  unfold digitChar
  split <;> decide

theorem plain_natDigitsAux (fuel n : Nat) (acc : Str) (h : Plain acc) : Plain (natDigitsAux fuel n acc) := by
  induction fuel generalizing n acc with
  | zero => simpa [natDigitsAux] using h
  | succ k ih =>
    unfold natDigitsAux
    split
    · exact plain_cons (digitChar_plain n) h
    · exact ih _ _ (plain_cons (digitChar_plain _) h)

theorem plain_natDigits (n : Nat) : Plain (natDigits n) := plain_natDigitsAux _ _ _ plain_nil

theorem plain_joinSep (sep : Str) (hsep : Plain sep) :
    ∀ l : List Str, (∀ x ∈ l, Plain x) → Plain (joinSep sep l)
  | [], _ => by simpa [joinSep] using plain_nil
  | [a], h => by simpa [joinSep] using h a (by simp)
  | a :: b :: r, h => by
    simp only [joinSep]
    exact plain_append (plain_append (h a (by simp)) hsep)
      (plain_joinSep sep hsep (b :: r) (fun x hx => h x (List.mem_cons_of_mem _ hx)))

/-- Python's `repr` of an int tuple is balanced, for every tuple -/
theorem bal_reprTuple (l : List Nat) : Bal (reprTuple l) := by
  match l with
  | [] => decide
  | [a] =>
    have : reprTuple [a] = '(' :: (natDigits a ++ [',']) ++ [')'] := by simp [reprTuple]
    rw [this]
    exact bal_wrap (plain_append (plain_natDigits a) (by intro c hc; simp at hc; subst hc; decide))
  | a :: b :: r =>
    have : reprTuple (a :: b :: r) = '(' :: joinSep [',', ' '] ((a :: b :: r).map natDigits) ++ [')'] := by
      simp [reprTuple]
    rw [this]
    apply bal_wrap
    apply plain_joinSep
    · intro c hc; simp at hc; rcases hc with h | h <;> subst h <;> decide
    · intro x hx
      obtain ⟨n, _, rfl⟩ := List.mem_map.mp hx
      exact plain_natDigits n

theorem plain_intDigits (i : Int) : Plain (intDigits i) := by
  unfold intDigits
  split
  · exact plain_cons (by decide) (plain_natDigits _)
  · exact plain_natDigits _

theorem bal_reprRange (a b : Int) : Bal (reprRange a b) := by
  unfold reprRange
  apply bal_append (by decide +kernel)
  apply bal_wrap
  refine plain_append (plain_append (plain_intDigits a) ?_) (plain_intDigits b)
  intro c hc; simp at hc; rcases hc with h | h <;> subst h <;> decide

/-- option values whose text is bracket/quote neutral: everything but strings (and float texts), which must be
balanced themselves -/
def ValNeutral : PyVal → Prop
  | .str s => Bal s
  | .flt r => Bal r
  | _ => True

theorem bal_pyStr {v : PyVal} (h : ValNeutral v) : Bal (pyStr v) := by
  cases v with
  | none => decide
  | bool b => cases b <;> decide
  | int i => exact bal_of_plain (plain_intDigits i)
  | str s => exact h
  | flt r => exact h
  | tuple l => exact bal_reprTuple l
  | range a b => exact bal_reprRange a b

theorem bal_fmt {v : PyVal} (h : ValNeutral v) (sp : Str) : Bal ((fmt v sp).getD []) := by
  unfold fmt
  split
  · simpa using bal_pyStr h
  · split
    · cases v with
      | none => simpa using bal_nil
      | bool b =>
        simp only [Option.getD_some, padLeft0]
        exact bal_append (bal_of_plain (plain_replicate_zero _)) (by cases b <;> decide)
      | int i =>
        simp only [Option.getD_some]
        split
        · exact bal_of_plain (plain_cons (by decide) (plain_append (plain_replicate_zero _) (plain_natDigits _)))
        · exact bal_of_plain (plain_append (plain_replicate_zero _) (plain_natDigits _))
      | str s =>
        simp only [Option.getD_some, padRight0]
        exact bal_append h (bal_of_plain (plain_replicate_zero _))
      | flt r =>
        simp only [Option.getD_some, padLeft0]
        exact bal_append (bal_of_plain (plain_replicate_zero _)) h
      | tuple l => simpa using bal_nil
      | range a b => simpa using bal_nil
    · simpa using bal_nil

/-! ### rendering splits into literal text and field text -/

theorem count_renderD (c : Char) (o : Opts) (segs : List Seg) :
    (renderD segs o).count c = (litPart segs).count c + (fldPart o segs).count c := by
  induction segs with
  | nil => simp [renderD, litPart, fldPart]
  | cons s r ih =>
    have hr : renderD (s :: r) o = segText o s ++ renderD r o := by simp [renderD]
    rw [hr, List.count_append, ih]
    cases s with
    | lit t => simp only [segText, litPart, fldPart, List.count_append]; omega
    | fld n sp => simp only [litPart, fldPart, List.count_append]; omega
    | bad => simp [segText, litPart, fldPart]

theorem bal_renderD {o : Opts} {segs : List Seg} (hl : Bal (litPart segs)) (hf : Bal (fldPart o segs)) :
    Bal (renderD segs o) := by
  unfold Bal at *
  simp only [count_renderD]
  omega

theorem lookup_mem {o : Opts} {n : Str} {v : PyVal} (h : lookup o n = some v) : (n, v) ∈ o := by
  induction o with
  | nil => simp [lookup] at h
  | cons p r ih =>
    obtain ⟨k, w⟩ := p
    simp only [lookup] at h
    split at h
    · rename_i hk
      cases h; subst hk; simp
    · exact List.mem_cons_of_mem _ (ih h)

theorem bal_segText_fld {o : Opts} (h : ∀ p ∈ o, ValNeutral p.2) (n sp : Str) : Bal (segText o (.fld n sp)) := by
  simp only [segText]
  split
  · rename_i v hv
    exact bal_fmt (h _ (lookup_mem hv)) sp
  · exact bal_nil

theorem bal_fldPart {o : Opts} (h : ∀ p ∈ o, ValNeutral p.2) (segs : List Seg) : Bal (fldPart o segs) := by
  induction segs with
  | nil => exact bal_nil
  | cons s r ih =>
    cases s with
    | lit t => simpa [fldPart] using ih
    | fld n sp =>
      simp only [fldPart]
      exact bal_append (bal_segText_fld h n sp) ih
    | bad => simpa [fldPart] using ih

/-! ### field closure (decidable form) -/

/-- every replacement field of a parsed template is supplied in mode `mode`, with a format spec that the value kinds
of that field support (`:02` only on hours / minutes / seconds), and the template is well formed -/
def closedB (mode : Mode) (segs : List Seg) : Bool :=
  segs.all fun
    | .lit _ => true
    | .bad => false
    | .fld n sp => (supplied mode).contains n &&
        (sp == [] || (sp == ['0', '2'] && [chars! "hours", chars! "minutes", chars! "seconds"].contains n))

/-! ### the ids that are missing -/

theorem mem_missing {B : Nat} {done : List Nat} {i : Nat} : i ∈ missing B done ↔ 1 ≤ i ∧ i ≤ B ∧ i ∉ done := by
  simp only [missing, List.mem_filter, List.mem_range'_1, Bool.not_eq_true', List.contains_eq_mem,
    decide_eq_false_iff_not]
  constructor
  · rintro ⟨⟨h1, h2⟩, h3⟩; exact ⟨h1, by omega, h3⟩
  · rintro ⟨h1, h2, h3⟩; exact ⟨⟨h1, by omega⟩, h3⟩

theorem nodup_missing (B : Nat) (done : List Nat) : (missing B done).Nodup :=
  List.Nodup.sublist List.filter_sublist (List.nodup_range' 1)

theorem missing_nil (B : Nat) : missing B [] = List.range' 1 B := by
  simp [missing]

/-! ### abstract effect of grow tasks on the set of result files -/

/-- the result files after batch `b` was grown (`has i` = a result file for batch `i` exists) -/
def growF (has : Nat → Bool) (b : Nat) : Nat → Bool := fun i => i == b || has i

def growMany (l : List Nat) (has : Nat → Bool) : Nat → Bool := l.foldl growF has

/-- ids in `1..B` with a result file -/
def doneList (has : Nat → Bool) (B : Nat) : List Nat := (List.range' 1 B).filter has

/-- all array tasks of a script have run (in any order: `growF` commutes) -/
def runArray (s : Script) (has : Nat → Bool) : Nat → Bool := growMany (s.tasks.filterMap (taskBatch s)) has

/-- the single-mode job has run -/
def runSingle (s : Script) (B : Nat) (has : Nat → Bool) : Nat → Bool :=
  growMany (singleIds s (missing B (doneList has B))) has

theorem growMany_eq (l : List Nat) (has : Nat → Bool) (i : Nat) : growMany l has i = (l.contains i || has i) := by
  induction l generalizing has with
  | nil => simp [growMany]
  | cons b r ih =>
    have : growMany (b :: r) has = growMany r (growF has b) := by simp [growMany]
    rw [this, ih]
    simp only [growF, List.contains_cons]
    cases hb : (i == b) <;> cases hr : r.contains i <;> simp

theorem missing_doneList (has : Nat → Bool) (B : Nat) :
    missing B (doneList has B) = (List.range' 1 B).filter (fun i => !has i) := by
  unfold missing doneList
  apply List.filter_congr
  intro i hi
  simp only [List.contains_eq_mem, List.mem_filter, hi, true_and]
  cases has i <;> simp

/-- task `t ↦ ids[t-1]` over `1..|ids|` enumerates `ids` -/
theorem map_tasks (ids : List Nat) (f : Nat → Option Nat)
    (h : ∀ t, 1 ≤ t → t ≤ ids.length → f t = ids[t - 1]?) :
    (List.range' 1 ids.length).map f = ids.map some := by
  apply List.ext_getElem
  · simp
  · intro i h1 h2
    simp only [List.length_map, List.length_range'] at h1
    simp only [List.getElem_map, List.getElem_range']
    rw [h (1 + 1 * i) (by omega) (by omega)]
    have : 1 + 1 * i - 1 = i := by omega
    rw [this, List.getElem?_eq_getElem h1]

theorem filterMap_of_map {α β} (l : List α) (f : α → Option β) (r : List β) (h : l.map f = r.map some) :
    l.filterMap f = r := by
  have : l.filterMap f = (l.map f).filterMap id := by
    rw [List.filterMap_map]; rfl
  rw [this, h, List.filterMap_map]
  simp

end Scr
