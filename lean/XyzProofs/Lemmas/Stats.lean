import XyzModel.Stats
import Mathlib.Tactic.FieldSimp
import Mathlib.Tactic.Ring
import Mathlib.Tactic.Linarith
import Mathlib.Algebra.Order.Field.Rat
import Mathlib.Algebra.BigOperators.Group.List.Basic
import Mathlib.Data.List.Induction
/-!
Helper lemmas for C19: the algebra of one Welford / covariance step, the loop invariants, the entry-wise
behaviour of the covariance matrix, and the first-stop characterisation of the `estimate_from_repeats` loop.
-/
namespace Stats
open List

/-! ### whole-sample sums -/

def sumSq (l : List ℚ) : ℚ := (l.map fun x => x * x).sum
def sumX (l : List (ℚ × ℚ)) : ℚ := (l.map fun p => p.1).sum
def sumY (l : List (ℚ × ℚ)) : ℚ := (l.map fun p => p.2).sum
def sumXY (l : List (ℚ × ℚ)) : ℚ := (l.map fun p => p.1 * p.2).sum

@[simp] theorem sumSq_nil : sumSq [] = 0 := rfl
@[simp] theorem sumX_nil : sumX [] = 0 := rfl
@[simp] theorem sumY_nil : sumY [] = 0 := rfl
@[simp] theorem sumXY_nil : sumXY [] = 0 := rfl
theorem sumSq_snoc (l : List ℚ) (x : ℚ) : sumSq (l ++ [x]) = sumSq l + x * x := by simp [sumSq]
theorem sumX_snoc (l : List (ℚ × ℚ)) (p : ℚ × ℚ) : sumX (l ++ [p]) = sumX l + p.1 := by simp [sumX]
theorem sumY_snoc (l : List (ℚ × ℚ)) (p : ℚ × ℚ) : sumY (l ++ [p]) = sumY l + p.2 := by simp [sumY]
theorem sumXY_snoc (l : List (ℚ × ℚ)) (p : ℚ × ℚ) : sumXY (l ++ [p]) = sumXY l + p.1 * p.2 := by simp [sumXY]

theorem sumSq_perm {l₁ l₂ : List ℚ} (h : l₁.Perm l₂) : sumSq l₁ = sumSq l₂ := (h.map _).sum_eq
theorem sumX_perm {l₁ l₂ : List (ℚ × ℚ)} (h : l₁.Perm l₂) : sumX l₁ = sumX l₂ := (h.map _).sum_eq
theorem sumY_perm {l₁ l₂ : List (ℚ × ℚ)} (h : l₁.Perm l₂) : sumY l₁ = sumY l₂ := (h.map _).sum_eq
theorem sumXY_perm {l₁ l₂ : List (ℚ × ℚ)} (h : l₁.Perm l₂) : sumXY l₁ = sumXY l₂ := (h.map _).sum_eq

/-! ### one step, as pure algebra -/

theorem step_mean (n mean S x : ℚ) (hn : n + 1 ≠ 0) (hm : mean * n = S) :
    (mean + (x - mean) / (n + 1)) * (n + 1) = S + x := by
  field_simp
  linarith

theorem step_M2 (n mean M2 S Q x : ℚ) (hn : n + 1 ≠ 0) (hm : mean * n = S)
    (hM : M2 * n = n * Q - S * S) (h0 : n = 0 → M2 = 0 ∧ Q = 0) :
    (M2 + (x - mean) * (x - (mean + (x - mean) / (n + 1)))) * (n + 1)
      = (n + 1) * (Q + x * x) - (S + x) * (S + x) := by
  by_cases hz : n = 0
  · obtain ⟨h1, h2⟩ := h0 hz
    subst hz; simp at hm; subst hm; subst h1; subst h2
    field_simp; ring
  · have hS : S = mean * n := hm.symm
    have hQ : Q = M2 + S * S / n := by field_simp; linarith
    rw [hQ, hS]
    field_simp
    ring

theorem step_C (n xm ym C Sx Sy P x y : ℚ) (hn : n + 1 ≠ 0) (hx : xm * n = Sx) (hy : ym * n = Sy)
    (hC : C * n = n * P - Sx * Sy) (h0 : n = 0 → C = 0 ∧ P = 0) :
    (C + (x - xm) * (y - (ym + (y - ym) / (n + 1)))) * (n + 1)
      = (n + 1) * (P + x * y) - (Sx + x) * (Sy + y) := by
  by_cases hz : n = 0
  · obtain ⟨h1, h2⟩ := h0 hz
    subst hz; simp at hx hy; subst hx; subst hy; subst h1; subst h2
    field_simp; ring
  · have hSx : Sx = xm * n := hx.symm
    have hSy : Sy = ym * n := hy.symm
    have hP : P = C + Sx * Sy / n := by field_simp; linarith
    rw [hP, hSx, hSy]
    field_simp
    ring

/-! ### RunningStatistics: the invariant -/

theorem run_nil : run [] = RS.init := rfl
theorem run_snoc (l : List ℚ) (x : ℚ) : run (l ++ [x]) = (run l).update x := by
  simp [run, RS.updateFromIt, List.foldl_append]

structure Inv (s : RS) (l : List ℚ) : Prop where
  count : s.count = (l.length : ℤ)
  mean : s.mean * (l.length : ℚ) = l.sum
  m2 : s.M2 * (l.length : ℚ) = (l.length : ℚ) * sumSq l - l.sum * l.sum
  zero : l = [] → s.M2 = 0

theorem natCast_succ_ne (n : ℕ) : ((n : ℚ) + 1) ≠ 0 := by positivity

theorem inv_step {s : RS} {l : List ℚ} (h : Inv s l) (x : ℚ) : Inv (s.update x) (l ++ [x]) := by
  have hc : ((s.count : ℤ) : ℚ) = (l.length : ℚ) := by rw [h.count]; simp
  have hn := natCast_succ_ne l.length
  refine ⟨?_, ?_, ?_, ?_⟩
  · simp only [RS.update, Gen.welfordCount, Gen.Default.welfordCount, h.count]
    simp
  · simp only [RS.update, Gen.welfordMean, Gen.Default.welfordMean, hc]
    simp only [List.length_append, List.length_singleton, List.sum_append, List.sum_singleton, Nat.cast_add,
      Nat.cast_one]
    exact step_mean _ _ _ _ hn h.mean
  · simp only [RS.update, Gen.welfordM2, Gen.Default.welfordM2, hc]
    simp only [List.length_append, List.length_singleton, List.sum_append, List.sum_singleton, Nat.cast_add,
      Nat.cast_one, sumSq_snoc]
    refine step_M2 _ _ _ _ _ _ hn h.mean h.m2 ?_
    intro hz
    have : l = [] := by
      have : l.length = 0 := by exact_mod_cast hz
      exact List.length_eq_zero_iff.mp this
    exact ⟨h.zero this, by subst this; rfl⟩
  · intro hl; simp at hl

theorem inv_run (l : List ℚ) : Inv (run l) l := by
  induction l using List.reverseRecOn with
  | nil => exact ⟨rfl, by simp [run_nil, RS.init], by simp [run_nil, RS.init], fun _ => rfl⟩
  | append_singleton l x ih => rw [run_snoc]; exact inv_step ih x

/-! ### RunningCovariance: the invariant -/

theorem runCov_nil : runCov [] = RC.init := rfl
theorem runCov_snoc (l : List (ℚ × ℚ)) (p : ℚ × ℚ) : runCov (l ++ [p]) = (runCov l).update p := by
  simp [runCov, RC.updateFromIt, List.foldl_append]

structure InvC (s : RC) (l : List (ℚ × ℚ)) : Prop where
  count : s.count = (l.length : ℤ)
  xmean : s.xmean * (l.length : ℚ) = sumX l
  ymean : s.ymean * (l.length : ℚ) = sumY l
  c : s.C * (l.length : ℚ) = (l.length : ℚ) * sumXY l - sumX l * sumY l
  zero : l = [] → s.C = 0

theorem invC_step {s : RC} {l : List (ℚ × ℚ)} (h : InvC s l) (p : ℚ × ℚ) : InvC (s.update p) (l ++ [p]) := by
  have hc : ((s.count : ℤ) : ℚ) = (l.length : ℚ) := by rw [h.count]; simp
  have hn := natCast_succ_ne l.length
  refine ⟨?_, ?_, ?_, ?_, ?_⟩
  · simp only [RC.update, Gen.covCount, Gen.Default.covCount, h.count]
    simp
  · simp only [RC.update, Gen.covXmean, Gen.Default.covXmean, hc]
    simp only [List.length_append, List.length_singleton, Nat.cast_add, Nat.cast_one, sumX_snoc]
    exact step_mean _ _ _ _ hn h.xmean
  · simp only [RC.update, Gen.covYmean, Gen.Default.covYmean, hc]
    simp only [List.length_append, List.length_singleton, Nat.cast_add, Nat.cast_one, sumY_snoc]
    exact step_mean _ _ _ _ hn h.ymean
  · simp only [RC.update, Gen.covC, Gen.Default.covC, hc]
    simp only [List.length_append, List.length_singleton, Nat.cast_add, Nat.cast_one, sumX_snoc, sumY_snoc,
      sumXY_snoc]
    refine step_C _ _ _ _ _ _ _ _ _ hn h.xmean h.ymean h.c ?_
    intro hz
    have : l = [] := by
      have : l.length = 0 := by exact_mod_cast hz
      exact List.length_eq_zero_iff.mp this
    exact ⟨h.zero this, by subst this; rfl⟩
  · intro hl; simp at hl

theorem invC_run (l : List (ℚ × ℚ)) : InvC (runCov l) l := by
  induction l using List.reverseRecOn with
  | nil => exact ⟨rfl, by simp [runCov_nil, RC.init], by simp [runCov_nil, RC.init],
      by simp [runCov_nil, RC.init], fun _ => rfl⟩
  | append_singleton l p ih => rw [runCov_snoc]; exact invC_step ih p

/-! ### feeding in chunks -/

theorem rs_chunks (s : RS) (chunks : List (List ℚ)) :
    chunks.foldl RS.updateFromIt s = s.updateFromIt chunks.flatten := by
  induction chunks generalizing s with
  | nil => rfl
  | cons c cs ih =>
    simp only [List.foldl_cons, List.flatten_cons, ih]
    simp [RS.updateFromIt, List.foldl_append]

theorem rc_chunks (s : RC) (chunks : List (List (ℚ × ℚ))) :
    chunks.foldl RC.updateFromIt s = s.updateFromIt chunks.flatten := by
  induction chunks generalizing s with
  | nil => rfl
  | cons c cs ih =>
    simp only [List.foldl_cons, List.flatten_cons, ih]
    simp [RC.updateFromIt, List.foldl_append]

/-! ### the covariance matrix, entry by entry -/

/-- a matrix state in "tabulated" form: the stored pairs `l`, each with state `g p` -/
def tab (l : List (ℕ × ℕ)) (g : ℕ × ℕ → RC) : Mat := l.map fun p => (p, g p)

theorem init_tab (n : ℕ) : Mat.init n = tab (pairs n) fun _ => RC.init := rfl

theorem update_tab (l : List (ℕ × ℕ)) (g : ℕ × ℕ → RC) (x : List ℚ) :
    Mat.update (tab l g) x = tab l fun p => (g p).update (proj p x) := by
  simp [Mat.update, tab, List.map_map, Function.comp_def]

theorem rows_tab (l : List (ℕ × ℕ)) (g : ℕ × ℕ → RC) (rs : List (List ℚ)) :
    rs.foldl Mat.update (tab l g) = tab l fun p => (g p).updateFromIt (rs.map (proj p)) := by
  induction rs generalizing g with
  | nil => simp [RC.updateFromIt]
  | cons r rs ih =>
    simp only [List.foldl_cons, update_tab, ih]
    simp [RC.updateFromIt]

theorem cols_tab (l : List (ℕ × ℕ)) (g : ℕ × ℕ → RC) (cs : List (List ℚ)) :
    Mat.updateFromIt (tab l g) cs =
      tab l fun p => (g p).updateFromIt ((cs.getD p.1 []).zip (cs.getD p.2 [])) := by
  simp [Mat.updateFromIt, tab, List.map_map, Function.comp_def]

theorem apply_tab (l : List (ℕ × ℕ)) (g : ℕ × ℕ → RC) (st : Step) :
    Mat.apply (tab l g) st = tab l fun p => (g p).updateFromIt (stepPairs p st) := by
  cases st with
  | rows rs => simp only [Mat.apply, rows_tab, stepPairs]
  | cols cs => simp only [Mat.apply, cols_tab, stepPairs]

theorem steps_tab (l : List (ℕ × ℕ)) (g : ℕ × ℕ → RC) (steps : List Step) :
    steps.foldl Mat.apply (tab l g) = tab l fun p => (g p).updateFromIt (steps.flatMap (stepPairs p)) := by
  induction steps generalizing g with
  | nil => simp [RC.updateFromIt]
  | cons st sts ih =>
    simp only [List.foldl_cons, apply_tab, ih, List.flatMap_cons]
    simp [RC.updateFromIt, List.foldl_append]

theorem lookup_tab (l : List (ℕ × ℕ)) (g : ℕ × ℕ → RC) (q : ℕ × ℕ) (hq : q ∈ l) :
    (tab l g).lookup q = some (g q) := by
  induction l with
  | nil => simp at hq
  | cons p ps ih =>
    simp only [tab, List.map_cons, List.lookup_cons]
    by_cases h : q = p
    · subst h; simp
    · have : (q == p) = false := by simpa using h
      rw [this]
      have hq' : q ∈ ps := by
        rcases List.mem_cons.mp hq with h' | h'
        · exact absurd h' h
        · exact h'
      exact ih hq'

theorem key_mem (n i j : ℕ) (hi : i < n) (hj : j < n) : key i j ∈ pairs n := by
  unfold key pairs
  split
  · rename_i h
    simp only [List.mem_flatMap, List.mem_range, List.mem_map, List.mem_filter, decide_eq_true_eq]
    exact ⟨i, hi, j, ⟨hj, h⟩, rfl⟩
  · rename_i h
    simp only [List.mem_flatMap, List.mem_range, List.mem_map, List.mem_filter, decide_eq_true_eq]
    exact ⟨j, hj, i, ⟨hi, by omega⟩, rfl⟩

theorem key_symm (i j : ℕ) : key i j = key j i := by
  unfold key
  by_cases h1 : j ≥ i <;> by_cases h2 : i ≥ j <;> simp [h1, h2]
  · have : i = j := by omega
    subst this; exact ⟨rfl, rfl⟩
  · omega

/-! ### the estimate_from_repeats loop -/

/-- the first `n` samples of the stream -/
def pre (f : ℕ → ℚ) (n : ℕ) : List ℚ := (List.range n).map f

theorem pre_succ (f : ℕ → ℚ) (n : ℕ) : pre f (n + 1) = pre f n ++ [f n] := by
  simp [pre, List.range_succ]

theorem run_pre_succ (f : ℕ → ℚ) (n : ℕ) : run (pre f (n + 1)) = (run (pre f n)).update (f n) := by
  rw [pre_succ, run_snoc]

/-- does the loop break right after iteration `i` (statistics = those of the first `i + 1` samples)? -/
def stops (f : ℕ → ℚ) (P : Params) (i : ℕ) : Bool := stopNow P i (run (pre f (i + 1)))

theorem loop_first_stop (f : ℕ → ℚ) (P : Params) :
    ∀ (fuel i : ℕ), (∀ j, j < i → stops f P j = false) →
      (∃ j, i ≤ j ∧ j < i + fuel ∧ stops f P j = true) →
      ∃ k, i ≤ k ∧ k < i + fuel ∧ loop f P fuel i (run (pre f i)) = run (pre f (k + 1)) ∧
        stops f P k = true ∧ ∀ j, j < k → stops f P j = false := by
  intro fuel
  induction fuel with
  | zero =>
    intro i _ ⟨j, h1, h2, _⟩
    omega
  | succ fuel ih =>
    intro i hbefore ⟨j, hij, hjf, hj⟩
    unfold loop
    simp only
    rw [← run_pre_succ]
    by_cases hs : stopNow P i (run (pre f (i + 1))) = true
    · rw [if_pos hs]
      exact ⟨i, le_refl _, by omega, rfl, hs, hbefore⟩
    · rw [if_neg hs]
      have hs' : stops f P i = false := by simpa [stops] using hs
      have hne : j ≠ i := by
        intro h; subst h; rw [hs'] at hj; exact Bool.false_ne_true hj
      have hbefore' : ∀ j, j < i + 1 → stops f P j = false := by
        intro j' hj'
        by_cases h : j' = i
        · subst h; exact hs'
        · exact hbefore j' (by omega)
      obtain ⟨k, hk1, hk2, hk3, hk4, hk5⟩ := ih (i + 1) hbefore' ⟨j, by omega, by omega, hj⟩
      exact ⟨k, by omega, by omega, hk3, hk4, hk5⟩

end Stats
