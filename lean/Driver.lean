import XyzModel.Drv
def main : IO Unit := Drv.main
