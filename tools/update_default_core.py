#!/venv/bin/python
"""Rewrite the `Gen.Default` part of lean/XyzModel/Gen/DefaultCore.lean (last-good definitions of the anchors of
harness/anchors_core.py) from the translation of the current source; the `Gen.Py` prelude above the marker is kept.
Run after the refinement proofs were re-validated against changed code, never at check time."""
import os, sys
V = os.path.dirname(os.path.dirname(os.path.abspath(__file__)))
sys.path.insert(0, os.path.join(V, 'harness'))
import extract, anchors_core
text, status = extract.generate()
P = os.path.join(V, 'lean', 'XyzModel', 'Gen', 'DefaultCore.lean')
MARK = 'namespace Gen.Default\n'
src = open(P).read()
head = src[:src.index(MARK) + len(MARK)]
out = [head + 'open Gen\n']
for name, sig, fn in anchors_core.ANCHORS:
    st = status[name]
    if st['status'] != 'translated':
        sys.exit(f'{name}: {st}')
    body = st['lean']
    out.append(f'def {name} {sig} :={body if body.startswith(chr(10)) else " " + body}\n')
out.append('end Gen.Default')
open(P, 'w').write('\n'.join(out) + '\n')
print('written', len(anchors_core.ANCHORS), 'definitions')
