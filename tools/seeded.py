#!/venv/bin/python
"""Run the checks against one seeded defect.

usage: seeded.py <seeded_dir> [--props C04,C09] [--verif /path/to/verif_copy]
  <seeded_dir> holds patch.diff, demo.py, meta.json (property = the id it is meant to break).
The patch is applied in a scratch worktree of /repo (never in /repo itself), the pinned suite and the demonstration
are re-confirmed, the named checks are run with XYZ_REPO pointing at the worktree, and result.json is written into
<seeded_dir>.  The worktree is removed afterwards."""
import os, sys, json, subprocess, argparse, tempfile, shutil, time

ap = argparse.ArgumentParser()
ap.add_argument('dir')
ap.add_argument('--props')
ap.add_argument('--verif', default=os.path.dirname(os.path.dirname(os.path.abspath(__file__))))
ap.add_argument('--skip-baseline', action='store_true')
ap.add_argument('--out', default='result.json')
a = ap.parse_args()
d = os.path.abspath(a.dir)
meta = json.load(open(os.path.join(d, 'meta.json')))
props = a.props.split(',') if a.props else [meta['property']]
wt = tempfile.mkdtemp(prefix='seedwt_')
os.rmdir(wt)
subprocess.run(['git', '-C', '/repo', 'worktree', 'add', '-q', '--detach', wt, 'HEAD'], check=True)
res = {'property': meta['property'], 'checks': {}}
try:
    clean = subprocess.run(['/venv/bin/python', os.path.join(d, 'demo.py'), wt], capture_output=True, text=True, timeout=900)
    res['demo_clean'] = clean.returncode
    ap_ = subprocess.run(['git', '-C', wt, 'apply', os.path.join(d, 'patch.diff')], capture_output=True, text=True)
    res['applies'] = ap_.returncode == 0
    if not res['applies']:
        res['apply_err'] = ap_.stderr[-300:]
    else:
        if not a.skip_baseline:
            b = subprocess.run(['/venv/bin/python', os.path.join(a.verif, 'tools', 'baseline.py'), wt], capture_output=True, text=True)
            res['baseline'] = b.stdout.strip().split('\n')[0]
            res['baseline_ok'] = b.returncode == 0
        ch = subprocess.run(['/venv/bin/python', os.path.join(d, 'demo.py'), wt], capture_output=True, text=True, timeout=900)
        res['demo_changed'] = ch.returncode
        res['demo_out'] = (ch.stdout + ch.stderr)[-300:]
        for p in props:
            t0 = time.time()
            env = dict(os.environ, XYZ_REPO=wt)
            # evidence_backup: the evidence file describes the unchanged tree; a run on a changed tree must not replace it
            evf = os.path.join(a.verif, 'evidence', p + '.json')
            keep = open(evf).read() if os.path.exists(evf) else None
            r = subprocess.run([os.path.join(a.verif, 'check'), p, '--tier', 'quick'], cwd=a.verif, env=env,
                               capture_output=True, text=True, timeout=3000)
            if keep is not None: open(evf, 'w').write(keep)
            lines = [l for l in r.stdout.split('\n') if l.strip() and not l.startswith('KNOWN-FINDING')]
            res['checks'][p] = {'rc': r.returncode, 'wall_s': round(time.time() - t0, 1),
                                'out': '\n'.join(lines[-4:])[:700]}
finally:
    subprocess.run(['git', '-C', '/repo', 'worktree', 'remove', '--force', wt])
json.dump(res, open(os.path.join(d, a.out), 'w'), indent=1)
caught = [p for p, v in res['checks'].items() if v['rc'] == 1]
print(json.dumps({'dir': os.path.basename(d), 'applies': res.get('applies'), 'baseline': res.get('baseline'),
                  'demo': [res.get('demo_clean'), res.get('demo_changed')], 'caught_by': caught,
                  'rcs': {p: v['rc'] for p, v in res['checks'].items()}}))
