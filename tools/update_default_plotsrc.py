#!/venv/bin/python
"""Rewrite the `Gen.Default` part of lean/XyzModel/Gen/DefaultPlotSrc.lean (last-good text of the anchors of
harness/anchors_plotsrc.py) from the translation of the current source.  Run after the proofs were re-validated against
changed code, never at check time.  usage: update_default_plotsrc.py"""
import os, sys
V = os.path.dirname(os.path.dirname(os.path.abspath(__file__)))
sys.path.insert(0, os.path.join(V, 'harness'))
import extract, anchors_plotsrc
text, status = extract.generate()
P = os.path.join(V, 'lean', 'XyzModel', 'Gen', 'DefaultPlotSrc.lean')
src = open(P).read()
MARK = 'namespace Gen.Default\nopen Gen\n'
head = src[:src.index(MARK) + len(MARK)]
out = [head]
for name, sig, fn in anchors_plotsrc.ANCHORS:
    st = status[name]
    if st['status'] != 'translated':
        sys.exit(f'{name}: {st}')
    body = st['lean']
    out.append(f'def {name} {sig} :={body if body.startswith(chr(10)) else " " + body}\n')
out.append('end Gen.Default')
open(P, 'w').write('\n'.join(out) + '\n')
print('written', len(anchors_plotsrc.ANCHORS), 'definitions')
