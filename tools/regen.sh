#!/bin/sh
# regenerate Gen/Extracted.lean from $XYZ_REPO and rebuild the driver (debug helper for tools/corr.py)
cd "$(dirname "$0")/../harness" && /venv/bin/python -c "
import extract
t,s=extract.generate(); extract.write(t)
print({k:v['status'] for k,v in s.items() if v['status']!='translated'})" && cd ../lean && lake build XyzModel xyzdrv 2>&1 | grep -i "^error" | head
