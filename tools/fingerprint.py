#!/venv/bin/python
"""Show / update the committed fingerprints of the hand-modelled library functions (harness/modelled.py).
usage: fingerprint.py [--update] [repo]"""
import sys, os, json
sys.path.insert(0, os.path.join(os.path.dirname(os.path.dirname(os.path.abspath(__file__))), 'harness'))
import modelled
args = [a for a in sys.argv[1:] if not a.startswith('--')]
repo = args[0] if args else os.environ.get('XYZ_REPO', '/repo')
allc = {}
for p in sorted(modelled.MODELLED):
    st = modelled.status(repo, p)
    bad = {k: v for k, v in st.items() if v != 'unchanged'}
    print(p, len(st), 'functions;', 'all unchanged' if not bad else bad)
    allc.update(modelled.current(repo, p))
if '--update' in sys.argv:
    missing = [k for k, v in allc.items() if v is None]
    if missing: sys.exit('not found in the source: ' + ', '.join(missing))
    json.dump(allc, open(modelled.STORE, 'w'), indent=1, sort_keys=True)
    print('written', modelled.STORE, len(allc))
    json.dump(modelled.tree_current(repo), open(modelled.TREE_STORE, 'w'), indent=1, sort_keys=True)
    print('written', modelled.TREE_STORE)
else:
    print('modules changed since the last validation:', modelled.tree_changed(repo))
