#!/venv/bin/python
"""Run every registered check against a behaviour-preserving refactor: all must exit 0 (no false alarm).
usage: refactor_run.py <dir with patch.diff> [--verif copy] [--props C01,C02]"""
import os, sys, json, subprocess, argparse, tempfile, time
ap = argparse.ArgumentParser(); ap.add_argument('dir'); ap.add_argument('--verif', default='/verif'); ap.add_argument('--props')
a = ap.parse_args()
d = os.path.abspath(a.dir)
m = json.load(open(os.path.join(a.verif, 'MANIFEST.json')))
props = a.props.split(',') if a.props else [c['property_id'] for c in m['checks']]
wt = tempfile.mkdtemp(prefix='refwt_'); os.rmdir(wt)
subprocess.run(['git', '-C', '/repo', 'worktree', 'add', '-q', '--detach', wt, 'HEAD'], check=True)
res = {}
try:
    ap_ = subprocess.run(['git', '-C', wt, 'apply', os.path.join(d, 'patch.diff')], capture_output=True, text=True)
    res['applies'] = ap_.returncode == 0
    for p in props if res['applies'] else []:
        t0 = time.time()
        # evidence_backup: the evidence file describes the unchanged tree; it is read below and then put back
        evf = os.path.join(a.verif, 'evidence', p + '.json')
        keep = open(evf).read() if os.path.exists(evf) else None
        r = subprocess.run([os.path.join(a.verif, 'check'), p, '--tier', 'quick'], cwd=a.verif, env=dict(os.environ, XYZ_REPO=wt),
                           capture_output=True, text=True, timeout=3000)
        lines = [l for l in r.stdout.split('\n') if l.strip() and not l.startswith('KNOWN-FINDING')]
        fb = None
        try:
            ev = json.load(open(os.path.join(a.verif, 'evidence', p + '.json')))
            fb = sorted(k for k, v in ev['coverage'].get('extraction', {}).items() if v != 'translated')
        except Exception: pass
        if keep is not None: open(evf, 'w').write(keep)
        res[p] = {'rc': r.returncode, 'wall_s': round(time.time() - t0, 1), 'fallback_anchors': fb, 'out': '\n'.join(lines[-3:])[:500]}
        print(p, r.returncode, fb, flush=True)
finally:
    subprocess.run(['git', '-C', '/repo', 'worktree', 'remove', '--force', wt])
json.dump(res, open(os.path.join(d, os.environ.get('REFACTOR_OUT', 'result.json')), 'w'), indent=1)
print(json.dumps({'dir': os.path.basename(d), 'alarms': [p for p, v in res.items() if isinstance(v, dict) and v['rc'] != 0]}))
