#!/venv/bin/python
"""Rewrite lean/XyzModel/Gen/DefaultFlow.lean (vocabulary of the argument-flow records + the last-good definitions of the
anchors of harness/anchors_flow.py) from the translation of the current source.  Run after the proofs of
XyzProofs/Refine/Forwarding.lean were re-validated against changed code, never at check time.
usage: update_default_flow.py [repo_dir]"""
import os, sys, ast
V = os.path.dirname(os.path.dirname(os.path.abspath(__file__)))
sys.path.insert(0, os.path.join(V, 'harness'))
import extract
extract.ensure_plugins()
import anchors_flow

HEAD = '''import XyzModel.Gen.DefaultCore
/-!
# Argument flow of the labelled entry points (harness/pyflow2lean.py, harness/anchors_flow.py)

Vocabulary (`Gen.FlowE`, `Gen.FlowCall`, `Gen.FlowPath`, `Gen.Flow`) and the last-good text of the generated records and
functions (`Gen.Default.*`; written by tools/update_default_flow.py).  `Gen/Extracted.lean` holds the translation of
the *current* source.
-/
namespace Gen

/-- a value in an entry point, as a first-order term over what the caller gave and what the object held on entry -/
inductive FlowE where
  | param (n : String)               -- the parameter `n` as given by the caller (`**n` / `*n` collectors included)
  | stored (a : String)              -- `self.<a>` as it is when the entry point is entered
  | lit (s : String)                 -- a literal (Python `repr`)
  | attr (e : FlowE) (n : String)    -- `e.<n>`
  | item (e : FlowE) (k : String)    -- `e[k]` for a constant key / the k-th component of a returned tuple
  | merge (a b : FlowE)              -- `{**a, **b}`: a new dict, `b` wins; also what `a.update(b)` leaves in `a`
  | ite (c t e : FlowE)              -- `t if c else e`, and the join of an `if` that assigns
  | fn (f : String)                  -- a function / operator known by name only (`expr<source>` for an expression not read)
  | ap (f x : FlowE)                 -- application (curried)
  | kw (n : String) (e : FlowE)      -- a keyword argument `n=e` inside an application
  | ret (i : Nat)                    -- what the i-th recorded call returned
deriving Repr, DecidableEq

/-- one recorded call: positional arguments are renamed to the callee's parameter names when its `def` is known -/
structure FlowCall where
  callee : FlowE
  pos : List FlowE
  kws : List (String × FlowE)
  splat : List FlowE
  cond : List (FlowE × Bool)
deriving Repr, DecidableEq

/-- one way the body ends without raising: what is returned and what was written to objects that outlive the call
(`stored a`: an attribute of `self`; `param n`: an object handed in by the caller, changed in place) -/
structure FlowPath where
  cond : List (FlowE × Bool)
  ret : FlowE
  writes : List (FlowE × FlowE)
deriving Repr, DecidableEq

structure Flow where
  calls : List FlowCall
  paths : List FlowPath
deriving Repr, DecidableEq

end Gen

namespace Gen.Default
open Gen

'''

repo = sys.argv[1] if len(sys.argv) > 1 else extract.REPO
T = {k: ast.parse(open(os.path.join(repo, rel)).read()) for k, rel in extract.FILES.items()}
out = [HEAD]
for name, sig, fn in anchors_flow.ANCHORS:
    out.append(f'def {name} {sig} := {fn(T)}\n')
out.append('end Gen.Default\n')
open(os.path.join(V, 'lean', 'XyzModel', 'Gen', 'DefaultFlow.lean'), 'w').write('\n'.join(out))
print('written', len(anchors_flow.ANCHORS), 'definitions')
