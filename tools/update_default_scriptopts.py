#!/venv/bin/python
"""Rewrite the `namespace Gen.Default` part of lean/XyzModel/Gen/DefaultScriptOpts.lean (last-good translations of the
body of gen_cluster_script and of xyzpy_grow_cli.main) from the translation of the current source.  Run after the
refinement proofs were re-validated against changed code, never at check time.  usage: update_default_scriptopts.py"""
import os, sys
V = os.path.dirname(os.path.dirname(os.path.abspath(__file__)))
sys.path.insert(0, os.path.join(V, 'harness'))
import extract, anchors_scriptopts
text, status = extract.generate()
P = os.path.join(V, 'lean', 'XyzModel', 'Gen', 'DefaultScriptOpts.lean')
src = open(P).read()
MARK = 'namespace Gen.Default\n'
head = src[:src.index(MARK) + len(MARK)]
out = [head]
for name, sig, fn in anchors_scriptopts.ANCHORS:
    st = status[name]
    if st['status'] != 'translated':
        sys.exit(f'{name}: {st}')
    body = st['lean']
    out.append(f'def {name} {sig} :={body if body.startswith(chr(10)) else " " + body}\n')
out.append('end Gen.Default')
open(P, 'w').write('\n'.join(out) + '\n')
print('written', len(anchors_scriptopts.ANCHORS), 'definitions')
