#!/venv/bin/python
"""Automated mutation campaign against the hand-modelled / anchored functions (harness/modelled.py: MODELLED).

  mutate.py plan  <out.json> [--per-function N] [--seed S]     enumerate mutants (one small syntactic change each)
  mutate.py run   <plan.json> <results.jsonl> --worker i/n --verif <copy of /verif>
  mutate.py report <results.jsonl> [more.jsonl ...]

A mutant is applied in a scratch worktree of /repo (never in /repo).  It counts only if the pinned suite still passes
(tools/baseline.py: regressions 0) — the others are killed by the existing tests and say nothing about the checks.
For a surviving mutant the checks of every property whose MODELLED list contains the mutated function are run with
XYZ_REPO pointing at the worktree; the mutant is `caught` if one of them exits 1.  Survivors need a human look: many
are equivalent (the change cannot be observed), the rest are gaps."""
import ast, sys, os, json, random, copy, subprocess, tempfile, hashlib, time, argparse

V = os.path.dirname(os.path.dirname(os.path.abspath(__file__)))
sys.path.insert(0, os.path.join(V, 'harness'))
REPO = '/repo'

CMP = {ast.Lt: ast.LtE, ast.LtE: ast.Lt, ast.Gt: ast.GtE, ast.GtE: ast.Gt, ast.Eq: ast.NotEq, ast.NotEq: ast.Eq,
       ast.Is: ast.IsNot, ast.IsNot: ast.Is, ast.In: ast.NotIn, ast.NotIn: ast.In}
BIN = {ast.Add: ast.Sub, ast.Sub: ast.Add, ast.Mult: ast.Add, ast.FloorDiv: ast.Mult, ast.Mod: ast.FloorDiv}


def targets(fn):
    """(description, mutator) pairs for one function node; a mutator edits a deep copy in place given the node index"""
    out = []
    nodes = list(ast.walk(fn))
    for i, n in enumerate(nodes):
        if isinstance(n, ast.Compare):
            for j, op in enumerate(n.ops):
                if type(op) in CMP:
                    out.append((f'L{n.lineno}: {type(op).__name__} -> {CMP[type(op)].__name__}', ('cmp', i, j)))
        elif isinstance(n, ast.BoolOp):
            out.append((f'L{n.lineno}: {"and" if isinstance(n.op, ast.And) else "or"} swapped', ('bool', i)))
        elif isinstance(n, ast.UnaryOp) and isinstance(n.op, ast.Not):
            out.append((f'L{n.lineno}: not removed', ('not', i)))
        elif isinstance(n, ast.BinOp) and type(n.op) in BIN and not (isinstance(n.left, ast.Constant) and isinstance(n.left.value, str)):
            out.append((f'L{n.lineno}: {type(n.op).__name__} -> {BIN[type(n.op)].__name__}', ('bin', i)))
        elif isinstance(n, ast.Constant) and isinstance(n.value, bool):
            out.append((f'L{n.lineno}: {n.value} -> {not n.value}', ('boolc', i)))
        elif isinstance(n, ast.Constant) and isinstance(n.value, int) and not isinstance(n.value, bool) and -2 <= n.value <= 3:
            out.append((f'L{n.lineno}: {n.value} -> {n.value + 1}', ('int', i, 1)))
            if n.value >= 1: out.append((f'L{n.lineno}: {n.value} -> {n.value - 1}', ('int', i, -1)))
        elif isinstance(n, ast.If):
            out.append((f'L{n.lineno}: if condition negated', ('ifneg', i)))
        elif isinstance(n, (ast.Assign, ast.AugAssign, ast.Expr)) and not (isinstance(n, ast.Expr) and isinstance(n.value, ast.Constant)):
            out.append((f'L{n.lineno}: statement removed', ('del', i)))
        elif isinstance(n, ast.Call) and len(n.args) >= 2 and not any(isinstance(a, ast.Starred) for a in n.args):
            out.append((f'L{n.lineno}: first two arguments of {ast.unparse(n.func)[:30]} swapped', ('swap', i)))
    return out


def apply(fn, m):
    fn = copy.deepcopy(fn)
    nodes = list(ast.walk(fn))
    kind, i = m[0], m[1]
    n = nodes[i]
    if kind == 'cmp': n.ops[m[2]] = CMP[type(n.ops[m[2]])]()
    elif kind == 'bool': n.op = ast.Or() if isinstance(n.op, ast.And) else ast.And()
    elif kind == 'not':
        for p in nodes:
            for f, v in ast.iter_fields(p):
                if v is n: setattr(p, f, n.operand)
                elif isinstance(v, list):
                    for k, x in enumerate(v):
                        if x is n: v[k] = n.operand
    elif kind == 'bin': n.op = BIN[type(n.op)]()
    elif kind == 'boolc': n.value = not n.value
    elif kind == 'int': n.value = n.value + m[2]
    elif kind == 'ifneg': n.test = ast.UnaryOp(op=ast.Not(), operand=n.test)
    elif kind == 'swap': n.args[0], n.args[1] = n.args[1], n.args[0]
    elif kind == 'del':
        for p in nodes:
            for f, v in ast.iter_fields(p):
                if isinstance(v, list):
                    for k, x in enumerate(v):
                        if x is n: v[k] = ast.Pass()
    return ast.fix_missing_locations(fn)


def find_fn(tree, qual):
    parts = qual.split('.')
    body = tree.body
    node = None
    for name in parts:
        cand = [n for n in body if isinstance(n, (ast.FunctionDef, ast.ClassDef)) and n.name == name]
        if not cand: return None
        node = cand[-1] if len(parts) == 1 else cand[0] if isinstance(cand[0], ast.ClassDef) else cand[-1]
        body = node.body
    return node


def mutated_source(src, fn, newfn):
    lines = src.split('\n')
    start = min([fn.lineno] + [d.lineno for d in fn.decorator_list]) - 1
    indent = ' ' * fn.col_offset
    new = [indent + l if l else l for l in ast.unparse(newfn).split('\n')]
    return '\n'.join(lines[:start] + new + lines[fn.end_lineno:])


def plan(out, per, seed):
    import modelled, warnings
    rng = random.Random(seed)
    byfn = {}
    for prop, lst in modelled.MODELLED.items():
        for rel, q in lst:
            byfn.setdefault((rel, q), []).append(prop)
    muts = []
    for (rel, q), props in sorted(byfn.items()):
        src = open(os.path.join(REPO, rel)).read()
        with warnings.catch_warnings():
            warnings.simplefilter('ignore')
            tree = ast.parse(src)
        fn = find_fn(tree, q)
        if fn is None: continue
        ts = targets(fn)
        rng.shuffle(ts)
        seen = set()
        n = 0
        for desc, m in ts:
            if n >= per: break
            try:
                new = mutated_source(src, fn, apply(fn, m))
                with warnings.catch_warnings():
                    warnings.simplefilter('ignore')
                    ast.parse(new)
            except Exception:
                continue
            h = hashlib.sha1(new.encode()).hexdigest()[:12]
            if h in seen or new == src: continue
            seen.add(h)
            muts.append({'id': f'{os.path.basename(rel)[:-3]}.{q}.{h[:6]}', 'file': rel, 'function': q, 'what': desc, 'm': list(m),
                         'props': sorted(props)})
            n += 1
    json.dump(muts, open(out, 'w'), indent=1)
    print(len(muts), 'mutants over', len(byfn), 'functions')


def run(planf, resf, worker, nworkers, verif):
    import warnings
    muts = json.load(open(planf))
    done = set()
    if os.path.exists(resf):
        for l in open(resf):
            try: done.add(json.loads(l)['id'])
            except Exception: pass
    for k, mu in enumerate(muts):
        if k % nworkers != worker or mu['id'] in done: continue
        wt = tempfile.mkdtemp(prefix='mutwt_'); os.rmdir(wt)
        subprocess.run(['git', '-C', REPO, 'worktree', 'add', '-q', '--detach', wt, 'HEAD'], check=True)
        rec = dict(mu)
        try:
            p = os.path.join(wt, mu['file'])
            src = open(p).read()
            with warnings.catch_warnings():
                warnings.simplefilter('ignore')
                tree = ast.parse(src)
            fn = find_fn(tree, mu['function'])
            open(p, 'w').write(mutated_source(src, fn, apply(fn, tuple(mu['m']))))
            rec['diff'] = subprocess.run(['git', '-C', wt, 'diff', '-U0'], capture_output=True, text=True).stdout[-1500:]
            t0 = time.time()
            b = subprocess.run(['/venv/bin/python', os.path.join(V, 'tools', 'baseline.py'), wt], capture_output=True, text=True)
            rec['baseline'] = b.stdout.strip().split('\n')[0][:120]
            rec['baseline_ok'] = b.returncode == 0
            rec['baseline_s'] = round(time.time() - t0)
            rec['checks'] = {}
            if rec['baseline_ok']:
                for pr in mu['props']:
                    r = subprocess.run([os.path.join(verif, 'check'), pr], cwd=verif, env=dict(os.environ, XYZ_REPO=wt),
                                       capture_output=True, text=True, timeout=3000)
                    lines = [l for l in r.stdout.split('\n') if l.strip() and not l.startswith('KNOWN-FINDING')]
                    rec['checks'][pr] = {'rc': r.returncode, 'out': '\n'.join(lines[-3:])[:400]}
                    if r.returncode == 1: break
            rec['caught'] = any(v['rc'] == 1 for v in rec['checks'].values())
        except Exception as e:
            rec['error'] = f'{type(e).__name__}: {e}'
        finally:
            subprocess.run(['git', '-C', REPO, 'worktree', 'remove', '--force', wt])
        with open(resf, 'a') as f:
            f.write(json.dumps(rec) + '\n')
        print(mu['id'], rec.get('baseline_ok'), rec.get('caught'), flush=True)


def report(files):
    recs = {}
    for f in files:
        for l in open(f):
            try: r = json.loads(l); recs[r['id']] = r
            except Exception: pass
    rs = list(recs.values())
    alive = [r for r in rs if r.get('baseline_ok')]
    caught = [r for r in alive if r.get('caught')]
    infra = [r for r in alive if any(v['rc'] == 2 for v in r.get('checks', {}).values()) and not r.get('caught')]
    print(f'{len(rs)} mutants; {len(rs) - len(alive)} killed by the pinned suite; {len(alive)} pass it; of those {len(caught)} reported by the checks, '
          f'{len(alive) - len(caught)} not ({len(infra)} with an infrastructure exit)')
    import difflib, warnings
    for r in alive:
        if not r.get('caught'):
            print('\nSURVIVOR', r['id'], r['props'], r['what'], {p: v['rc'] for p, v in r.get('checks', {}).items()})
            try:
                src = open(os.path.join(REPO, r['file'])).read()
                with warnings.catch_warnings():
                    warnings.simplefilter('ignore')
                    fn = find_fn(ast.parse(src), r['function'])
                a_ = ast.unparse(fn).split('\n'); b_ = ast.unparse(apply(fn, tuple(r['m']))).split('\n')
                for l in difflib.unified_diff(a_, b_, lineterm='', n=1):
                    if not l.startswith(('---', '+++')): print('   ', l[:220])
            except Exception as e:
                print('    (diff unavailable:', e, ')')


if __name__ == '__main__':
    ap = argparse.ArgumentParser()
    ap.add_argument('cmd'); ap.add_argument('a'); ap.add_argument('rest', nargs='*')
    ap.add_argument('--per-function', type=int, default=4); ap.add_argument('--seed', type=int, default=1)
    ap.add_argument('--worker', default='0/1'); ap.add_argument('--verif', default=V)
    a = ap.parse_args()
    if a.cmd == 'plan': plan(a.a, a.per_function, a.seed)
    elif a.cmd == 'run':
        i, n = map(int, a.worker.split('/'))
        run(a.a, a.rest[0], i, n, a.verif)
    else: report([a.a] + a.rest)
