#!/venv/bin/python
"""Rewrite lean/XyzModel/Gen/DefaultGrow.lean (the last-good definitions of the anchors of harness/anchors_grow.py) from
the translation of the current source.  Run after the proofs were re-validated against changed code, never at check
time.  usage: update_default_grow.py"""
import os, sys, ast, warnings
warnings.filterwarnings('ignore', category=SyntaxWarning)
V = os.path.dirname(os.path.dirname(os.path.abspath(__file__)))
sys.path.insert(0, os.path.join(V, 'harness'))
import extract
extract.ensure_plugins()
import anchors_grow

HEAD = '''import XyzModel.Gen.DefaultFn
/-!
Last-good definitions of the anchors of harness/anchors_grow.py (the module-level `grow` as an effect skeleton; the
progress queries of `Crop` as functions over directory queries; `check_bad` as a skeleton per result file), and the
helpers the generated text calls.  Written by tools/update_default_grow.py; `Gen/Extracted.lean` holds the translation
of the *current* source.
-/
set_option linter.unusedVariables false
namespace Gen

/-- the effects a `grow` of one batch can attempt -/
inductive GEff where
  | readFn            -- reading the pickled function (only when no function was handed in)
  | readBatch         -- reading the batch file of this batch number
  | readOther         -- reading any other file
  | executor          -- getting the worker pool
  | submit (k : Nat)  -- handing case k to the pool
  | eval (k : Nat)    -- evaluating the function on case k (sequential branch)
  | collect (k : Nat) -- waiting for / fetching the result of case k from the pool
  | writeResult       -- writing the result file of this batch number
  | writeOther        -- writing any other file
deriving Repr, DecidableEq, Inhabited

/-- run a skeleton, then continue on its trace unless it raised (any effect type) -/
def skBindG {ε : Type} (r : List ε × Option PyErr) (k : List ε → List ε × Option PyErr) : List ε × Option PyErr :=
  match r with
  | (t, some e) => (t, some e)
  | (t, none) => k t

@[simp] theorem skBindG_err {ε : Type} (t : List ε) (e : PyErr) (k) : skBindG (t, some e) k = (t, some e) := rfl
@[simp] theorem skBindG_ok {ε : Type} (t : List ε) (k) : skBindG (t, none) k = k t := rfl

/-- a loop over `n` items starting at index `k`: attempt `item k`; if it raises the loop (and the body) ends there;
otherwise run the loop body's own skeleton, then go on with `k + 1` -/
def skLoopB {ε : Type} (fails : ε → Bool) (item : Nat → ε) (body : Nat → List ε → List ε × Option PyErr) :
    Nat → Nat → List ε → List ε × Option PyErr
  | 0, _, t => (t, none)
  | n + 1, k, t =>
    if fails (item k) then (t ++ [item k], some .other)
    else skBindG (body k (t ++ [item k])) (skLoopB fails item body n (k + 1))

/-- "attempt `item k` for k = 0..n-1 in order, stop at the first that fails" -/
def skLoop {ε : Type} (fails : ε → Bool) (item : Nat → ε) (n : Nat) (t : List ε) : List ε × Option PyErr :=
  skLoopB fails item (fun _ t => (t, none)) n 0 t

/-- Python's `range(a, b)` -/
def rangeInt (a b : Int) : List Int := (List.range (b - a).toNat).map (fun (k : Nat) => a + (k : Int))

end Gen

namespace Gen.Default

'''

T = {}
for k, rel in extract.FILES.items():
    try: T[k] = ast.parse(open(os.path.join(extract.REPO, rel)).read())
    except Exception: T[k] = ast.parse('')
out = [HEAD]
for name, sig, fn in anchors_grow.ANCHORS:
    term = fn(T)
    out.append(f'def {name} {sig} := {term}\n' if sig is not None else f'def {name} := {term}\n')
out.append('end Gen.Default\n')
p = os.path.join(V, 'lean', 'XyzModel', 'Gen', 'DefaultGrow.lean')
open(p, 'w').write('\n'.join(out))
print('wrote', p)
