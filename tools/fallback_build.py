#!/venv/bin/python
"""Build every proof with EVERY anchor forced to its committed fallback definition (in a scratch copy of /verif): a
proof that only goes through for the freshly translated text of an anchor would turn a harmless refactor (anchor falls
back) into an alarm.  usage: fallback_build.py [module ...]"""
import os, sys, subprocess, tempfile, shutil
V = os.path.dirname(os.path.dirname(os.path.abspath(__file__)))
tmp = tempfile.mkdtemp(prefix='vfb_')
try:
    subprocess.run(['rsync', '-a', '--exclude', '.git', '--exclude', 'replays', V + '/', tmp + '/'], check=True)
    sys.path.insert(0, os.path.join(tmp, 'harness'))
    import extract
    extract.ensure_plugins()
    names = {n for n, _, _ in extract.ANCHORS}
    text, st = extract.generate(os.environ.get('XYZ_REPO', '/repo'), force_fallback=names)
    open(os.path.join(tmp, 'lean', 'XyzModel', 'Gen', 'Extracted.lean'), 'w').write(text)
    targets = sys.argv[1:] or ['XyzModel', 'XyzProofs']          # optional: only these modules
    r = subprocess.run(['lake', 'build'] + targets, cwd=os.path.join(tmp, 'lean'), capture_output=True, text=True)
    bad = [l for l in r.stdout.split('\n') if l.startswith('error') or '✖' in l]
    print(f'{len(names)} anchors forced to fall back; build', 'OK' if r.returncode == 0 else 'FAILED')
    print('\n'.join(bad[:40]))
    sys.exit(0 if r.returncode == 0 else 1)
finally:
    shutil.rmtree(tmp, ignore_errors=True)
