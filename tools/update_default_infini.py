#!/venv/bin/python
"""Rewrite the last-good text of the infiniplot anchors (lean/XyzModel/Gen/DefaultInfini.lean, below the marker line)
from the current source ($XYZ_REPO, default /repo).  Run after the translated text has been re-validated."""
import os, sys, ast
V = os.path.dirname(os.path.dirname(os.path.abspath(__file__)))
sys.path.insert(0, os.path.join(V, 'harness'))
import anchors_infini as A
repo = os.environ.get('XYZ_REPO', '/repo')
T = {k: ast.parse(open(os.path.join(repo, rel)).read()) for k, rel in A.FILES.items()}
MARK = '-- ==== last-good text (tools/update_default_infini.py) ====\n'
p = os.path.join(V, 'lean', 'XyzModel', 'Gen', 'DefaultInfini.lean')
head = open(p).read().split(MARK)[0]
out = [head, MARK, 'namespace Gen.Default\nopen Gen\n\n']
for name, sig, fn in A.ANCHORS:
    out.append(f'def {name} {sig} := {fn(T)}\n\n')
out.append('end Gen.Default\n')
open(p, 'w').write(''.join(out))
print('written', p)
