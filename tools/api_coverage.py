#!/venv/bin/python
"""Development aid: run the quick checks with XYZV_APICOV set and list the parameters of the library's entry points
that the harness never passes with a non-default value.  usage: api_coverage.py [C01 C02 ...]"""
import os, sys, json, subprocess
V = os.path.dirname(os.path.dirname(os.path.abspath(__file__)))
out = '/tmp/apicov.json'
if os.path.exists(out): os.remove(out)
props = sys.argv[1:] or ['C%02d' % i for i in range(1, 21)]
for p in props:
    subprocess.run([os.path.join(V, 'check'), p], cwd=V, env=dict(os.environ, XYZV_APICOV=out), stdout=subprocess.DEVNULL)
cov = json.load(open(out))
for q in sorted(cov):
    never = [p for p, ks in cov[q].items() if not any(not k.endswith('=default') for k in ks)]
    called = any(cov[q][p] for p in cov[q])
    print(f'{q}: ' + ('NEVER CALLED' if not called else ('never non-default: ' + ', '.join(never) if never else 'all parameters exercised')))
