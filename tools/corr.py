#!/venv/bin/python
"""debug helper: run only the correspondence + oracle part of a property module (no build/audit)"""
import os, sys, json, collections
VERIF = os.path.dirname(os.path.dirname(os.path.abspath(__file__)))
H = os.path.join(VERIF, 'harness'); sys.path.insert(0, H)
os.environ.setdefault('XYZ_REPO', '/repo'); sys.path.insert(0, os.environ['XYZ_REPO'])
os.environ['PYTHONPATH'] = os.pathsep.join([os.environ['XYZ_REPO'], H])
import warnings; warnings.filterwarnings('ignore')


def main():
    import runner, importlib
    prop, n = sys.argv[1], int(sys.argv[2]) if len(sys.argv) > 2 else 100
    seed = int(os.environ.get('VERIF_SEED', 0))
    mod = importlib.import_module('props.' + prop.lower())
    ctx = runner.Ctx(prop, os.environ.get('VERIF_TIER', 'quick'), seed)
    if hasattr(mod, 'setup'): mod.setup(ctx)
    try:
        cases = list(mod.cases(ctx))[:n]
        recs = runner.evaluate(mod, ctx, cases)
    finally:
        if hasattr(mod, 'teardown'): mod.teardown(ctx)
    bad = [r for r in recs if r['diff'] or r['oracle'] or (isinstance(r['real'], dict) and 'harness_exc' in r['real'])]
    print(len(recs), 'cases;', len(bad), 'bad')
    kinds = collections.Counter()
    for r in bad:
        kinds[(str(r['diff'])[:60], str(r['oracle'])[:60])] += 1
    for k, v in kinds.most_common(8): print(v, k)
    for r in bad[:int(os.environ.get('SHOW', 2))]:
        print(json.dumps(r['case'], default=str)[:1500]); print(' diff:', r['diff']); print(' oracle:', r['oracle'])
        if isinstance(r['real'], dict) and 'harness_exc' in r['real']: print(r['real']['tb'])


if __name__ == '__main__':
    main()
    sys.stdout.flush(); os._exit(0)
