#!/venv/bin/python
"""Run the pinned suite on a repo tree and report stable_pass tests that no longer pass.
usage: baseline.py [repo_dir]"""
import json, subprocess, sys, tempfile, os, xml.etree.ElementTree as ET
repo = sys.argv[1] if len(sys.argv) > 1 else '/repo'
base = json.load(open('/root/.vp/BASELINE.json'))
want = set(base['stable_pass'])
with tempfile.TemporaryDirectory() as d:
    x = os.path.join(d, 'j.xml')
    env = dict(os.environ); env.pop('XYZPY_VERIF', None)
    subprocess.run(['/venv/bin/python', '-m', 'pytest', '-q', '-p', 'no:cacheprovider', '--timeout=900',
                    '--continue-on-collection-errors', f'--junitxml={x}'], cwd=repo, env=env,
                   stdout=subprocess.DEVNULL, stderr=subprocess.DEVNULL)
    ok = set()
    for tc in ET.parse(x).getroot().iter('testcase'):
        name = tc.get('classname') + '::' + tc.get('name')
        if not any(c.tag in ('failure', 'error', 'skipped') for c in tc):
            ok.add(name)
missing = sorted(want - ok)
print(f'stable_pass {len(want)}; passing now {len(want & ok)}; regressions {len(missing)}; extra passing {len(ok - want)}')
for m in missing[:40]: print('  REGRESSION', m)
sys.exit(1 if missing else 0)
