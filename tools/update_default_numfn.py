#!/venv/bin/python
"""Rewrite lean/XyzModel/Gen/DefaultNumFn.lean (the last-good definitions of the function-level anchors of the
numerical family, harness/anchors_numfn.py) from the translation of the current source.  Run after the refinement
proofs were re-validated against changed code, never at check time.  usage: update_default_numfn.py"""
import os, sys
V = os.path.dirname(os.path.dirname(os.path.abspath(__file__)))
sys.path.insert(0, os.path.join(V, 'harness'))
import extract, anchors_numfn
text, status = extract.generate()
HEAD = '''/-!
Last-good definitions of the function-level anchors of the numerical family (harness/anchors_numfn.py, translated by
harness/pynum2lean.py).  Written by tools/update_default_numfn.py; `Gen/Extracted.lean` holds the translation of the
*current* source.

Real numbers are an abstract type `K` (core classes only), with `abs`, `sqrt` (`v ** 0.5`) and `inf` (`np.inf`) as
explicit parameters; floats whose decimal formatting matters are an opaque type `F` with the formatting primitives as
parameters.
-/
namespace Gen

/-- `for i in itertools.count(): body` with `break`: `body i s` returns the new state and whether it broke.
`fuel` bounds the number of iterations (the theorems show how much fuel suffices). -/
def forCount {σ : Type} (body : Int → σ → σ × Bool) : Nat → Int → σ → σ
  | 0, _, s => s
  | fuel + 1, i, s =>
    match body i s with
    | (s', true) => s'
    | (s', false) => forCount body fuel (i + 1) s'

/-- what `estimate_from_repeats` returns: `get="stats"` (the object = its three attributes), `get="samples"`
(object and the list of samples), `get="mean"` -/
inductive EstResult (K : Type) where
  | stats (count mean M2 : K)
  | samples (count mean M2 : K) (xs : List K)
  | mean (m : K)

/-- literal text inside a translated f-string; the ones the formatter's reader knows are constructors so that no
proof has to compare strings -/
inductive Lit where
  | lparen | rparen | e
  | other (s : String)
deriving Repr, DecidableEq

/-- one part of a translated f-string -/
inductive Piece (F M : Type) where
  | lit (l : Lit)                 -- literal text
  | fixed (v : F) (d : Int)       -- f"{v:.{d}f}"
  | str (m : M)                   -- f"{m}" of a string-valued name
  | intP03 (k : Int)              -- f"{k:+03d}"

end Gen

namespace Gen.Default
'''
out = [HEAD]
for name, sig, fn in anchors_numfn.ANCHORS:
    st = status[name]
    if st['status'] != 'translated':
        sys.exit(f'{name}: {st}')
    body = st['lean']
    out.append(f'def {name} {sig} :={body if body.startswith(chr(10)) else " " + body}\n')
out.append('end Gen.Default')
open(os.path.join(V, 'lean', 'XyzModel', 'Gen', 'DefaultNumFn.lean'), 'w').write('\n'.join(out) + '\n')
print('written', len(anchors_numfn.ANCHORS), 'definitions')
