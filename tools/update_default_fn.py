#!/venv/bin/python
"""Rewrite lean/XyzModel/Gen/DefaultFn.lean (the last-good definitions of the function-level anchors) from the
translation of the current source.  Run after the refinement proofs were re-validated against changed code (e.g. after
a `fix:` commit), never at check time.  usage: update_default_fn.py"""
import os, sys
V = os.path.dirname(os.path.dirname(os.path.abspath(__file__)))
sys.path.insert(0, os.path.join(V, 'harness'))
import extract, anchors_fn
text, status = extract.generate()
HEAD = '''/-!
Last-good definitions of the function-level anchors (harness/anchors_fn.py, translated by harness/pyfn2lean.py).
Written by tools/update_default_fn.py from the repaired tree; `Gen/Extracted.lean` holds the translation of the
*current* source.
-/
namespace Gen

/-- the exception classes the translated bodies can raise -/
inductive PyErr where
  | valueError | typeError | xyzError | stopIteration | keyError | indexError | fileNotFound | other
deriving Repr, DecidableEq, Inhabited

end Gen

namespace Gen.Default
'''
out = [HEAD]
for name, sig, fn in anchors_fn.ANCHORS:
    st = status[name]
    if st['status'] != 'translated':
        sys.exit(f'{name}: {st}')
    body = st['lean']
    out.append(f'def {name} {sig} :={body if body.startswith(chr(10)) else " " + body}\n')
out.append('end Gen.Default')
open(os.path.join(V, 'lean', 'XyzModel', 'Gen', 'DefaultFn.lean'), 'w').write('\n'.join(out) + '\n')
print('written', len(anchors_fn.ANCHORS), 'definitions')
