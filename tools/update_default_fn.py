#!/venv/bin/python
"""Rewrite lean/XyzModel/Gen/DefaultFn.lean (the last-good definitions of the function-level anchors) from the
translation of the current source.  Run after the refinement proofs were re-validated against changed code (e.g. after
a `fix:` commit), never at check time.  usage: update_default_fn.py"""
import os, sys
V = os.path.dirname(os.path.dirname(os.path.abspath(__file__)))
sys.path.insert(0, os.path.join(V, 'harness'))
import extract, anchors_fn
text, status = extract.generate()
HEAD = '''/-!
Last-good definitions of the function-level anchors (harness/anchors_fn.py, translated by harness/pyfn2lean.py).
Written by tools/update_default_fn.py from the repaired tree; `Gen/Extracted.lean` holds the translation of the
*current* source.
-/
namespace Gen

/-- the exception classes the translated bodies can raise -/
inductive PyErr where
  | valueError | typeError | xyzError | stopIteration | keyError | indexError | fileNotFound | other
deriving Repr, DecidableEq, Inhabited

/-- the effects a reap can attempt, as the skeletons record them -/
inductive Eff where
  | checkReady     -- check_ready_to_reap (raises when the crop is not ready)
  | allNan         -- reading a finished batch to build the all-missing stand-in
  | loadInfo       -- reading the crop's info file
  | gather         -- the runner driving the Reaper: result files are read
  | label          -- building the Dataset / DataFrame from the results
  | reaperExit     -- the Reaper's exit check ("Not all results reaped!")
  | setLast        -- recording the data as the farmer's last result
  | sync           -- Harvester.add_ds / Sampler.add_df: merge with the store and save
  | deleteAll      -- removing the crop directory
deriving Repr, DecidableEq, Inhabited

/-- run another skeleton, then continue on its trace unless it raised -/
def skBind (r : List Eff × Option PyErr) (k : List Eff → List Eff × Option PyErr) : List Eff × Option PyErr :=
  match r with
  | (t, some e) => (t, some e)
  | (t, none) => k t

@[simp] theorem skBind_err (t : List Eff) (e : PyErr) (k) : skBind (t, some e) k = (t, some e) := rfl
@[simp] theorem skBind_ok (t : List Eff) (k) : skBind (t, none) k = k t := rfl
theorem skBind_ite (c : Prop) [Decidable c] (a b : List Eff × Option PyErr) (k) :
    skBind (if c then a else b) k = if c then skBind a k else skBind b k := by
  split <;> rfl

end Gen

namespace Gen.Default
'''
out = [HEAD]
for name, sig, fn in anchors_fn.ANCHORS:
    st = status[name]
    if st['status'] != 'translated':
        sys.exit(f'{name}: {st}')
    body = st['lean']
    out.append(f'def {name} {sig} :={body if body.startswith(chr(10)) else " " + body}\n')
out.append('end Gen.Default')
open(os.path.join(V, 'lean', 'XyzModel', 'Gen', 'DefaultFn.lean'), 'w').write('\n'.join(out) + '\n')
print('written', len(anchors_fn.ANCHORS), 'definitions')
