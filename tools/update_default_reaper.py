#!/venv/bin/python
"""Rewrite lean/XyzModel/Gen/DefaultReaper.lean (the last-good definitions of the Reaper anchors, harness/anchors_reaper.py)
from the translation of the current source.  Run after the refinement proofs were re-validated against changed code,
never at check time.  usage: update_default_reaper.py"""
import os, sys
V = os.path.dirname(os.path.dirname(os.path.abspath(__file__)))
sys.path.insert(0, os.path.join(V, 'harness'))
import extract, anchors_reaper
text, status = extract.generate()
HEAD = '''import XyzModel.Gen.DefaultFn
/-!
The Reaper translated from the source (harness/anchors_reaper.py): what Python's built-ins do (trusted, `namespace Gen`)
and the last-good translated definitions (`namespace Gen.Default`, written by tools/update_default_reaper.py;
`Gen/Extracted.lean` holds the translation of the *current* source).
-/
namespace Gen

/-- `range(a, b)` -/
def pyRange (a b : Int) : List Int := (List.range (b - a).toNat).map (fun (k : Nat) => a + (k : Int))

/-- `next(it)` for `it = itertools.chain.from_iterable(map(load, files))` in the state (`buf` = what is left of the
inner sequence being walked, `files` = the items `map` has not been asked for yet): the value or the exception, and the
state afterwards.  When `load f` raises, the exception passes through `map` and CPython's `chain` drops its source: the
chain is exhausted from then on (`tuple(it) == ()`; checked on the interpreter in use). -/
def chainNext {β : Type} (load : Int → Except PyErr (List β)) :
    List β → List Int → Except PyErr β × (List β × List Int)
  | x :: buf, files => (.ok x, (buf, files))
  | [], [] => (.error .stopIteration, ([], []))
  | [], f :: files =>
    match load f with
    | .error e => (.error e, ([], []))
    | .ok rs => chainNext load rs files

/-- everything the remaining files contribute, loaded in order; the first exception ends it -/
def chainRest {β : Type} (load : Int → Except PyErr (List β)) : List Int → Except PyErr (List β)
  | [] => .ok []
  | f :: files =>
    match load f with
    | .error e => .error e
    | .ok rs =>
      match chainRest load files with
      | .error e => .error e
      | .ok more => .ok (rs ++ more)

/-- `tuple(it)` for the chain in state `(buf, files)` -/
def chainTuple {β : Type} (load : Int → Except PyErr (List β)) (buf : List β) (files : List Int) : Except PyErr (List β) :=
  match chainRest load files with
  | .error e => .error e
  | .ok more => .ok (buf ++ more)

/-- `while not p(): time.sleep(..)`: the number of the first poll (of `fuel`) at which `p` holds, `none` if the loop is
still sleeping when the observation ends -/
def pollUntil (fuel : Nat) (p : Nat → Bool) : Option Nat := (List.range fuel).find? p

/-- the observation ended inside a polling loop (not an exception of the library: the call has not returned) -/
def stillWaiting {α : Type} : Except PyErr α := .error .other

end Gen

namespace Gen.Default
'''
out = [HEAD]
for name, sig, fn in anchors_reaper.ANCHORS:
    st = status[name]
    if st['status'] != 'translated':
        sys.exit(f'{name}: {st}')
    body = st['lean']
    out.append(f'def {name} {sig} :={body if body.startswith(chr(10)) else " " + body}\n')
out.append('end Gen.Default')
open(os.path.join(V, 'lean', 'XyzModel', 'Gen', 'DefaultReaper.lean'), 'w').write('\n'.join(out) + '\n')
print('written', len(anchors_reaper.ANCHORS), 'definitions')
