#!/venv/bin/python
"""Rewrite the `namespace Gen.Default` part of lean/XyzModel/Gen/DefaultStoreIO.lean (last-good definitions of the
anchors of harness/anchors_storeio.py) from the translation of the current source.  Run after the refinement proofs were
re-validated against changed code, never at check time.  usage: update_default_storeio.py"""
import os, sys
V = os.path.dirname(os.path.dirname(os.path.abspath(__file__)))
sys.path.insert(0, os.path.join(V, 'harness'))
import extract, anchors_storeio
text, status = extract.generate()
P = os.path.join(V, 'lean', 'XyzModel', 'Gen', 'DefaultStoreIO.lean')
src = open(P).read()
head = src[:src.index('namespace Gen.Default')]
out = [head + 'namespace Gen.Default', 'open Gen', '']
for name, sig, _ in anchors_storeio.ANCHORS:
    st = status[name]
    if st['status'] != 'translated':
        sys.exit(f'{name} is not translated on this tree: {st.get("why")}')
    out.append(f'def {name} {sig} :={"" if st["lean"].startswith(chr(10)) else " "}{st["lean"]}')
    out.append('')
out += ['end Gen.Default', '']
open(P, 'w').write('\n'.join(out))
print('written', P)
