#!/venv/bin/python
"""Rewrite the `Gen.Default` part of lean/XyzModel/Gen/DefaultLifecycle.lean (last-good text of the life-cycle skeletons,
harness/anchors_lifecycle.py) from the translation of the current source.  Run after the refinement proofs were
re-validated against changed code, never at check time.  usage: update_default_lifecycle.py"""
import os, sys
V = os.path.dirname(os.path.dirname(os.path.abspath(__file__)))
sys.path.insert(0, os.path.join(V, 'harness'))
import extract, anchors_lifecycle
text, status = extract.generate()
P = os.path.join(V, 'lean', 'XyzModel', 'Gen', 'DefaultLifecycle.lean')
src = open(P).read()
MARK = 'namespace Gen.Default\nopen Gen\n'
head = src[:src.index(MARK) + len(MARK)]
out = [head]
for name, sig, fn in anchors_lifecycle.ANCHORS:
    st = status[name]
    if st['status'] != 'translated':
        sys.exit(f'{name}: {st}')
    body = st['lean']
    out.append(f'def {name} {sig} :={body if body.startswith(chr(10)) else " " + body}\n')
out.append('end Gen.Default')
open(P, 'w').write('\n'.join(out) + '\n')
print('written', len(anchors_lifecycle.ANCHORS), 'definitions')
