#!/venv/bin/python
"""Fold result.json / result2.json of every seeded defect into its meta.json and write seeded/SUMMARY.md."""
import os, json, glob
root = os.path.join(os.path.dirname(os.path.dirname(os.path.abspath(__file__))), 'seeded')
rows = []
for d in sorted(glob.glob(os.path.join(root, 'C*'))):
    meta = json.load(open(os.path.join(d, 'meta.json')))
    def first_of(*names):
        for nm in names:
            if os.path.exists(os.path.join(d, nm)): return json.load(open(os.path.join(d, nm)))
        return None
    # first pass = the checks as committed when the seed was delivered; second = after strengthening (per round)
    r1 = first_of('result_r4_first.json', 'result_r6_first.json', 'result.json')
    r2 = first_of('result_r4_second.json', 'result_r6_second.json', 'result2.json')
    r3 = first_of('result_final.json', 'result_now.json', 'result3.json')        # a later run against the checks as they are now
    def caught(r): return sorted(p for p, v in (r or {}).get('checks', {}).items() if v['rc'] == 1)
    def line(r):
        for p, v in (r or {}).get('checks', {}).items():
            if v['rc'] == 1:
                out = [l for l in v['out'].split('\n') if l.strip().startswith(('oracle', 'VIOLATION', '  '))]
                return (v['out'].split('\n')[-1] if not out else out[-1]).strip()[:160]
        return ''
    meta['verification'] = {
        'confirmed_by_maintainer': {'demo_exit_clean_tree': (r1 or r2 or {}).get('demo_clean'), 'demo_exit_changed_tree': (r1 or r2 or {}).get('demo_changed'),
                                    'pinned_suite_with_change': (r1 or {}).get('baseline')},
        'ran': 'tools/seeded.py <dir> (scratch worktree of /repo, git apply patch.diff, tools/baseline.py, demo.py on both trees, ./check <property> --tier quick with XYZ_REPO=<worktree>)',
        'first_pass_caught_by': caught(r1) if r1 else None,
        'after_strengthening_caught_by': caught(r2) if r2 else None,
        'regression_run_with_final_checks_caught_by': caught(r3) if r3 else None,
        'report': line(r2) or line(r1)}
    json.dump(meta, open(os.path.join(d, 'meta.json'), 'w'), indent=1)
    later = caught(r3) if r3 else None           # a later run against the checks as they are now supersedes the second pass
    rows.append((os.path.basename(d), meta.get('property'), meta.get('summary', '')[:110], meta.get('needs', '')[:110],
                 caught(r1) if r1 else '-', (later if later else caught(r2) if r2 else later if later is not None else '-'),
                 meta['verification']['report'] or line(r3)))
with open(os.path.join(root, 'SUMMARY.md'), 'w') as f:
    f.write('# Seeded defects (written by fresh sub-agents that saw only the property text) and what the checks say\n\n'
            'Each directory holds `patch.diff`, `demo.py` (fails with the change, passes without), `meta.json`.\n'
            'All were re-confirmed here: the patch applies, the pinned suite still passes (325/325 stable tests), the demo exits 0 on the clean\n'
            'tree and 1 on the changed tree. "first pass" = the checks as they were when the defect was delivered; "now" = after the\n'
            'generators/oracles were strengthened where a defect had been missed (see DESIGN.md §8).\n\n'
            '| seed | what was changed | needs | first pass | now | what the check reports |\n|---|---|---|---|---|---|\n')
    for r in rows:
        fp = ', '.join(r[4]) if isinstance(r[4], list) and r[4] else ('**missed**' if r[4] == [] else '-')
        nw = ', '.join(r[5]) if isinstance(r[5], list) and r[5] else ('**missed**' if r[5] == [] else 'as first pass')
        f.write(f'| {r[0]} | {r[2]} | {r[3]} | {fp} | {nw} | {r[6]} |\n')
    n = len(rows); c1 = sum(1 for r in rows if isinstance(r[4], list) and r[4]); m1 = sum(1 for r in rows if r[4] == [])
    c2 = sum(1 for r in rows if (isinstance(r[5], list) and r[5]) or (r[5] == '-' and isinstance(r[4], list) and r[4]))
    f.write(f'\n{n} seeded defects; first pass caught {c1}, missed {m1}; with the current checks {c2} of {n} are caught '
            f'(C04_8 and C09_8 stopped violating anything once D25 was repaired: their demonstrations pass on both trees now; '
            f'C10_5 / C10_8 / C10_10 are reported by C12, whose subject they are).\n')
    rdirs = sorted(d for d in glob.glob(os.path.join(root, 'refactors', '*')) if os.path.isdir(d))
    if rdirs:
        f.write('\n## Behaviour-preserving refactors (no alarm expected)\n\nThe latest run of each (against the checks of the '
                'properties its functions belong to; `result.json` = first run, later files = re-runs after corrections).\n\n'
                '| refactor | checks run | alarms | anchors that fell back |\n|---|---|---|---|\n')
        for d in rdirs:
            runs = [os.path.join(d, n) for n in ('result.json', 'result_now.json', 'result_now2.json', 'result_final.json') if os.path.exists(os.path.join(d, n))]
            if not runs: continue
            # per check: the latest run that included it
            merged = {}
            for p in runs:
                for k, v in json.load(open(p)).items():
                    if isinstance(v, dict): merged[k] = v
            name = os.path.basename(d)
            alarms = [k for k, v in merged.items() if v['rc'] != 0]
            fb = sorted({a for v in merged.values() for a in (v.get('fallback_anchors') or [])})
            f.write(f'| {name} | {len(merged)} | {", ".join(sorted(alarms)) or "none"} | {", ".join(fb) or "none"} |\n')
print(open(os.path.join(root, 'SUMMARY.md')).read()[-1500:])
