#!/venv/bin/python
"""Rewrite the `Gen.Default` part of lean/XyzModel/Gen/DefaultCheckBad.lean (last-good text of the anchors of
harness/anchors_checkbad.py) from the translation of the current source.  Run after the proofs were re-validated against
changed code, never at check time.  usage: update_default_checkbad.py"""
import os, sys
V = os.path.dirname(os.path.dirname(os.path.abspath(__file__)))
sys.path.insert(0, os.path.join(V, 'harness'))
import extract, anchors_checkbad
text, status = extract.generate()
P = os.path.join(V, 'lean', 'XyzModel', 'Gen', 'DefaultCheckBad.lean')
src = open(P).read()
MARK = 'namespace Gen.Default\nopen Gen\n'
head = src[:src.index(MARK) + len(MARK)]
out = [head]
for name, sig, fn in anchors_checkbad.ANCHORS:
    st = status[name]
    if st['status'] != 'translated':
        sys.exit(f'{name}: {st}')
    body = st['lean']
    out.append(f'def {name} {sig} :={body if body.startswith(chr(10)) else " " + body}\n')
out.append('end Gen.Default')
open(P, 'w').write('\n'.join(out) + '\n')
print('written', len(anchors_checkbad.ANCHORS), 'definitions')
