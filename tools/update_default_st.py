#!/venv/bin/python
"""Rewrite the `Gen.Default` part of lean/XyzModel/Gen/DefaultSt.lean (last-good text of the state skeletons,
harness/anchors_st.py) from the translation of the current source.  Run after the refinement proofs were re-validated
against changed code, never at check time.  usage: update_default_st.py"""
import os, sys
V = os.path.dirname(os.path.dirname(os.path.abspath(__file__)))
sys.path.insert(0, os.path.join(V, 'harness'))
import extract, anchors_st
text, status = extract.generate()
P = os.path.join(V, 'lean', 'XyzModel', 'Gen', 'DefaultSt.lean')
src = open(P).read()
MARK = 'namespace Gen.Default\nopen Gen\n'
head = src[:src.index(MARK) + len(MARK)]
out = [head]
for name, sig, fn in anchors_st.ANCHORS:
    st = status[name]
    if st['status'] != 'translated':
        sys.exit(f'{name}: {st}')
    body = st['lean']
    out.append(f'def {name} {sig} :={body if body.startswith(chr(10)) else " " + body}\n')
out.append('end Gen.Default')
open(P, 'w').write('\n'.join(out) + '\n')
print('written', len(anchors_st.ANCHORS), 'definitions')
